# Table shared by ./check and gen_manifest.py.
# property -> serving crate/binary, claimed level, one-line texts.
MC = "model_checking"; EX = "exploration"; FE = "fault_enumeration"

PROPS = {
    "C01": dict(crate="mc-codec", level=MC, ref="5/C01",
        technique="bounded-exhaustive sequence enumeration (explicit-state, depth-bounded) of encoder/decoder call sequences on the real flat codec",
        text="Every sequence over a 35-40 value alphabet up to depth 3 (quick) / 4 (thorough), every op and op pair behind 0..7 bools, and all period-1/2/3 runs of length 64 are encoded by the real Encoder and decoded by the real Decoder with the same call sequence; the check fails the run if any op was not started at every bit offset 0..7.",
        note="alphabet chosen from the branches in the code (each LEB width, 255-byte block edge, zigzag extremes); values outside it are not covered"),
    "C02": dict(crate="mc-codec", level=EX, ref="5/C02",
        technique="complete small-scope input enumeration x decoder-call programs, panic capture",
        text="All byte strings of length <= 2 (complete), structured families up to 64 bytes and every truncation of real encodings, crossed with every decoder-call program up to length 2 (quick) / 3 (thorough) over 16 entry points plus flat::decode::<T>; built with overflow checks so shift/arith overflow is a panic as in any dev build.",
        note="no panic = value or error; inputs longer than 3 bytes are structured families"),
    "C03": dict(crate="mc-codec", level=EX, ref="5/C03",
        technique="small-scope enumeration of helper values and of well-formed CBOR items from an independent lossless CBOR generator",
        text="(A) value round trips for every helper wrapper over a value grammar nested to depth 3; (B) for every well-formed item of an independent generator (all head widths incl. non-minimal, def/indef, chunked strings, null/undefined, tag 258; depth 3) each retain-original wrapper that accepts the bytes must re-encode them identically; (C) KeepRaw mutation scenarios on every accepted item.",
        note="refcbor generator is cross-checked against its own strict parser and ciborium"),
    "C04": dict(crate="mc-codec", level=EX, ref="5/C04",
        technique="complete grid: boundary magnitudes x every CBOR head width x major type, direct and embedded decodes",
        text="Every spelling (13 magnitudes x all fitting head widths x unsigned/negative) is decoded as PositiveCoin and NonZeroInt and embedded as asset quantity of conway Value, Mint, TransactionBody.mint and as TransactionBody.donation; accepted values must be non-zero and equal to the wire value, every spelling of zero must be rejected.",
        note="boundary magnitudes only; complete over head widths"),
    "C20": dict(crate="mc-net1", level=MC, ref="5/C20, 1.2",
        technique="stateless exploration of all task schedules within a delay bound (deviation-bounded DFS under an owned scheduler) of the real Muxer/Demuxer loops",
        text="Two real Plexers joined by an in-memory pipe of 8/24/4096 bytes; the real Muxer::run and Demuxer::run loops and scripted agents are tasks of an owned deterministic scheduler; every schedule with at most 3 (quick) / 4 (thorough) deviations from the default scheduler is executed to quiescence and each receiver must hold exactly its sender's chunk sequence (scenarios: two protocols, both directions, same protocol number in both roles, a 65535-byte chunk; network2: senders sharing the write half behind the interface's mutex + read_full_msgs).",
        note="tokio mpsc/duplex/Mutex are trusted to be linearizable and runtime-agnostic; Plexer::spawn itself is replaced by into_parts + the owned scheduler; preemption inside one poll is not modelled"),
    "C25": dict(crate="mc-net1", level=EX, ref="5/C25",
        technique="complete enumeration of all pairs of version tables over a small universe, driven through the real responders",
        text="Every pair of version tables over versions 11..14 with each version {absent, data A, data B (other magic)} (thorough: plus same-magic/different-fields and two-field data) is negotiated by the real pallas-network handshake::Server::handshake (over the deterministic plexer rig, proposal injected raw, reply read from the wire) and by the real pallas-network2 ResponderBehavior; an Accept must name a common version with no higher common one and agreeing magics, disjoint tables must yield VersionMismatch listing exactly the responder's versions.",
        note="tables of up to 4 versions; a refusal despite a common version is allowed by the property text"),
}

ALL_IDS = ["C%02d" % i for i in range(1, 45)]
