#!/usr/bin/env python3
"""True-value oracle for C15 / C16 (pallas-math), independent of pallas and dashu.

Reads one JSON object per line on stdin, writes one JSON object per line on
stdout (same order, same "id").  Numbers are decimal strings of the raw
fixed-point integer (value * 10^34).  Uses mpmath only.

  {"k":"cmp","id":i,"x":raw,"c":raw}
      -> {"id":i,"sign":-1|0|1}            sign of  c/10^34 - e^(x/10^34)
         0 is answered only when equality is provable (x = 0, c = 1).
         If the sign cannot be resolved at 150 digits: {"id":i,"unresolved":true}

  {"k":"tol","id":i,"fn":"exp"|"ln"|"pow","x":raw,"y":raw (pow only),
   "sign":1|-1, "lead":digits, "drop":n}
      computed value = sign * int(lead) * 10^(drop-34)   (for results with
      thousands of digits only the leading 80 digits are sent)
      -> {"id":i,"ok":bool,"err":relative error,"tol":relative tolerance,
          "ratio":|got-true|/absolute tolerance,"loose":bool}

Documented tolerance ("the reference's error bound"), U = 10^-34 (one unit in
the last place), E = 10^-24 (series / continued-fraction cut-off):
  exp x : |got - e^x| <= e^x * N * 100E + 10U,   N = max(1, ceil|x|)
          (Taylor remainder < 2E relative on [0,1], raised to the N-th power;
           each fixed-point product loses < 1U)
  ln x  : |got - ln x| <= (|n|+1) * 100E + 10U + 4U/x,   n = floor(ln x)
          (the argument reduction divides by exp(n), itself N*E-accurate and
           quantised to 1U, which is a relative error U*e/x for tiny x)
  pow x y : relative error <= |y| * tol_ln(x) + 10U(for the floored product
           y*ln x) + tol_exp_rel(y ln x); plus 10U absolute.
           For a negative base with an integral exponent the true value is
           (-1)^y * |x|^y.
The factor 100 is deliberate slack: this oracle only guards against the
re-implemented reference and pallas sharing a mistake; digit-for-digit
agreement is decided elsewhere.
"loose" is set when the tolerance exceeds 10^-6 relative (the check says
little there; counted, not hidden).
"""
import json
import sys

from mpmath import mp, mpf, exp, log, ceil, floor, fabs

S = 34
mp.dps = 120
UNIT = mpf(10) ** S
U = mpf(10) ** (-S)
E = mpf(10) ** (-24)


def val(raw):
    return mpf(int(raw)) / UNIT


def tol_exp_rel(x):
    n = max(1, int(ceil(fabs(x))))
    return n * 100 * E


def tol_ln_abs(x):
    n = int(floor(log(x)))
    return (abs(n) + 1) * 100 * E + 10 * U + 4 * U / x


def do_cmp(q):
    xr, cr = int(q["x"]), int(q["c"])
    if xr == 0:
        d = cr - 10 ** S
        return {"id": q["id"], "sign": (d > 0) - (d < 0)}
    for dps in (120, 150):
        mp.dps = dps
        try:
            d = mpf(cr) / mpf(10) ** S - exp(mpf(xr) / mpf(10) ** S)
            if fabs(d) > mpf(10) ** (-(dps - 20)):
                return {"id": q["id"], "sign": 1 if d > 0 else -1}
        finally:
            mp.dps = 120
    return {"id": q["id"], "unresolved": True}


def do_tol(q):
    x = val(q["x"])
    got = mpf(int(q["lead"])) * mpf(10) ** (int(q["drop"]) - S)
    if int(q["sign"]) < 0:
        got = -got
    fn = q["fn"]
    if fn == "exp":
        true = exp(x)
        tol = true * tol_exp_rel(x) + 10 * U
        rel = tol_exp_rel(x)
    elif fn == "ln":
        true = log(x)
        tol = tol_ln_abs(x)
        rel = tol / max(fabs(true), U)
    elif fn == "pow":
        y = val(q["y"])
        if x == 0:
            true = mpf(1) if y == 0 else mpf(0)
            tol = 10 * U
            rel = mpf(0)
        else:
            ax = fabs(x)
            true = exp(y * log(ax))
            if x < 0:
                yi = int(q["y"]) // 10 ** S
                assert yi * 10 ** S == int(q["y"]), "negative base needs an integral exponent"
                if yi % 2:
                    true = -true
            rel = fabs(y) * tol_ln_abs(ax) + 10 * U + tol_exp_rel(y * log(ax))
            tol = fabs(true) * rel + 10 * U
    else:
        raise ValueError(fn)
    err = fabs(got - true)
    return {
        "id": q["id"],
        "ok": bool(err <= tol),
        "err": float(err / max(fabs(true), U)) if true != 0 else float(err),
        "tol": float(rel),
        "ratio": float(err / tol),
        "loose": bool(rel > mpf(10) ** -6),
    }


def main():
    if hasattr(sys, "set_int_max_str_digits"):
        sys.set_int_max_str_digits(0)
    out = sys.stdout
    for line in sys.stdin:
        line = line.strip()
        if not line:
            continue
        q = json.loads(line)
        r = do_cmp(q) if q["k"] == "cmp" else do_tol(q)
        out.write(json.dumps(r) + "\n")
    out.flush()


if __name__ == "__main__":
    main()
