#!/usr/bin/env python3
"""Regenerates MANIFEST.json from props.py (keeps it valid at all times)."""
import json, os, subprocess
from props import PROPS, ALL_IDS
HERE = os.path.dirname(os.path.abspath(__file__))
titles = {}
for l in open(os.path.join(HERE, "properties.jsonl")):
    p = json.loads(l); titles[p["id"]] = p["title"]
try:
    commits = subprocess.run(["git", "-C", "/repo", "log", "--format=%H %s", "--grep=^verif-hook:"],
                             capture_output=True, text=True).stdout.strip().splitlines()
    commits = [c.split()[0] for c in commits]
except Exception:
    commits = []
checks = []
for pid in ALL_IDS:
    if pid not in PROPS or PROPS[pid].get('pending'): continue
    p = PROPS[pid]
    checks.append({
        "property_id": pid,
        "quick_cmd": f"./check {pid} --tier quick",
        "thorough_cmd": f"./check {pid} --tier thorough",
        "evidence_file": f"/verif/evidence/{pid}.json",
        "replay_cmd_template": f"./check {pid} --replay {{path}}",
        "engine": p["crate"],
        "level_claimed": {"category": p["level"], "text": p["text"], "design_ref": "DESIGN.md section " + p["ref"]},
        "level_note": p["note"],
        "technique": p["technique"],
    })
na = [{"property_id": pid, "reason": "not claimed yet: the check described in DESIGN.md section 5 for this property is not built in the committed tree"}
      for pid in ALL_IDS if pid not in PROPS or PROPS[pid].get('pending')]
engines = {}
for pid, p in PROPS.items():
    if p.get('pending'): continue
    engines.setdefault(p["crate"], []).append(pid)
m = {
    "version": 1,
    "setup_cmd": "./setup.sh",
    "hooks": {
        "guard": "cfg(pallas_verif)",
        "enable": "RUSTFLAGS --cfg pallas_verif via /verif/harness/.cargo/config.toml (the harness workspace builds /repo crates as path dependencies)",
        "baseline_off_cmd": "cd /repo && cargo nextest run --workspace --no-fail-fast --test-threads 8 --offline || cargo test --workspace --no-fail-fast --offline",
        "source_commits": commits,
        "add_only": True,
    },
    "engines": [{"name": k, "path": f"/verif/harness/{k}", "serves_properties": sorted(v),
                 "kind_free_text": "hand-rolled bounded-exhaustive explorer running the real pallas code (see DESIGN.md sections 1-2)"} for k, v in sorted(engines.items())],
    "checks": checks,
    "not_applicable": na,
    "notes": "Every check rebuilds its harness crate against /repo's working tree (path dependencies) before running. known_findings.json lists recorded and fixed defects. Exit 2 = machinery failure, never a verdict.",
}
json.dump(m, open(os.path.join(HERE, "MANIFEST.json"), "w"), indent=1)
print(f"MANIFEST.json: {len(checks)} checks, {len(na)} not yet claimed")
