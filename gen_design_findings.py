#!/usr/bin/env python3
"""Rewrites section 7.1/7.2 of DESIGN.md (between the markers) from known_findings.json."""
import json,re
k=json.load(open('/verif/known_findings.json'))
out=["<!-- BEGIN GENERATED FINDINGS -->",
"### 7.1 Genuine defects repaired in /repo (one `fix:` commit each)","",
"Each was first produced as a failing input / history by the named check on the pinned tree, then",
"repaired with a minimal unguarded commit; the pinned suite (706 tests) passes with all of them and the",
"check passes on the repaired tree. A `fixed` entry suppresses nothing.","",
"| property | commit | what failed |","|---|---|---|"]
for f in k['fixed']:
    what=f['what'].split(' ',3)[3] if f['what'].startswith('fixed:') else f['what']
    out.append(f"| {f['property']} | `{f['commit']}` | {what} |")
out+=["","### 7.2 Genuine defects recorded, not repaired (known_findings.json)","",
"The repair is not small (a public type or a state machine has to be redesigned) or the pinned test suite",
"asserts the defective behaviour. The check prints `KNOWN-FINDING:` for exactly these fingerprints and still",
"reports any other violation of the same property.","",
"| property | fingerprint | what fails |","|---|---|---|"]
for f in k['findings']:
    out.append(f"| {f['property']} | `{f['fingerprint']}` | {f['what']} |")
out.append("<!-- END GENERATED FINDINGS -->")
p='/verif/DESIGN.md'
s=open(p).read()
blk="\n".join(out)
if "<!-- BEGIN GENERATED FINDINGS -->" in s:
    s=re.sub(r"<!-- BEGIN GENERATED FINDINGS -->.*<!-- END GENERATED FINDINGS -->",lambda m:blk,s,flags=re.S)
else:
    raise SystemExit("markers missing")
import glob,os
rows=["<!-- BEGIN GENERATED SEEDS -->","| seed | property | change needs | caught | by (fingerprint of the first report) |","|---|---|---|---|---|"]
for d in sorted(glob.glob('/verif/seeded/*/meta.json')):
    m=json.load(open(d)); name=os.path.basename(os.path.dirname(d))
    need=" ".join((m.get('needs_to_manifest') or '').split())[:230].replace('|','/')
    fp=(m.get('check_reports') or [{}])[0].get('fingerprint','-') if m.get('check_reports') else '-'
    caught=m.get('detected_by_check')
    if m.get('strengthening'): caught+=": "+" ".join(m['strengthening'].split())[:260].replace('|','/')
    rows.append(f"| `{name}` | {m['property']} | {need} | {caught} | `{str(fp)[:110]}` |")
rows.append("<!-- END GENERATED SEEDS -->")
s=re.sub(r"<!-- BEGIN GENERATED SEEDS -->.*<!-- END GENERATED SEEDS -->",lambda m:"\n".join(rows),s,flags=re.S)
open(p,'w').write(s)
print("DESIGN.md findings tables regenerated:",len(k['fixed']),"fixed,",len(k['findings']),"recorded")
