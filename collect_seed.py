#!/usr/bin/env python3
"""Development helper: copy one confirmed seed from /tmp/seeded-out/<batch>/<id>/ to
/verif/seeded/<id>-<batch>/ and write meta.json.

usage: collect_seed.py <batch> <id> <detected: yes|after-strengthening|no> [<strengthening note>]

The check's report is taken from the replay files the scratch run left in
/tmp/mutw/replays/<id>-*.json (fingerprint + what)."""
import glob
import json
import os
import re
import shutil
import sys

batch, pid, detected = sys.argv[1:4]
note = sys.argv[4] if len(sys.argv) > 4 else ""
src = f"/tmp/seeded-out/{batch}/{pid}"
dst = f"/verif/seeded/{pid}-{batch}"
os.makedirs(dst, exist_ok=True)
for f in os.listdir(src):
    p = os.path.join(src, f)
    if not os.path.isfile(p) or os.path.getsize(p) > 60000:
        continue
    shutil.copy(p, dst)
notes = open(os.path.join(src, "notes.md")).read() if os.path.exists(os.path.join(src, "notes.md")) else ""
conf = json.load(open(os.path.join(src, "confirm.json"))) if os.path.exists(os.path.join(src, "confirm.json")) else None
files = [l[6:].strip() for l in open(os.path.join(src, "patch.diff")) if l.startswith("+++ b/")]
reports = []
rep_dir = f"/tmp/seedrep/{batch}-{pid}" if glob.glob(f"/tmp/seedrep/{batch}-{pid}/{pid}-*.json") else "/tmp/mutw/replays"
for r in sorted(glob.glob(f"{rep_dir}/{pid}-*.json")):
    try:
        j = json.load(open(r))
        reports.append({"fingerprint": j.get("fingerprint"), "what": (j.get("what") or "")[:400], "witnesses": j.get("witnesses")})
    except Exception:
        pass
m = re.search(r"(?is)(need[s]?\b.*?)(\n\s*\n|\Z)", notes)
meta = {
    "property": pid,
    "author": "fresh sub-agent given only the property text and a scratch worktree of /repo",
    "files_changed": files,
    "needs_to_manifest": (m.group(1).strip()[:900] if m else notes[:600]),
    "independent_confirmation": conf,
    "ran_against_checks": f"./mutcheck.sh seeded/{pid}-{batch}/patch.diff {pid}   (scratch tree /tmp/mut-repo at /repo HEAD + patch, scratch harness /tmp/mutw; /repo untouched)",
    "detected_by_check": detected,
    "check_reports": reports if detected != "no" else [],
    "strengthening": note,
}
json.dump(meta, open(os.path.join(dst, "meta.json"), "w"), indent=1)
print("collected", dst, "reports:", len(meta["check_reports"]))
