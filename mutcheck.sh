#!/bin/sh
# Development helper (not used by any registered check): run checks against a
# scratch copy of /repo with a patch applied, without touching /repo.
#   ./mutcheck.sh <patch.diff> <PROP> [<PROP> ...]
# Scratch tree: /tmp/mut-repo (git worktree of /repo HEAD), scratch harness:
# /tmp/mut-harness (copy of /verif/harness with path deps redirected, own target dir).
set -e
PATCH="$1"; shift
S="${MUT_SUFFIX:-}"; R=/tmp/mut-repo$S; V=/tmp/mutw$S; H=$V/harness
if [ ! -d "$R" ]; then git -C /repo worktree add -q --detach "$R" HEAD; fi
git -C "$R" checkout -q --detach "$(git -C /repo rev-parse HEAD)" 2>/dev/null || true
git -C "$R" checkout -q -- . ; git -C "$R" clean -fdq -e target
mkdir -p "$H" "$V/evidence" "$V/replays"
rsync -a --delete --exclude target /verif/harness/ "$H/"
find "$H" -name Cargo.toml -exec sed -i "s#/repo/#$R/#g" {} +
sed -i "s#/verif/harness/target#$H/target#" "$H/.cargo/config.toml"
cp /verif/known_findings.json "$V/"; rsync -a /verif/spec "$V/" 2>/dev/null || true; rsync -a /verif/oracles "$V/" 2>/dev/null || true
if [ -n "$PATCH" ] && [ "$PATCH" != "-" ]; then git -C "$R" apply "$PATCH"; fi
for P in "$@"; do
  CRATE=$(python3 -c "import sys; sys.path.insert(0,'/verif'); from props import PROPS; print(PROPS['$P']['crate'])")
  (cd "$H" && cargo build --release --offline -q -p "$CRATE") || { echo "BUILD-FAILED $P"; continue; }
  echo "== $P (mutated tree)"
  (cd "$V" && VERIF_ROOT="$V" "$H/target/release/$CRATE" "$P" --tier quick 2>&1 | grep -E "^(VIOLATION|OK|FAIL|MACHINERY)" | cut -c1-260 | head -8) || true
done
git -C "$R" checkout -q -- .
