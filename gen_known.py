#!/usr/bin/env python3
"""Regenerates the `fixed` section of known_findings.json from /repo's fix: commits
(development-time helper; checks only ever READ known_findings.json)."""
import json, subprocess
PROP = {  # keyword in subject -> (property, what failed)
 "flat Decoder": ("C02", "Decoder::bool on an empty/exhausted buffer (index out of bounds), Decoder::word on ff*10 01 (shift overflow), bits8(0) (shift overflow / out-of-bounds read)"),
 "AnyUInt": ("C03", "AnyUInt decoded 0x18 0x05 as MajorByte(5) and re-encoded it as 0x05; AnyUInt::U8(x<24) did not round-trip"),
 "PositiveCoin": ("C04", "PositiveCoin / conway Value asset quantity / TransactionBody.donation accepted an encoded 0"),
 "deduplicates staged inputs": ("C40", "input(bb#0); input(aa#1); input(aa#1); add_spend_redeemer(bb#0): redeemer index 2 instead of 1 and a duplicated entry in the input set"),
 "cancelled out to zero": ("C40", "mint_asset(P,a,+5); mint_asset(P,a,-5); build_conway_raw panicked (NonZeroInt::try_from(0).unwrap())"),
 "without execution units": ("C40", "add_spend_redeemer(.., None); build_conway_raw hit todo!()"),
 "zero-quantity output asset": ("C40", "output with add_asset(P,a,0); build panicked (PositiveCoin::try_from(0).unwrap())"),
 "keeps a single witness": ("C41", "sign(k0); sign(k0) and sign(k0); add_signature(pk0) left two witnesses for one key"),
 "remove_signature no longer": ("C41", "remove_signature on a tx without / with one witness panicked (NonEmptySet::from_vec(vec![]).unwrap())"),
 "verifies the CRC32": ("C19", "every parsing entry point accepted a Byron address whose crc field differs from CRC-32(payload)"),
 "longer than 132 bytes": ("C19", "a 133-byte address (87-byte derivation path) printed by to_base58 was rejected by from_base58"),
 "accept the client's Done": ("C24", "keepalive Client + Done and peersharing Idle + Done rejected by State::apply"),
 "IPv6 address": ("C22", "PeerAddress::V6 wrote array(8) followed by 6 items (both stacks)"),
 "local-msg-notification": ("C22", "ReplyMessagesBlocking wrote array(3) followed by 2 items"),
 "OHashMap": ("C22", "OHashMap encoded map(n) followed by one array (a0 80 for the empty map)"),
 "PlutusPurpose": ("C22", "PlutusPurpose encoded [[tag, item]] but decodes [tag, item]"),
 "TxValidationError encodes": ("C22", "RejectTx(Shelley{..}) encoded [era, errs] but decodes [[era, errs]]"),
 "outside the i64 range": ("C44", "datum integer -2^64 mapped to Int(0), 2^64-1 to Int(-1) (i128 as i64)"),
 "ledger's address bytes": ("C44", "alonzo27.block tx 1 output 1: non-canonical pointer address re-serialised to different bytes"),
 "round leaves integral": ("C17", "FixedDecimal::from_str(\"5\",0).round() == 6"),
 "magnitude of the remainder": ("C16", "x=-1, bound 3, compare 0.3, max_n 2 answered GT although 0.3 < e^-1"),
 "inconsistent index offsets": ("C43", "secondary block_offset going backwards / 2^63 / 2^64-1 and non-monotonic primary offset: overflow panic, allocation abort, capacity overflow"),
 "past the end of the chain": ("C42", "read_blocks_from_point(tip slot + 1, tip hash) returned Ok(empty iterator)"),
 "client ends in Done after a query": ("C23", "handshake client stayed in Confirm after receiving QueryReply"),
 "server may send a query reply": ("C23", "handshake server rejected sending QueryReply in Confirm"),
 "can release an acquired": ("C23", "tx-monitor client rejected Release in Acquired; release() could never succeed"),
 "BanPeer command": ("C27", "IncludePeer(p), BanPeer(p), Housekeeping asked to Connect(p): the command only set the tag, promotion re-promoted the peer"),
 "already tracked peer": ("C27", "IncludePeer(p), Housekeeping, IncludePeer(p): p in cold and warm at once, per-peer state replaced"),
 "ResponseNextTx decodes": ("C21", "stream 8106 8101 in one segment failed to decode; 82068200d81840 cut at 2 yielded ResponseNextTx(None) early"),
 "empty payload for a rejection": ("C21", "segments 8101 | <empty> | 8101 yielded RejectTx(\"\") as second message"),
 "does not assert on an unexpected Connected": ("C29", "Connected(p) twice (or after a message) hit assert!(handshake == Propose) in propose_handshake"),
 "unknown variant tag": ("C09", "bytes a3 80 11 decoded as BTreeMap<DRep,Coin> (and GovAction / FuturePParams / NextEpochChange with an unknown tag) hit unreachable!()"),
 "vkey witness of the wrong length": ("C33", "a 31-byte vkey / 63-byte signature witness panicked verify_signature (copy_from_slice)"),
 "alonzo-compatible asset quantities does not overflow": ("C33", "mary B2 + mint {A: 2^63-1}: i64 add overflow in add_same_policy_assets"),
 "conway asset quantities does not overflow": ("C33", "conway B2 + output asset 2^64-1: u64 add overflow"),
 "without an i64 detour": ("C34", "conway: input quantity 2^64-1 + mint 1 wrapped to 0 (spent + minted 2^64, produced 0 accepted); also an i64 overflow panic"),
 "absent from the inputs is a negative value": ("C34", "conway: burn of an asset absent from the inputs became 2^64-1 (minted -1, produced 2^64-1 accepted)"),
 "computed in i128": ("C34", "mary: outputs 16 and 2^64-1 of one asset summed to 15 in i64 and balanced"),
 "minimum collateral is compared": ("C33", "B3 + fee = 2^63: fee * collateral_percentage overflow"),
 "summing redeemer execution units does not overflow": ("C33", "every redeemer mem = 2^63: mem += overflow in alonzo/babbage check_tx_ex_units"),
 "checks collateral for spends whose Plutus scripts": ("C38", "babbage: reference-script spend (B3ref) accepted without collateral, with 4 / script-locked / 1-lovelace collateral and with total_collateral = 1: check_fee ran check_collaterals only when the witness set carried Plutus scripts"),
 "ex-unit budget also applies": ("C37", "babbage, conway: spend locked by a PlutusV2 script supplied by a reference input (no Plutus script in the witness set) accepted with sum(mem) = max+1: check_tx_ex_units was gated on witness-set scripts"),
 "check_tx_ex_units sums": ("C37", "conway: sum(mem) = max+1 accepted, the lazy map never ran"),
 "legacy output holding an asset with quantity 0": ("C33", "conway: legacy-form output / collateral return with an asset of quantity 0 hit PositiveCoin::try_from(0).unwrap()"),
 "instead of hitting unimplemented": ("C33", "babbage validator given a Conway-era UTxO entry hit unimplemented!()"),
 "check_fees sums the balances": ("C33", "byron: change = 2^64-1 overflowed the balance sum"),
 "outputs that exceed the inputs": ("C33", "byron: outputs above inputs underflowed inputs_balance - outputs_balance"),
 "get_signature rejects": ("C33", "byron: 63-byte signature panicked get_signature"),
 "get_verification_key rejects": ("C33", "byron: 31-byte key panicked get_verification_key"),
 "repeated input is counted once": ("C34", "inputs += duplicate: the UTxO entry was counted twice (spent 15 ADA, produced + fee 25 ADA accepted), every era"),
 "redeem-only transactions": ("C34", "byron: redeem-only inputs returned Ok without comparing balances (inputs 10 ADA, outputs 9.2e18)"),
 "verifies every remaining vkey witness": ("C35", "witnesses [valid K0, valid K1, corrupt K2] accepted: check_remaining_vk_wits returned at the first valid uncovered witness"),
 "size of the serialised transaction": ("C36", "Shelley..Alonzo: validator size = ledger size - 2; fee a*L+b-1 and max_tx_size L-1 accepted"),
 "does not count the validity flag": ("C36", "Babbage/Conway: validator size = ledger size + 1; fee a*L+b and max_tx_size = L rejected"),
 "max_value_size in bytes": ("C38", "output whose value serialises to ~5.3 kB accepted with max_value_size 5000: words compared with a byte limit (alonzo, babbage, conway)"),
 "each candidate native script on its own": ("C38", "shelley_ma: input locked by H(00|script1|script2) accepted with witnesses [script1, script2]; valid tx with two native-script inputs rejected"),
 "Plutus-locked inputs only": ("C38", "babbage: unneeded redeemer for a native-script-locked input accepted; valid native-script spends rejected with RedeemerMissing"),
 "minimum lovelace of the collateral return": ("C38", "babbage/conway: collateral return of 1 lovelace accepted"),
 "network id of the collateral return": ("C38", "babbage/conway: collateral return to a testnet address accepted on mainnet"),
 "collateral of any era is key-locked": ("C38", "babbage/conway: script-locked collateral created in a previous era accepted (check skipped)"),
 "Byron-era collateral entry": ("C38", "alonzo: Byron-era collateral entry of 1 lovelace accepted (amount check skipped)"),
 "repeated collateral input": ("C38", "babbage/conway: collateral [c, c] counted twice in the collateral balance"),
 "reach its writer in dispatch order": ("C20", "TcpInterface over an in-memory bearer in a current-thread runtime: dispatch(Send) of StartBatch, Block(64+ segments), Block(2 segments), BatchDone with a pipe that never fills: BatchDone arrived before the second Block (FuturesUnordered yielded after two self-woken futures, the unpolled later send queued for the writer lock first); with a Disconnect dispatched behind the sends the last messages were never written"),
 "shares its slot with an epoch boundary block": ("C42", "synthetic Byron database 00150+00160: read_blocks_from_point(Specific(3240000, hash of the main block at slot-in-epoch 0 of epoch 150)) returned CannotFindBlock: iterate_till_point compared only the EBB, the first block of that slot"),
 "selects the blocking or non-blocking state": ("C24", "network2 txsubmission State::apply: [Init] + RequestTxIds(false, ..) went to TxIdsBlocking, the spec says TxIdsNonBlocking"),
 "client's Done while a blocking request": ("C24", "network2 txsubmission State::apply: [Init, RequestTxIds(true, ..)] + Done was rejected, the spec lets the client terminate there"),
 "only the response to the query it sent": ("C23", "tx-monitor client: after RequestNextTx (or RequestHasTx / RequestSizeAndCapacity) recv_message() accepted the responses of the other two queries (one Busy state for three request kinds)"),
 "ShelleyPoolPredFailure is encoded the way it is decoded": ("C22", "localtxsubmission ShelleyPoolPredFailure: derived encoder used tags 0..4 (decoder: 0,1,3,4,5; PoolMedataHashTooBig decoded as WrongNetworkPOOL) and wrote each Mismatch as two loose items inside a one-field flat variant (StakePoolCostTooLowPOOL / StakePoolRetirementWrongEpochPOOL / WrongNetworkPOOL not well-formed)"),
 "applies AwaitReply when it waits in CanAwait": ("C23", "send_request_next; request_or_await_next (or recv_while_must_reply) with AwaitReply injected returned Err(InvalidInbound), consumed the message and stayed in CanAwait"),
 "CostModels encodes": ("C06", "conway CostModels{unknown:{3:[1]}} encoded as a0 and decoded with unknown:{}"),
}
log = subprocess.run(["git","-C","/repo","log","--format=%h\t%s","--grep=^fix:"],capture_output=True,text=True).stdout.strip().splitlines()
fixed=[]
for l in reversed(log):
    h,s=l.split("\t",1)
    m=[v for k,v in PROP.items() if k in s]
    assert len(m)==1,(s,m)
    prop,what=m[0]
    fixed.append({"property":prop,"commit":h,"what":f"fixed: property={prop} {h} {what}"})
k=json.load(open("/verif/known_findings.json"))
k["fixed"]=fixed
json.dump(k,open("/verif/known_findings.json","w"),indent=1)
print(len(fixed),"fixed entries;",len(k["findings"]),"findings")
