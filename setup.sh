#!/bin/sh
# Offline build of the whole harness (MANIFEST.setup_cmd). Everything comes
# from the cargo registry cache and /repo; nothing is fetched.
set -e
cd "$(dirname "$0")/harness"
export CARGO_NET_OFFLINE=true
cargo build --release --offline --workspace 2>&1 | tail -5
