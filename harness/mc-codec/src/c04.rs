//! C04 — decoded numeric wrappers never violate their declared ranges.
//! GRID, complete over: boundary magnitudes x every legal head width x major
//! type 0/1, decoded directly and embedded in Conway Value / Mint / donation.

use mc_core::refcbor::{self, Kind, Node};
use mc_core::{catch, cov, json, Ctx, Level, Value};
use pallas_codec::minicbor;
use pallas_codec::utils::{NonZeroInt, PositiveCoin};
use pallas_primitives::conway;
use std::collections::BTreeSet;

const MAGS: [u64; 13] = [0, 1, 23, 24, 255, 256, 65535, 65536, u32::MAX as u64, 1 << 32, i64::MAX as u64, 1 << 63, u64::MAX];

fn spellings() -> Vec<(Node, i128)> {
    let mut v = vec![];
    for &m in &MAGS {
        for w in [0u8, 1, 2, 4, 8] {
            if refcbor::width_fits(m, w) {
                v.push((Node::uint_w(m, w), m as i128));
                v.push((Node::new(Kind::NInt(m, w)), -1 - (m as i128)));
            }
        }
    }
    v
}

pub fn run(ctx: Ctx) -> ! {
    let mut evals = 0u64;
    let mut nontrivial: BTreeSet<String> = BTreeSet::new();
    let mut samples: Vec<Value> = vec![];
    let policy = Node::bytes(&[0x11; 28]);
    let name = Node::bytes(b"tok");
    let mut zero_rejections = 0u64;
    for (node, val) in spellings() {
        let q = node.to_vec();
        let is_zero = val == 0;
        let report = |site: &str, what: String, bytes: &[u8]| {
            ctx.violation(
                format!("{site}:{}", if is_zero { "zero-accepted" } else { "range" }),
                what,
                json!({"site": site, "quantity_bytes": hex::encode(&q), "bytes": hex::encode(bytes), "value": val.to_string()}),
            );
        };
        // ---- direct: PositiveCoin
        evals += 1;
        match catch(|| minicbor::decode::<PositiveCoin>(&q)) {
            Err(p) => ctx.violation(p.site(), p.message.clone(), json!({"bytes": hex::encode(&q)})),
            Ok(Ok(pc)) => {
                let raw = u64::from(pc);
                if raw == 0 || PositiveCoin::try_from(raw).is_err() {
                    report("PositiveCoin", format!("decode({}) produced PositiveCoin({raw})", hex::encode(&q)), &q);
                } else if raw as i128 != val {
                    report("PositiveCoin", format!("decode({}) produced {raw}, wire value {val}", hex::encode(&q)), &q);
                } else {
                    nontrivial.insert(format!("pc:{}", hex::encode(&q)));
                }
            }
            Ok(Err(_)) => {
                if is_zero {
                    zero_rejections += 1;
                }
                nontrivial.insert(format!("pc-err:{}", hex::encode(&q)));
            }
        }
        // ---- direct: NonZeroInt
        evals += 1;
        match catch(|| minicbor::decode::<NonZeroInt>(&q)) {
            Err(p) => ctx.violation(p.site(), p.message.clone(), json!({"bytes": hex::encode(&q)})),
            Ok(Ok(nz)) => {
                let raw = i64::from(nz);
                if raw == 0 || NonZeroInt::try_from(raw).is_err() {
                    report("NonZeroInt", format!("decode({}) produced NonZeroInt({raw})", hex::encode(&q)), &q);
                } else if raw as i128 != val {
                    report("NonZeroInt", format!("decode({}) produced {raw}, wire value {val}", hex::encode(&q)), &q);
                } else {
                    nontrivial.insert(format!("nz:{}", hex::encode(&q)));
                }
            }
            Ok(Err(_)) => {
                if is_zero {
                    zero_rejections += 1;
                }
                nontrivial.insert(format!("nz-err:{}", hex::encode(&q)));
            }
        }
        // ---- embedded: conway::Value::Multiasset
        for inner_indef in [false, true] {
            let inner = vec![(name.clone(), node.clone())];
            let assets = if inner_indef { Node::map_indef(inner) } else { Node::map(inner) };
            let ma = Node::map(vec![(policy.clone(), assets)]);
            let value = Node::array(vec![Node::uint(2_000_000), ma.clone()]).to_vec();
            evals += 1;
            match catch(|| minicbor::decode::<conway::Value>(&value)) {
                Err(p) => ctx.violation(p.site(), p.message.clone(), json!({"bytes": hex::encode(&value)})),
                Ok(Ok(conway::Value::Multiasset(_, m))) => {
                    let qs: Vec<u64> = m.values().flat_map(|a| a.values().map(|x| u64::from(*x))).collect();
                    if qs.iter().any(|x| *x == 0) || qs.len() != 1 {
                        report("conway::Value", format!("Value decoded from {} holds asset quantities {qs:?}", hex::encode(&value)), &value);
                    } else if qs[0] as i128 != val {
                        report("conway::Value", format!("Value quantity {} differs from wire value {val}", qs[0]), &value);
                    } else {
                        nontrivial.insert(format!("val:{}", hex::encode(&value)));
                    }
                }
                Ok(Ok(other)) => report("conway::Value", format!("unexpected shape {other:?}"), &value),
                Ok(Err(_)) => {
                    if is_zero {
                        zero_rejections += 1;
                    }
                    nontrivial.insert(format!("val-err:{}", hex::encode(&value)));
                }
            }
            // ---- embedded: conway::Mint
            let mint = ma.to_vec();
            evals += 1;
            match catch(|| minicbor::decode::<conway::Mint>(&mint)) {
                Err(p) => ctx.violation(p.site(), p.message.clone(), json!({"bytes": hex::encode(&mint)})),
                Ok(Ok(m)) => {
                    let qs: Vec<i64> = m.values().flat_map(|a| a.values().map(|x| i64::from(*x))).collect();
                    if qs.iter().any(|x| *x == 0) || qs.len() != 1 {
                        report("conway::Mint", format!("Mint decoded from {} holds quantities {qs:?}", hex::encode(&mint)), &mint);
                    } else if qs[0] as i128 != val {
                        report("conway::Mint", format!("Mint quantity {} differs from wire value {val}", qs[0]), &mint);
                    } else {
                        nontrivial.insert(format!("mint:{}", hex::encode(&mint)));
                    }
                }
                Ok(Err(_)) => {
                    if is_zero {
                        zero_rejections += 1;
                    }
                    nontrivial.insert(format!("mint-err:{}", hex::encode(&mint)));
                }
            }
            // ---- embedded: mint + donation inside a transaction body
            for with_tag in [false, true] {
                let inputs = if with_tag { Node::tag(258, Node::array(vec![])) } else { Node::array(vec![]) };
                let body = Node::map(vec![
                    (Node::uint(0), inputs.clone()),
                    (Node::uint(1), Node::array(vec![])),
                    (Node::uint(2), Node::uint(170_000)),
                    (Node::uint(22), node.clone()),
                ])
                .to_vec();
                evals += 1;
                match catch(|| minicbor::decode::<conway::TransactionBody>(&body)) {
                    Err(p) => ctx.violation(p.site(), p.message.clone(), json!({"bytes": hex::encode(&body)})),
                    Ok(Ok(tb)) => match tb.donation {
                        Some(d) if u64::from(d) != 0 && u64::from(d) as i128 == val => {
                            nontrivial.insert(format!("don:{}", hex::encode(&body)));
                        }
                        other => report("conway::TransactionBody.donation", format!("body {} decoded with donation {other:?}", hex::encode(&body)), &body),
                    },
                    Ok(Err(_)) => {
                        if is_zero {
                            zero_rejections += 1;
                        }
                        nontrivial.insert(format!("don-err:{}", hex::encode(&body)));
                    }
                }
                let body2 = Node::map(vec![
                    (Node::uint(0), inputs),
                    (Node::uint(1), Node::array(vec![])),
                    (Node::uint(2), Node::uint(170_000)),
                    (Node::uint(9), ma.clone()),
                ])
                .to_vec();
                evals += 1;
                match catch(|| minicbor::decode::<conway::TransactionBody>(&body2)) {
                    Err(p) => ctx.violation(p.site(), p.message.clone(), json!({"bytes": hex::encode(&body2)})),
                    Ok(Ok(tb)) => {
                        let qs: Vec<i64> = tb.mint.iter().flat_map(|m| m.values()).flat_map(|a| a.values().map(|x| i64::from(*x))).collect();
                        if qs.len() != 1 || qs[0] == 0 || qs[0] as i128 != val {
                            report("conway::TransactionBody.mint", format!("body {} decoded with mint quantities {qs:?}", hex::encode(&body2)), &body2);
                        } else {
                            nontrivial.insert(format!("bmint:{}", hex::encode(&body2)));
                        }
                    }
                    Ok(Err(_)) => {
                        if is_zero {
                            zero_rejections += 1;
                        }
                        nontrivial.insert(format!("bmint-err:{}", hex::encode(&body2)));
                    }
                }
            }
        }
        if samples.len() < 5 && (is_zero || evals % 211 == 3) {
            samples.push(json!({"quantity_bytes": hex::encode(&q), "value": val.to_string()}));
        }
    }
    let cov = cov! {
        "evaluations" => evals,
        "distinct_nontrivial" => nontrivial.len(),
        "rule" => "evaluation = one decode of an integer spelling (13 magnitudes x every head width that fits x major type 0/1) directly as PositiveCoin / NonZeroInt or embedded as the asset quantity of conway::Value, conway::Mint, TransactionBody.mint, or as TransactionBody.donation; non-trivial = distinct (site, bytes) on which the oracle was evaluated (accepted in range, or rejected)",
        "samples" => samples,
        "zero_spellings_rejected" => zero_rejections,
        "exhaustive" => true,
    };
    ctx.finish(Level::Exploration, cov, &["magnitudes are boundary values, complete over head widths; interior values not enumerated"])
}
