//! C02 — flat decoding is total on arbitrary bytes.
//! GRID: complete enumeration of all byte strings of length <= 2, structured
//! families up to 64 bytes, every truncation of real encodings; crossed with
//! every decoder-call program up to length 2 (quick) / 3 (thorough). A failing
//! call does not end a program: the decoder must stay usable.

use crate::c01::{alphabet, encode_seq};
use mc_core::{catch, cov, json, Ctx, Level, Value};
use pallas_codec::flat::{de::Decoder, filler::Filler};
use rayon::prelude::*;
use std::collections::BTreeSet;
use std::sync::atomic::{AtomicU64, Ordering};

#[derive(Clone, Copy, Debug, PartialEq)]
enum Call {
    Bool,
    U8,
    Word,
    Integer,
    Char,
    Bytes,
    Utf8,
    Str,
    Filler,
    Bits8(usize),
    ListBool,
    ListU8,
}

const CALLS: &[Call] = &[
    Call::Bool,
    Call::U8,
    Call::Word,
    Call::Integer,
    Call::Char,
    Call::Bytes,
    Call::Utf8,
    Call::Str,
    Call::Filler,
    Call::Bits8(0),
    Call::Bits8(1),
    Call::Bits8(7),
    Call::Bits8(8),
    Call::Bits8(9),
    Call::ListBool,
    Call::ListU8,
];

/// 0 = Ok, 1 = Err
fn exec(d: &mut Decoder, c: Call) -> u8 {
    let ok = match c {
        Call::Bool => d.bool().is_ok(),
        Call::U8 => d.u8().is_ok(),
        Call::Word => d.word().is_ok(),
        Call::Integer => d.integer().is_ok(),
        Call::Char => d.char().is_ok(),
        Call::Bytes => d.bytes().is_ok(),
        Call::Utf8 => d.utf8().is_ok(),
        Call::Str => d.string().is_ok(),
        Call::Filler => d.decode::<Filler>().is_ok(),
        Call::Bits8(k) => d.bits8(k).is_ok(),
        Call::ListBool => d.decode_list_with(|d| d.bool()).is_ok(),
        Call::ListU8 => d.decode_list_with(|d| d.u8()).is_ok(),
    };
    if ok {
        0
    } else {
        1
    }
}

fn top_level(i: usize, b: &[u8]) -> bool {
    use pallas_codec::flat::decode;
    match i {
        0 => decode::<bool>(b).is_ok(),
        1 => decode::<u8>(b).is_ok(),
        2 => decode::<usize>(b).is_ok(),
        3 => decode::<isize>(b).is_ok(),
        4 => decode::<char>(b).is_ok(),
        5 => decode::<Vec<u8>>(b).is_ok(),
        _ => decode::<String>(b).is_ok(),
    }
}
const TOP_NAMES: [&str; 7] = ["bool", "u8", "usize", "isize", "char", "Vec<u8>", "String"];

fn inputs(thorough: bool) -> Vec<Vec<u8>> {
    let mut v: Vec<Vec<u8>> = vec![vec![]];
    for a in 0..=255u8 {
        v.push(vec![a]);
    }
    for a in 0..=255u8 {
        for b in 0..=255u8 {
            v.push(vec![a, b]);
        }
    }
    let s7 = [0x00u8, 0x01, 0x7f, 0x80, 0x81, 0xfe, 0xff];
    for a in s7 {
        for b in s7 {
            for c in s7 {
                v.push(vec![a, b, c]);
            }
        }
    }
    // continuation runs ff^k . t  (drives Decoder::word past 64 bits of shift)
    for k in 0..=64usize {
        for t in [None, Some(0x00u8), Some(0x01), Some(0x7f)] {
            let mut s = vec![0xffu8; k];
            if let Some(t) = t {
                s.push(t);
            }
            if s.len() <= 64 {
                v.push(s.clone());
            }
            // the same run behind an aligning filler / after one bit
            let mut s2 = vec![0x01u8];
            s2.extend(&s);
            if s2.len() <= 64 {
                v.push(s2);
            }
        }
    }
    // 80^k . t : continuation bytes with zero payload
    for k in 0..=20usize {
        let mut s = vec![0x80u8; k];
        s.push(0x01);
        v.push(s);
    }
    // the word-size boundary of the LEB decoder: 7..12 continuation bytes (payload
    // bits all-zero or all-one) followed by EVERY tail of length 1..3 over a
    // 9-value alphabet (which of the bytes around the 10th chunk carry bits that
    // no longer fit is exactly what an overflow guard has to get right)
    let tail_alpha = [0x00u8, 0x01, 0x02, 0x7e, 0x7f, 0x80, 0x81, 0xfe, 0xff];
    for k in 7..=12usize {
        for c in [0x80u8, 0xff] {
            for a in tail_alpha {
                v.push([vec![c; k], vec![a]].concat());
                for b in tail_alpha {
                    v.push([vec![c; k], vec![a, b]].concat());
                    for d in tail_alpha {
                        v.push([vec![c; k], vec![a, b, d]].concat());
                    }
                }
            }
        }
    }
    // block shapes [01 filler][len][payload shorter / equal / longer][next len]
    for len in [1u8, 2, 31, 62, 63, 254, 255] {
        for have in [0usize, 1, (len as usize).saturating_sub(1), len as usize, len as usize + 1, len as usize + 2] {
            for tail in [None, Some(0u8), Some(1), Some(0xff)] {
                for prefix in [&[][..], &[0x01][..], &[0x00, 0x01][..]] {
                    let mut s = prefix.to_vec();
                    s.push(len);
                    s.extend(std::iter::repeat(0xab).take(have));
                    if let Some(t) = tail {
                        s.push(t);
                    }
                    if s.len() <= 64 {
                        v.push(s);
                    }
                }
            }
        }
    }
    // filler shapes 00^k 01, 00^k
    for k in 0..=10usize {
        let mut s = vec![0u8; k];
        v.push(s.clone());
        s.push(1);
        v.push(s);
    }
    // every truncation of every depth-<=2 encoding of the C01 alphabet (<= 64 bytes kept whole,
    // longer ones truncated to their first 64 bytes and last cut positions)
    let alpha = alphabet(false);
    let mut encs: BTreeSet<Vec<u8>> = BTreeSet::new();
    for a in &alpha {
        if let Ok(b) = encode_seq(&[a.clone()]) {
            encs.insert(b);
        }
        for b in &alpha {
            if let Ok(x) = encode_seq(&[a.clone(), b.clone()]) {
                encs.insert(x);
            }
        }
    }
    for e in encs {
        let lim = if thorough { e.len() } else { e.len().min(64) };
        for cut in 0..=lim {
            v.push(e[..cut].to_vec());
        }
    }
    v.sort();
    v.dedup();
    v
}

fn programs(maxlen: usize) -> Vec<Vec<Call>> {
    let mut out: Vec<Vec<Call>> = vec![];
    let mut level: Vec<Vec<Call>> = vec![vec![]];
    for _ in 0..maxlen {
        let mut next = vec![];
        for p in &level {
            for c in CALLS {
                let mut q = p.clone();
                q.push(*c);
                next.push(q);
            }
        }
        out.extend(next.iter().cloned());
        level = next;
    }
    out
}

pub fn run(ctx: Ctx) -> ! {
    if let Some(p) = &ctx.replay {
        let v = crate::c01::serde_json_from(p);
        let b = hex::decode(v["case"]["input_hex"].as_str().unwrap_or("")).unwrap_or_default();
        println!("replay C02 input={} program={}", hex::encode(&b), v["case"]["program"]);
        std::process::exit(0);
    }
    let ins = inputs(ctx.thorough);
    let progs = programs(if ctx.thorough { 3 } else { 2 });
    let calls = AtomicU64::new(0);
    let errs = AtomicU64::new(0);
    let outcomes: std::sync::Mutex<BTreeSet<(usize, u32)>> = Default::default();
    ins.par_iter().for_each(|input| {
        let mut local_calls = 0u64;
        let mut local_errs = 0u64;
        let mut local_out = BTreeSet::new();
        for (pi, prog) in progs.iter().enumerate() {
            let r = catch(|| {
                let mut d = Decoder::new(input);
                let mut sig = 0u32;
                for c in prog {
                    sig = (sig << 1) | exec(&mut d, *c) as u32;
                }
                sig
            });
            local_calls += prog.len() as u64;
            match r {
                Ok(sig) => {
                    local_errs += sig.count_ones() as u64;
                    local_out.insert((pi, sig));
                }
                Err(p) => ctx.violation(
                    p.site(),
                    format!("decoder call sequence panicked: {} at {}", p.message, p.location),
                    json!({"input_hex": hex::encode(input), "program": format!("{prog:?}")}),
                ),
            }
        }
        for t in 0..7 {
            local_calls += 1;
            match catch(|| top_level(t, input)) {
                Ok(ok) => {
                    if !ok {
                        local_errs += 1
                    }
                    local_out.insert((usize::MAX - t, ok as u32));
                }
                Err(p) => ctx.violation(
                    p.site(),
                    format!("flat::decode::<{}> panicked: {} at {}", TOP_NAMES[t], p.message, p.location),
                    json!({"input_hex": hex::encode(input), "program": format!("flat::decode::<{}>", TOP_NAMES[t])}),
                ),
            }
        }
        calls.fetch_add(local_calls, Ordering::Relaxed);
        errs.fetch_add(local_errs, Ordering::Relaxed);
        let mut o = outcomes.lock().unwrap();
        o.extend(local_out);
    });
    let evaluations = ins.len() as u64 * (progs.len() as u64 + 7);
    let samples: Vec<Value> = vec![
        json!({"input_hex": "", "program": "[Bool]"}),
        json!({"input_hex": hex::encode(&ins[ins.len() / 2]), "program": format!("{:?}", progs[progs.len() / 2])}),
        json!({"input_hex": "ffffffffffffffffffff01", "program": "[Word]"}),
    ];
    let cov = cov! {
        "evaluations" => evaluations,
        "distinct_nontrivial" => outcomes.lock().unwrap().len(),
        "rule" => "evaluation = one (input, decoder program) run on the real Decoder; inputs: ALL byte strings of length 0,1,2 + 7^3 length-3 strings + ff^k/80^k runs (k<=64) + block/filler shapes + every truncation of every depth<=2 C01 encoding; programs: every call sequence up to the tier's length over 16 entry points + flat::decode::<T> for 7 types; distinct_nontrivial = distinct (program, Ok/Err signature) pairs observed",
        "samples" => samples,
        "inputs" => ins.len(),
        "programs" => progs.len() + 7,
        "decoder_calls" => calls.load(Ordering::Relaxed),
        "calls_returning_err" => errs.load(Ordering::Relaxed),
        "all_byte_strings_up_to_len_2_complete" => true,
        "exhaustive" => true,
    };
    ctx.finish(Level::Exploration, cov, &["inputs longer than 3 bytes are structured families, not all strings", "build has overflow-checks and debug-assertions on (dev-profile semantics)"])
}
