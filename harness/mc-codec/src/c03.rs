//! C03 — CBOR helper wrappers round-trip and preserve original encodings.
//! (A) value -> bytes -> value over a value grammar nested to depth 3;
//! (B) bytes -> value -> bytes for the retain-original wrappers over every
//!     well-formed item the independent refcbor generator produces (all head
//!     widths incl. non-minimal, def/indef, chunked strings, null/undefined,
//!     tag 258);
//! (C) KeepRaw mutation semantics.

use mc_core::refcbor::{self, Kind, Node};
use mc_core::{catch, cov, json, Ctx, Level, Value};
use pallas_codec::minicbor;
use pallas_codec::utils::*;
use std::collections::BTreeSet;
use std::ops::DerefMut;

#[derive(Debug, Clone, PartialEq)]
enum ByType {
    Small(u32),
    Flag(bool),
    Triple(bool, u64, i32),
}
pallas_codec::codec_by_datatype! {
    ByType,
    U8 | U16 | U32 => Small,
    Bool => Flag,
    (b, u, i => Triple)
}

struct St<'a> {
    ctx: &'a Ctx,
    evals: u64,
    nontrivial: BTreeSet<String>,
    samples: Vec<Value>,
    per_type: std::collections::BTreeMap<String, u64>,
}

impl St<'_> {
    fn tick(&mut self, ty: &str) {
        self.evals += 1;
        *self.per_type.entry(ty.to_string()).or_default() += 1;
    }
}

/// value round trip: decode(encode(v)) == v  (and the second encoding equals the first)
macro_rules! rt {
    ($st:expr, $ty:ty, $name:expr, $v:expr) => {{
        let v: $ty = $v;
        $st.tick($name);
        let r = catch(|| {
            let bytes = minicbor::to_vec(&v).map_err(|e| format!("encode error {e:?}"))?;
            let back: $ty = minicbor::decode(&bytes).map_err(|e| format!("decode error {e} on {}", hex::encode(&bytes)))?;
            if back != v {
                return Err(format!("decoded {:?} != original {:?} (bytes {})", back, v, hex::encode(&bytes)));
            }
            let again = minicbor::to_vec(&back).map_err(|e| format!("re-encode error {e:?}"))?;
            if again != bytes {
                return Err(format!("second encoding {} != first {}", hex::encode(&again), hex::encode(&bytes)));
            }
            Ok(bytes)
        });
        match r {
            Ok(Ok(bytes)) => {
                $st.nontrivial.insert(format!("A:{}:{}", $name, hex::encode(&bytes)));
                if $st.samples.len() < 4 && $st.evals % 97 == 1 {
                    $st.samples.push(json!({"part": "A", "type": $name, "value": format!("{:?}", v), "bytes": hex::encode(&bytes)}));
                }
            }
            Ok(Err(e)) => $st.ctx.violation(format!("value-roundtrip:{}", $name), e, json!({"part":"A","type":$name,"value":format!("{:?}", v)})),
            Err(p) => $st.ctx.violation(p.site(), format!("panic in value round trip of {}: {}", $name, p.message), json!({"part":"A","type":$name,"value":format!("{:?}", v)})),
        }
    }};
}

/// bytes identity: if the wrapper accepts `b`, it re-encodes to exactly `b`.
macro_rules! ident {
    ($st:expr, $ty:ty, $name:expr, $b:expr) => {{
        let b: &[u8] = $b;
        $st.tick($name);
        let r = catch(|| {
            let dec: Result<$ty, _> = minicbor::decode(b);
            match dec {
                Err(_) => Ok(false),
                Ok(v) => {
                    let again = minicbor::to_vec(&v).map_err(|e| format!("encode error {e:?}"))?;
                    if again != b {
                        Err(format!("accepted {} but re-encoded {}", hex::encode(b), hex::encode(&again)))
                    } else {
                        Ok(true)
                    }
                }
            }
        });
        match r {
            Ok(Ok(true)) => {
                $st.nontrivial.insert(format!("B:{}:{}", $name, hex::encode(b)));
            }
            Ok(Ok(false)) => {}
            Ok(Err(e)) => $st.ctx.violation(format!("bytes-identity:{}", $name), e, json!({"part":"B","type":$name,"bytes":hex::encode(b)})),
            Err(p) => $st.ctx.violation(p.site(), format!("panic in bytes identity of {}: {}", $name, p.message), json!({"part":"B","type":$name,"bytes":hex::encode(b)})),
        }
    }};
}

const LEAVES: [u64; 5] = [0, 23, 24, 1 << 32, u64::MAX];

fn lists<T: Clone>(xs: &[T]) -> Vec<Vec<T>> {
    let mut out = vec![vec![]];
    for x in xs {
        out.push(vec![x.clone()]);
    }
    for (i, x) in xs.iter().enumerate() {
        for (j, y) in xs.iter().enumerate() {
            if (i + j) % 2 == 0 || xs.len() <= 3 {
                out.push(vec![x.clone(), y.clone()]);
            }
        }
    }
    out
}

fn kvps<K: Clone, V: Clone>(ks: &[K], vs: &[V]) -> Vec<KeyValuePairs<K, V>> {
    let pairs: Vec<(K, V)> = ks.iter().zip(vs.iter().cycle()).map(|(k, v)| (k.clone(), v.clone())).collect();
    let mut out = vec![];
    for l in lists(&pairs) {
        out.push(KeyValuePairs::Def(l.clone()));
        out.push(KeyValuePairs::Indef(l));
    }
    out
}

fn mias<A: Clone>(xs: &[A]) -> Vec<MaybeIndefArray<A>> {
    let mut out = vec![];
    for l in lists(xs) {
        out.push(MaybeIndefArray::Def(l.clone()));
        out.push(MaybeIndefArray::Indef(l));
    }
    out
}

fn nullables<T: Clone>(xs: &[T]) -> Vec<Nullable<T>> {
    let mut out = vec![Nullable::Null, Nullable::Undefined];
    out.extend(xs.iter().cloned().map(Nullable::Some));
    out
}

fn anyuints() -> Vec<AnyUInt> {
    vec![
        AnyUInt::MajorByte(0),
        AnyUInt::MajorByte(1),
        AnyUInt::MajorByte(23),
        AnyUInt::U8(0),
        AnyUInt::U8(5),
        AnyUInt::U8(23),
        AnyUInt::U8(24),
        AnyUInt::U8(255),
        AnyUInt::U16(0),
        AnyUInt::U16(255),
        AnyUInt::U16(256),
        AnyUInt::U16(65535),
        AnyUInt::U32(0),
        AnyUInt::U32(65535),
        AnyUInt::U32(65536),
        AnyUInt::U32(u32::MAX),
        AnyUInt::U64(0),
        AnyUInt::U64(u32::MAX as u64),
        AnyUInt::U64(1 << 32),
        AnyUInt::U64(u64::MAX),
    ]
}

fn ints() -> Vec<Int> {
    let vals: [i128; 12] = [
        0,
        1,
        -1,
        23,
        -24,
        -25,
        i64::MAX as i128,
        i64::MIN as i128,
        (i64::MAX as i128) + 1,
        (i64::MIN as i128) - 1,
        u64::MAX as i128,
        -(1i128 << 64),
    ];
    vals.iter().map(|v| Int::try_from(*v).expect("in CBOR int range")).collect()
}

fn part_a(st: &mut St) {
    let leaves = LEAVES.to_vec();
    for v in kvps(&leaves, &leaves) {
        rt!(st, KeyValuePairs<u64, u64>, "KeyValuePairs<u64,u64>", v);
    }
    for v in kvps(&leaves, &leaves) {
        let l: Vec<(u64, u64)> = v.clone().to_vec();
        if l.is_empty() {
            continue;
        }
        let ne = match v {
            KeyValuePairs::Def(x) => NonEmptyKeyValuePairs::Def(x),
            KeyValuePairs::Indef(x) => NonEmptyKeyValuePairs::Indef(x),
        };
        rt!(st, NonEmptyKeyValuePairs<u64, u64>, "NonEmptyKeyValuePairs<u64,u64>", ne);
    }
    for v in mias(&leaves) {
        rt!(st, MaybeIndefArray<u64>, "MaybeIndefArray<u64>", v);
    }
    for l in lists(&leaves) {
        rt!(st, Set<u64>, "Set<u64>", Set::from(l.clone()));
        if let Ok(ne) = NonEmptySet::try_from(l.clone()) {
            rt!(st, NonEmptySet<u64>, "NonEmptySet<u64>", ne);
        }
        rt!(st, OrderPreservingProperties<(u64, u64)>, "OrderPreservingProperties", OrderPreservingProperties::from(l.iter().map(|x| (*x, *x)).collect::<Vec<_>>()));
    }
    for v in nullables(&leaves) {
        rt!(st, Nullable<u64>, "Nullable<u64>", v);
    }
    for v in anyuints() {
        rt!(st, AnyUInt, "AnyUInt", v);
    }
    for len in [0usize, 1, 23, 24, 255, 256, 70000] {
        rt!(st, Bytes, "Bytes", Bytes::from((0..len).map(|i| i as u8).collect::<Vec<u8>>()));
    }
    for v in ints() {
        rt!(st, Int, "Int", v);
    }
    for x in leaves.iter() {
        rt!(st, CborWrap<u64>, "CborWrap<u64>", CborWrap(*x));
        rt!(st, TagWrap<u64, 30>, "TagWrap<u64,30>", TagWrap::<u64, 30>(*x));
        rt!(st, TagWrap<u64, 70000>, "TagWrap<u64,70000>", TagWrap::<u64, 70000>(*x));
        rt!(st, AnyCbor, "AnyCbor", AnyCbor::from_encode(*x));
        rt!(st, ByType, "codec_by_datatype", ByType::Triple(x % 2 == 0, *x, -((x % 1000) as i32)));
    }
    for x in [0u32, 23, 24, 255, 256, 65535, 65536, u32::MAX] {
        rt!(st, ByType, "codec_by_datatype", ByType::Small(x));
    }
    rt!(st, ByType, "codec_by_datatype", ByType::Flag(true));
    rt!(st, ByType, "codec_by_datatype", ByType::Flag(false));
    rt!(st, EmptyMap, "EmptyMap", EmptyMap);
    // ZeroOrOneArray has no PartialEq: compare through Deref
    for x in [None, Some(0u64), Some(24), Some(u64::MAX)] {
        st.tick("ZeroOrOneArray<u64>");
        let bytes: Vec<u8> = match x {
            None => vec![0x80],
            Some(v) => {
                let mut b = vec![0x81];
                b.extend(minicbor::to_vec(v).unwrap());
                b
            }
        };
        let r = catch(|| {
            let z: ZeroOrOneArray<u64> = minicbor::decode(&bytes).map_err(|e| e.to_string())?;
            if *z != x {
                return Err(format!("decoded {:?} expected {:?}", *z, x));
            }
            let again = minicbor::to_vec(&z).map_err(|e| format!("{e:?}"))?;
            let z2: ZeroOrOneArray<u64> = minicbor::decode(&again).map_err(|e| e.to_string())?;
            if *z2 != x {
                return Err(format!("round trip gives {:?} expected {:?}", *z2, x));
            }
            Ok(())
        });
        match r {
            Ok(Ok(())) => {
                st.nontrivial.insert(format!("A:ZeroOrOne:{x:?}"));
            }
            Ok(Err(e)) => st.ctx.violation("value-roundtrip:ZeroOrOneArray", e, json!({"part":"A","value":format!("{x:?}")})),
            Err(p) => st.ctx.violation(p.site(), p.message.clone(), json!({"part":"A","value":format!("{x:?}")})),
        }
    }
    // KeepRaw built in memory has no retained bytes; equality is taken between two decodes
    for l in lists(&leaves) {
        st.tick("KeepRaw<Vec<u64>>");
        let k = KeepRaw::from(l.clone());
        let bytes = minicbor::to_vec(&k).unwrap();
        let d1: KeepRaw<Vec<u64>> = minicbor::decode(&bytes).unwrap();
        let b2 = minicbor::to_vec(&d1).unwrap();
        let d2: KeepRaw<Vec<u64>> = minicbor::decode(&b2).unwrap();
        if *d1 != l || d1 != d2 || b2 != bytes {
            st.ctx.violation("value-roundtrip:KeepRaw", format!("KeepRaw<Vec<u64>> {l:?} does not round trip"), json!({"part":"A","value":format!("{l:?}")}));
        } else {
            st.nontrivial.insert(format!("A:KeepRaw:{}", hex::encode(&bytes)));
        }
    }
    // nesting to depth 3
    let l1 = nullables(&[0u64, 24, u64::MAX]);
    let l2 = mias(&l1);
    for v in kvps(&[0u64, 24, 1 << 32], &l2[..l2.len().min(40)]) {
        rt!(st, KeyValuePairs<u64, MaybeIndefArray<Nullable<u64>>>, "KeyValuePairs<u64,MaybeIndefArray<Nullable<u64>>>", v);
    }
    let sets: Vec<Set<u64>> = lists(&[0u64, 24]).into_iter().map(Set::from).collect();
    let au = [AnyUInt::MajorByte(3), AnyUInt::U8(200), AnyUInt::U16(256), AnyUInt::U64(u64::MAX)];
    let inner = kvps(&au, &sets);
    for v in mias(&inner[..inner.len().min(12)]) {
        rt!(st, MaybeIndefArray<KeyValuePairs<AnyUInt, Set<u64>>>, "MaybeIndefArray<KeyValuePairs<AnyUInt,Set<u64>>>", v);
    }
    let is = ints();
    let inner = mias(&is[..4]);
    let wrapped: Vec<CborWrap<MaybeIndefArray<Int>>> = inner.into_iter().map(CborWrap).collect();
    for v in nullables(&wrapped) {
        rt!(st, Nullable<CborWrap<MaybeIndefArray<Int>>>, "Nullable<CborWrap<MaybeIndefArray<Int>>>", v);
    }
    let nes: Vec<NonEmptySet<Bytes>> = vec![
        NonEmptySet::try_from(vec![Bytes::from(vec![])]).unwrap(),
        NonEmptySet::try_from(vec![Bytes::from(vec![1, 2]), Bytes::from(vec![0; 30])]).unwrap(),
    ];
    for v in kvps(&[TagWrap::<u64, 30>(1), TagWrap::<u64, 30>(500)], &nes) {
        rt!(st, KeyValuePairs<TagWrap<u64, 30>, NonEmptySet<Bytes>>, "KeyValuePairs<TagWrap,NonEmptySet<Bytes>>", v);
    }
}

/// Every spelling of the unsigned integers from the leaf set: all head widths
/// that fit, minimal and non-minimal.
fn uint_leaves(vals: &[u64]) -> Vec<Node> {
    let mut v = vec![];
    for &x in vals {
        for w in [0u8, 1, 2, 4, 8] {
            if refcbor::width_fits(x, w) {
                v.push(Node::uint_w(x, w));
            }
        }
    }
    v
}

fn leaf_items() -> Vec<Node> {
    let mut v = uint_leaves(&[0, 5, 23, 24, 255, 256, 65535, 65536, u32::MAX as u64, 1 << 32, u64::MAX]);
    for (n, w) in [(0u64, 0u8), (0, 1), (23, 0), (24, 1), (24, 8), (u64::MAX, 8)] {
        v.push(Node::new(Kind::NInt(n, w)));
    }
    v.push(Node::bytes(b""));
    v.push(Node::bytes(b"ab"));
    v.push(Node::new(Kind::Bytes(b"ab".to_vec(), 1)));
    v.push(Node::new(Kind::BytesIndef(vec![])));
    v.push(Node::new(Kind::BytesIndef(vec![(b"a".to_vec(), 0), (b"b".to_vec(), 1)])));
    v.push(Node::text("hi"));
    v.push(Node::new(Kind::TextIndef(vec![(b"h".to_vec(), 0), (b"i".to_vec(), 0)])));
    v.push(Node::null());
    v.push(Node::undefined());
    v.push(Node::bool(true));
    v.push(Node::bool(false));
    v
}

fn containers(children: &[Node], pairs: bool) -> Vec<Node> {
    let mut out = vec![];
    let mut lists: Vec<Vec<Node>> = vec![vec![]];
    for c in children {
        lists.push(vec![c.clone()]);
    }
    if pairs {
        for a in children {
            for b in children {
                lists.push(vec![a.clone(), b.clone()]);
            }
        }
    } else {
        for (i, a) in children.iter().enumerate() {
            let b = &children[(i * 7 + 3) % children.len()];
            lists.push(vec![a.clone(), b.clone()]);
        }
    }
    for l in lists {
        let n = l.len() as u64;
        out.push(Node::new(Kind::Array(l.clone(), Some(0))));
        out.push(Node::new(Kind::Array(l.clone(), Some(1)))); // non-minimal length head
        out.push(Node::new(Kind::Array(l.clone(), None)));
        out.push(Node::tag(258, Node::new(Kind::Array(l.clone(), Some(0)))));
        // maps: k -> v using list elements as keys, n as value
        let entries: Vec<(Node, Node)> = l.iter().map(|k| (k.clone(), Node::uint(n))).collect();
        out.push(Node::new(Kind::Map(entries.clone(), Some(0))));
        out.push(Node::new(Kind::Map(entries.clone(), Some(2)))); // non-minimal
        out.push(Node::new(Kind::Map(entries, None)));
        let entries2: Vec<(Node, Node)> = l.iter().map(|v| (Node::uint(n), v.clone())).collect();
        out.push(Node::new(Kind::Map(entries2.clone(), Some(0))));
        out.push(Node::new(Kind::Map(entries2, None)));
    }
    out
}

fn own_head_minimal(n: &Node) -> bool {
    match &n.kind {
        Kind::Array(v, Some(w)) => *w == refcbor::min_width(v.len() as u64),
        Kind::Map(v, Some(w)) => *w == refcbor::min_width(v.len() as u64),
        _ => true,
    }
}

fn part_b(st: &mut St, thorough: bool) -> (usize, u64) {
    let leaves = leaf_items();
    let d1 = containers(&leaves, true);
    // reduced representative children for deeper levels
    let pick = |v: &[Node], n: usize| -> Vec<Node> {
        let step = (v.len() / n).max(1);
        v.iter().step_by(step).take(n).cloned().collect()
    };
    let mut rep1 = pick(&leaves, 10);
    rep1.extend(pick(&d1, if thorough { 40 } else { 16 }));
    let d2 = containers(&rep1, thorough);
    let mut rep2 = pick(&leaves, 4);
    rep2.extend(pick(&d2, if thorough { 30 } else { 12 }));
    let d3 = containers(&rep2, false);
    let mut items: Vec<Node> = vec![];
    items.extend(leaves);
    items.extend(d1);
    items.extend(d2);
    items.extend(d3);
    let mut nonminimal_container_skips = 0u64;
    let mut distinct: BTreeSet<Vec<u8>> = BTreeSet::new();
    for it in &items {
        let b = it.to_vec();
        if !distinct.insert(b.clone()) {
            continue;
        }
        // the generator is itself checked: strict re-parse and ciborium must accept
        match refcbor::parse_one(&b) {
            Ok(p) if p.to_vec() == b => {}
            other => mc_core::report::machinery_failure(&format!("refcbor generator/parser disagree on {}: {other:?}", hex::encode(&b))),
        }
        let cib: Result<ciborium::Value, _> = ciborium::de::from_reader(&b[..]);
        if cib.is_err() {
            mc_core::report::machinery_failure(&format!("ciborium rejects generated item {}", hex::encode(&b)));
        }
        ident!(st, KeepRaw<u64>, "KeepRaw<u64>", &b);
        ident!(st, KeepRaw<Vec<u64>>, "KeepRaw<Vec<u64>>", &b);
        ident!(st, KeepRaw<(u16, (u16, u16))>, "KeepRaw<(u16,(u16,u16))>", &b);
        ident!(st, KeepRaw<AnyCbor>, "KeepRaw<AnyCbor>", &b);
        ident!(st, KeepRaw<KeyValuePairs<AnyCbor, AnyCbor>>, "KeepRaw<KeyValuePairs<AnyCbor,AnyCbor>>", &b);
        ident!(st, AnyCbor, "AnyCbor", &b);
        ident!(st, AnyUInt, "AnyUInt", &b);
        ident!(st, Nullable<AnyCbor>, "Nullable<AnyCbor>", &b);
        ident!(st, Nullable<AnyUInt>, "Nullable<AnyUInt>", &b);
        if own_head_minimal(it) {
            ident!(st, KeyValuePairs<AnyCbor, AnyCbor>, "KeyValuePairs<AnyCbor,AnyCbor>", &b);
            ident!(st, NonEmptyKeyValuePairs<AnyCbor, AnyCbor>, "NonEmptyKeyValuePairs<AnyCbor,AnyCbor>", &b);
            ident!(st, MaybeIndefArray<AnyCbor>, "MaybeIndefArray<AnyCbor>", &b);
            ident!(st, MaybeIndefArray<AnyUInt>, "MaybeIndefArray<AnyUInt>", &b);
            ident!(st, KeyValuePairs<AnyUInt, AnyCbor>, "KeyValuePairs<AnyUInt,AnyCbor>", &b);
        } else {
            nonminimal_container_skips += 1;
        }
        // (C) mutation semantics of the raw-keeping wrapper
        st.tick("KeepRaw-mutation");
        let r = catch(|| {
            let dec: Result<KeepRaw<Vec<u64>>, _> = minicbor::decode(&b);
            let Ok(k) = dec else { return Ok(false) };
            let mut k1 = k.clone();
            let _ = k1.deref_mut(); // touched, content unchanged
            let want1 = minicbor::to_vec(&*k1).unwrap();
            let got1 = minicbor::to_vec(&k1).unwrap();
            if got1 != want1 {
                return Err(format!("after deref_mut (no change) encodes {} expected {}", hex::encode(&got1), hex::encode(&want1)));
            }
            let mut k2 = k.clone();
            k2.deref_mut().push(77);
            let want2 = minicbor::to_vec(&*k2).unwrap();
            let got2 = minicbor::to_vec(&k2).unwrap();
            if got2 != want2 {
                return Err(format!("after push encodes {} expected {}", hex::encode(&got2), hex::encode(&want2)));
            }
            let mut k3 = k.clone();
            k3.deref_mut().clear();
            let got3 = minicbor::to_vec(&k3).unwrap();
            if got3 != [0x80] {
                return Err(format!("after clear encodes {}", hex::encode(&got3)));
            }
            // untouched clone still re-encodes to the original bytes
            let got0 = minicbor::to_vec(&k).unwrap();
            if got0 != b {
                return Err(format!("untouched wrapper encodes {} expected {}", hex::encode(&got0), hex::encode(&b)));
            }
            Ok(true)
        });
        match r {
            Ok(Ok(true)) => {
                st.nontrivial.insert(format!("C:{}", hex::encode(&b)));
            }
            Ok(Ok(false)) => {}
            Ok(Err(e)) => st.ctx.violation("keepraw-mutation", e, json!({"part":"C","bytes":hex::encode(&b)})),
            Err(p) => st.ctx.violation(p.site(), p.message.clone(), json!({"part":"C","bytes":hex::encode(&b)})),
        }
        if st.samples.len() < 8 && distinct.len() % 1500 == 7 {
            st.samples.push(json!({"part":"B","bytes":hex::encode(&b)}));
        }
    }
    (distinct.len(), nonminimal_container_skips)
}

pub fn run(ctx: Ctx) -> ! {
    let mut st = St { ctx: &ctx, evals: 0, nontrivial: BTreeSet::new(), samples: vec![], per_type: Default::default() };
    part_a(&mut st);
    let a_evals = st.evals;
    let (items, skips) = part_b(&mut st, ctx.thorough);
    let cov = cov! {
        "evaluations" => st.evals,
        "distinct_nontrivial" => st.nontrivial.len(),
        "rule" => "evaluation = one (wrapper type, value) value-round-trip, or one (wrapper type, byte string) accept => re-encode-identical test, or one KeepRaw mutation scenario; non-trivial = the wrapper accepted the item and the oracle was evaluated on it, counted as distinct (part, type, bytes)",
        "samples" => st.samples,
        "part_A_value_roundtrips" => a_evals,
        "part_B_distinct_wellformed_items" => items,
        "part_B_items_with_nonminimal_container_head_not_demanded_of_def_indef_wrappers" => skips,
        "per_type_evaluations" => st.per_type,
    };
    ctx.finish(
        Level::Exploration,
        cov,
        &[
            "KeyValuePairs / MaybeIndefArray are required to reproduce def/indef form, not a non-minimal *length* head of the container itself (their children are verbatim AnyCbor, so non-minimal integer heads inside are covered)",
            "SkipCbor is a debugging aid whose encode is todo!(); not a round-trip type",
            "refcbor generator cross-checked against its own strict parser and ciborium on every item",
        ],
    )
}
