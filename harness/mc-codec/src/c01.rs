//! C01 — flat codec round-trips any sequence of values at any bit alignment.
//! SEQ: every sequence over the op alphabet up to depth d, every op behind
//! k = 0..7 bools, length-64 runs of period 1/2/3; real Encoder -> real
//! Decoder with the same call sequence.

use mc_core::{catch, cov, json, Ctx, Level, Value};
use pallas_codec::flat::{de::Decoder, en::Encoder, filler::Filler};
use rayon::prelude::*;
use std::collections::BTreeSet;
use std::sync::atomic::{AtomicU64, Ordering};
use std::sync::Mutex;

#[derive(Clone, Debug, PartialEq)]
pub enum Val {
    Bool(bool),
    U8(u8),
    Word(usize),
    Int(isize),
    Char(char),
    Bytes(Vec<u8>),
    Utf8(String),
    Bits(Vec<bool>),
}

impl Val {
    pub fn kind(&self) -> &'static str {
        match self {
            Val::Bool(_) => "bool",
            Val::U8(_) => "u8",
            Val::Word(_) => "word",
            Val::Int(_) => "integer",
            Val::Char(_) => "char",
            Val::Bytes(_) => "bytes",
            Val::Utf8(_) => "utf8",
            Val::Bits(_) => "bitlist",
        }
    }
    pub fn to_json(&self) -> Value {
        match self {
            Val::Bool(b) => json!({"bool": b}),
            Val::U8(b) => json!({"u8": b}),
            Val::Word(w) => json!({"word": w.to_string()}),
            Val::Int(i) => json!({"integer": i.to_string()}),
            Val::Char(c) => json!({"char": *c as u32}),
            Val::Bytes(b) => json!({"bytes_hex": hex::encode(b)}),
            Val::Utf8(s) => json!({"utf8": s}),
            Val::Bits(b) => json!({"bitlist": b}),
        }
    }
    pub fn from_json(v: &Value) -> Option<Val> {
        let o = v.as_object()?;
        let (k, x) = o.iter().next()?;
        Some(match k.as_str() {
            "bool" => Val::Bool(x.as_bool()?),
            "u8" => Val::U8(x.as_u64()? as u8),
            "word" => Val::Word(x.as_str()?.parse().ok()?),
            "integer" => Val::Int(x.as_str()?.parse().ok()?),
            "char" => Val::Char(char::from_u32(x.as_u64()? as u32)?),
            "bytes_hex" => Val::Bytes(hex::decode(x.as_str()?).ok()?),
            "utf8" => Val::Utf8(x.as_str()?.to_string()),
            "bitlist" => Val::Bits(x.as_array()?.iter().map(|b| b.as_bool().unwrap_or(false)).collect()),
            _ => return None,
        })
    }
    fn short(&self) -> String {
        match self {
            Val::Bytes(b) if b.len() > 8 => format!("Bytes(len {})", b.len()),
            Val::Utf8(s) if s.len() > 8 => format!("Utf8(len {})", s.len()),
            v => format!("{v:?}"),
        }
    }
    /// Bit length according to the flat specification (own model), given the
    /// bit offset (0..7) the value starts at.
    fn model_bits(&self, off: u64) -> u64 {
        fn word_bits(w: u128) -> u64 {
            let bl = (128 - w.leading_zeros()) as u64;
            8 * std::cmp::max(1, bl.div_ceil(7))
        }
        fn blocks(len: u64, off: u64) -> u64 {
            let pad = 8 - off; // filler: 1..8 bits ending in a 1 at a byte boundary
            pad + 8 * (len + len.div_ceil(255) + 1)
        }
        match self {
            Val::Bool(_) => 1,
            Val::U8(_) => 8,
            Val::Word(w) => word_bits(*w as u128),
            Val::Int(i) => {
                let i = *i as i128;
                let z = if i >= 0 { (i as u128) << 1 } else { (((-1 - i) as u128) << 1) | 1 };
                word_bits(z)
            }
            Val::Char(c) => word_bits(*c as u128),
            Val::Bytes(b) => blocks(b.len() as u64, off),
            Val::Utf8(s) => blocks(s.len() as u64, off),
            Val::Bits(b) => 2 * b.len() as u64 + 1,
        }
    }
}

fn pattern(len: usize, seed: u8) -> Vec<u8> {
    (0..len).map(|i| (i as u8).wrapping_mul(37).wrapping_add(seed) | if i % 5 == 0 { 0x80 } else { 0 }).collect()
}

pub fn alphabet(thorough: bool) -> Vec<Val> {
    let mut a = vec![
        Val::Bool(false),
        Val::Bool(true),
        Val::U8(0x00),
        Val::U8(0xa5),
        Val::U8(0xff),
        Val::Word(0),
        Val::Word(1),
        Val::Word(127),
        Val::Word(128),
        Val::Word(16383),
        Val::Word(16384),
        Val::Word(1 << 32),
        Val::Word(usize::MAX),
        Val::Int(0),
        Val::Int(1),
        Val::Int(-1),
        Val::Int(64),
        Val::Int(-64),
        Val::Int(-65),
        Val::Int(isize::MIN),
        Val::Int(isize::MAX),
        Val::Char('a'),
        Val::Char('\u{e9}'),
        Val::Char('\u{20ac}'),
        Val::Char('\u{10ffff}'),
        Val::Bytes(vec![]),
        Val::Bytes(vec![0x81]),
        Val::Bytes(pattern(255, 1)),
        Val::Bytes(pattern(256, 2)),
        Val::Utf8(String::new()),
        Val::Utf8("a".into()),
        Val::Utf8("\u{20ac}x".repeat(75)), // 300 bytes
        // multi-byte characters straddling the 255-byte block boundary at both
        // possible alignments (blocks are cut at byte, not character, boundaries)
        Val::Utf8(format!("a{}", "\u{20ac}".repeat(100))), // 301 bytes, char spans 253..256
        Val::Utf8(format!("aa{}", "\u{20ac}".repeat(100))), // 302 bytes, char spans 254..257
        Val::Bits(vec![]),
        Val::Bits(vec![true]),
        Val::Bits(vec![true, false, true]),
    ];
    if thorough {
        a.push(Val::Bytes(pattern(254, 3)));
        a.push(Val::Bytes(pattern(510, 4)));
        a.push(Val::Bytes(pattern(1000, 5)));
        a.push(Val::Word(1 << 63));
        a.push(Val::Char('\0'));
    }
    a
}

fn enc_bool(b: &bool, e: &mut Encoder) -> Result<(), pallas_codec::flat::en::Error> {
    e.bool(*b);
    Ok(())
}

pub fn encode_seq(seq: &[Val]) -> Result<Vec<u8>, String> {
    let mut e = Encoder::new();
    for v in seq {
        let r = match v {
            Val::Bool(b) => {
                e.bool(*b);
                Ok(())
            }
            Val::U8(b) => e.u8(*b).map(|_| ()),
            Val::Word(w) => {
                e.word(*w);
                Ok(())
            }
            Val::Int(i) => {
                e.integer(*i);
                Ok(())
            }
            Val::Char(c) => {
                e.char(*c);
                Ok(())
            }
            Val::Bytes(b) => e.bytes(b).map(|_| ()),
            Val::Utf8(s) => e.utf8(s).map(|_| ()),
            Val::Bits(l) => e.encode_list_with(l, enc_bool).map(|_| ()),
        };
        r.map_err(|er| format!("encoder error on {}: {er:?}", v.short()))?;
    }
    e.encode(Filler::FillerEnd).map_err(|er| format!("filler encode error: {er:?}"))?;
    Ok(e.buffer)
}

/// Decode with the same call sequence. Err(description) on any disagreement.
pub fn decode_check(seq: &[Val], buf: &[u8]) -> Result<(), (usize, String)> {
    let mut d = Decoder::new(buf);
    for (i, v) in seq.iter().enumerate() {
        let got: Result<Val, _> = match v {
            Val::Bool(_) => d.bool().map(Val::Bool),
            Val::U8(_) => d.u8().map(Val::U8),
            Val::Word(_) => d.word().map(Val::Word),
            Val::Int(_) => d.integer().map(Val::Int),
            Val::Char(_) => d.char().map(Val::Char),
            Val::Bytes(_) => d.bytes().map(Val::Bytes),
            Val::Utf8(_) => d.utf8().map(Val::Utf8),
            Val::Bits(_) => d.decode_list_with(|d| d.bool()).map(Val::Bits),
        };
        match got {
            Err(e) => return Err((i, format!("decoder error {e:?} on {}", v.short()))),
            Ok(g) if g != *v => return Err((i, format!("decoded {} but encoded {}", g.short(), v.short()))),
            Ok(_) => {}
        }
    }
    if let Err(e) = d.decode::<Filler>() {
        return Err((seq.len(), format!("final filler: {e:?}")));
    }
    if d.pos != buf.len() || d.used_bits != 0 {
        return Err((seq.len(), format!("buffer not consumed: pos {} of {} used_bits {}", d.pos, buf.len(), d.used_bits)));
    }
    Ok(())
}

struct Acc<'a> {
    ctx: &'a Ctx,
    seqs: AtomicU64,
    ops: AtomicU64,
    model_len_mismatch: AtomicU64,
    triples: Mutex<BTreeSet<(u8, usize, u8)>>,
    lens: Mutex<BTreeSet<usize>>,
}

fn check_seq(acc: &Acc, alpha_idx: Option<&[usize]>, seq: &[Val]) {
    acc.seqs.fetch_add(1, Ordering::Relaxed);
    acc.ops.fetch_add(seq.len() as u64 + 1, Ordering::Relaxed);
    // alignment bookkeeping from the independent bit model
    let mut off: u64 = 0;
    let mut total: u64 = 0;
    let mut local = vec![];
    for (i, v) in seq.iter().enumerate() {
        let bits = v.model_bits(off);
        let after = (off + bits) % 8;
        if let Some(idx) = alpha_idx {
            local.push((off as u8, idx[i], after as u8));
        }
        off = after;
        total += bits;
    }
    if !local.is_empty() {
        let mut t = acc.triples.lock().unwrap();
        for x in local {
            t.insert(x);
        }
    }
    let case = || json!(seq.iter().map(|v| v.to_json()).collect::<Vec<_>>());
    let r = catch(|| {
        let buf = encode_seq(seq)?;
        Ok::<_, String>(buf)
    });
    let buf = match r {
        Err(p) => {
            acc.ctx.violation(p.site(), format!("encoder panicked: {} at {}", p.message, p.location), case());
            return;
        }
        Ok(Err(e)) => {
            acc.ctx.violation(format!("encode-error:{}", e.split(':').next().unwrap_or("")), e, case());
            return;
        }
        Ok(Ok(b)) => b,
    };
    if buf.len() as u64 != total / 8 + 1 {
        // diagnostic only: the property speaks about round trips, not bytes
        acc.model_len_mismatch.fetch_add(1, Ordering::Relaxed);
    }
    match catch(|| decode_check(seq, &buf)) {
        Err(p) => acc.ctx.violation(p.site(), format!("decoder panicked: {} at {}", p.message, p.location), case()),
        Ok(Err((i, e))) => {
            let kind = seq.get(i).map(|v| v.kind()).unwrap_or("filler");
            acc.ctx.violation(format!("roundtrip:{kind}"), format!("op #{i}: {e}"), case());
        }
        Ok(Ok(())) => {
            let mut l = acc.lens.lock().unwrap();
            if l.len() < 4096 {
                l.insert(buf.len());
            }
        }
    }
}

fn dfs(acc: &Acc, alpha: &[Val], heavy: &[bool], max_heavy: usize, depth: usize, idx: &mut Vec<usize>, seq: &mut Vec<Val>) {
    check_seq(acc, Some(idx), seq);
    if seq.len() == depth {
        return;
    }
    let nheavy = idx.iter().filter(|&&i| heavy[i]).count();
    for (i, v) in alpha.iter().enumerate() {
        if heavy[i] && nheavy >= max_heavy {
            continue;
        }
        idx.push(i);
        seq.push(v.clone());
        dfs(acc, alpha, heavy, max_heavy, depth, idx, seq);
        seq.pop();
        idx.pop();
    }
}

pub fn run(ctx: Ctx) -> ! {
    if let Some(p) = &ctx.replay {
        let v: Value = serde_json_from(p);
        let seq: Vec<Val> = v["case"].as_array().map(|a| a.iter().filter_map(Val::from_json).collect()).unwrap_or_default();
        let buf = encode_seq(&seq);
        println!("replay C01: {} ops; encode -> {:?}", seq.len(), buf.as_ref().map(hex::encode));
        if let Ok(b) = buf {
            println!("decode_check -> {:?}", catch(|| decode_check(&seq, &b)).map_err(|p| p.message));
        }
        std::process::exit(0);
    }
    let alpha = alphabet(ctx.thorough);
    let heavy: Vec<bool> = alpha
        .iter()
        .map(|v| matches!(v, Val::Bytes(b) if b.len() > 2) || matches!(v, Val::Utf8(s) if s.len() > 2))
        .collect();
    let depth = if ctx.thorough { 4 } else { 3 };
    let acc = Acc {
        ctx: &ctx,
        seqs: AtomicU64::new(0),
        ops: AtomicU64::new(0),
        model_len_mismatch: AtomicU64::new(0),
        triples: Mutex::new(BTreeSet::new()),
        lens: Mutex::new(BTreeSet::new()),
    };
    // (a) every sequence up to `depth` (long strings at most twice per sequence)
    check_seq(&acc, Some(&[]), &[]);
    (0..alpha.len()).into_par_iter().for_each(|i| {
        let mut idx = vec![i];
        let mut seq = vec![alpha[i].clone()];
        dfs(&acc, &alpha, &heavy, 2, depth, &mut idx, &mut seq);
    });
    let depth_seqs = acc.seqs.load(Ordering::Relaxed);
    // (b) every op (and every pair of ops) behind k = 0..7 bools: forces each
    // starting bit offset for each primitive independently of (a)'s depth
    (0..alpha.len()).into_par_iter().for_each(|i| {
        for k in 0..8usize {
            for pat in 0..3u8 {
                let mut idx = vec![];
                let mut seq = vec![];
                for j in 0..k {
                    let b = match pat {
                        0 => false,
                        1 => true,
                        _ => j % 2 == 0,
                    };
                    idx.push(if b { 1 } else { 0 });
                    seq.push(Val::Bool(b));
                }
                idx.push(i);
                seq.push(alpha[i].clone());
                check_seq(&acc, Some(&idx), &seq);
                for (j, w) in alpha.iter().enumerate() {
                    idx.push(j);
                    seq.push(w.clone());
                    check_seq(&acc, Some(&idx), &seq);
                    seq.pop();
                    idx.pop();
                }
            }
        }
    });
    // (c) length-64 runs with period 1, 2 and 3 (period 3 over the light ops)
    let light: Vec<usize> = (0..alpha.len()).filter(|&i| !heavy[i]).collect();
    (0..alpha.len()).into_par_iter().for_each(|i| {
        let run1: Vec<Val> = std::iter::repeat(alpha[i].clone()).take(64).collect();
        let idx1 = vec![i; 64];
        check_seq(&acc, Some(&idx1), &run1);
        for j in 0..alpha.len() {
            let idx: Vec<usize> = (0..64).map(|n| if n % 2 == 0 { i } else { j }).collect();
            let seq: Vec<Val> = idx.iter().map(|&x| alpha[x].clone()).collect();
            check_seq(&acc, Some(&idx), &seq);
            if !heavy[i] && !heavy[j] {
                for &k in &light {
                    let idx: Vec<usize> = (0..64).map(|n| [i, j, k][n % 3]).collect();
                    let seq: Vec<Val> = idx.iter().map(|&x| alpha[x].clone()).collect();
                    check_seq(&acc, Some(&idx), &seq);
                }
            }
        }
    });
    let triples = acc.triples.lock().unwrap();
    let offsets_per_op: Vec<usize> = (0..alpha.len()).map(|i| triples.iter().filter(|t| t.1 == i).map(|t| t.0).collect::<BTreeSet<_>>().len()).collect();
    let all_offsets = offsets_per_op.iter().all(|&n| n == 8);
    if !all_offsets {
        mc_core::report::machinery_failure("C01: not every op was started at every bit offset (vacuous exploration)");
    }
    let seqs = acc.seqs.load(Ordering::Relaxed);
    let samples: Vec<Value> = vec![
        json!([alpha[1].to_json(), alpha[4].to_json(), alpha[26].to_json()]),
        json!({"k_bools": 3, "then": alpha[12].to_json()}),
        json!({"run64_period2": [alpha[0].to_json(), alpha[20].to_json()]}),
    ];
    let cov = cov! {
        "states" => seqs,
        "transitions" => acc.ops.load(Ordering::Relaxed),
        "traces_validated_against_impl" => seqs,
        "samples" => samples,
        "alphabet_size" => alpha.len(),
        "max_depth_full_enumeration" => depth,
        "sequences_full_depth_enumeration" => depth_seqs,
        "alignment_triples_seen(off_before,op,off_after)" => triples.len(),
        "every_op_started_at_every_bit_offset_0_7" => all_offsets,
        "distinct_outcomes(distinct encoded buffer lengths)" => acc.lens.lock().unwrap().len(),
        "diagnostic_buffer_length_differs_from_bit_model" => acc.model_len_mismatch.load(Ordering::Relaxed),
        "fixpoint" => false,
        "exhaustive" => true,
        "rule" => "states = histories (op sequences) executed on a fresh real Encoder+Decoder; transitions = encoder/decoder op pairs incl. final filler; all sequences over the alphabet up to the stated depth (strings >2 bytes at most twice), every op and op pair behind 0..7 bools x 3 bool patterns, all period-1/2 (all ops) and period-3 (light ops) runs of length 64",
    };
    ctx.finish(
        Level::ModelChecking,
        cov,
        &["values outside the alphabet are not covered (boundary magnitudes per head width / block size were chosen from the code)", "Encoder::string / Decoder::string (char-list form) is not one of the listed value kinds"],
    )
}

pub fn serde_json_from(p: &std::path::Path) -> Value {
    match std::fs::read_to_string(p).ok().and_then(|s| mc_core::serde_json::from_str(&s).ok()) {
        Some(v) => v,
        None => mc_core::report::machinery_failure(&format!("cannot read replay file {p:?}")),
    }
}
