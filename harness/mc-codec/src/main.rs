mod c01;
mod c02;
mod c03;
mod c04;

fn main() {
    let ctx = mc_core::Ctx::from_args();
    match ctx.prop.as_str() {
        "C01" => c01::run(ctx),
        "C02" => c02::run(ctx),
        "C03" => c03::run(ctx),
        "C04" => c04::run(ctx),
        p => mc_core::report::machinery_failure(&format!("mc-codec does not serve {p}")),
    }
}
