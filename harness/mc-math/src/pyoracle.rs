//! Spawns `python3-vt /verif/oracles/math_oracle.py`, streams the queries and
//! collects one answer per query (matched by id). Any irregularity is a
//! machinery failure, never a verdict.

use mc_core::report::machinery_failure;
use mc_core::Value;
use std::io::{BufRead, BufReader, Write};
use std::process::{Command, Stdio};

pub fn ask(root: &std::path::Path, queries: Vec<Value>) -> Vec<Value> {
    if queries.is_empty() {
        return vec![];
    }
    let script = root.join("oracles/math_oracle.py");
    if !script.exists() {
        machinery_failure(&format!("{} missing", script.display()));
    }
    let mut child = match Command::new("python3-vt")
        .arg(&script)
        .stdin(Stdio::piped())
        .stdout(Stdio::piped())
        .stderr(Stdio::inherit())
        .spawn()
    {
        Ok(c) => c,
        Err(e) => machinery_failure(&format!("cannot spawn python3-vt: {e}")),
    };
    let mut stdin = child.stdin.take().unwrap();
    let n = queries.len();
    let writer = std::thread::spawn(move || {
        for q in &queries {
            if writeln!(stdin, "{q}").is_err() {
                break;
            }
        }
    });
    let mut out = Vec::with_capacity(n);
    for line in BufReader::new(child.stdout.take().unwrap()).lines() {
        let line = match line {
            Ok(l) => l,
            Err(e) => machinery_failure(&format!("oracle output unreadable: {e}")),
        };
        match serde_json::from_str::<Value>(&line) {
            Ok(v) => out.push(v),
            Err(e) => machinery_failure(&format!("oracle wrote non-JSON {line:?}: {e}")),
        }
    }
    let _ = writer.join();
    let st = child.wait();
    if !matches!(&st, Ok(s) if s.success()) {
        machinery_failure(&format!("math_oracle.py failed: {st:?}"));
    }
    if out.len() != n {
        machinery_failure(&format!("math_oracle.py answered {} of {} queries", out.len(), n));
    }
    for (i, v) in out.iter().enumerate() {
        if v.get("id").and_then(|x| x.as_u64()) != Some(i as u64) {
            machinery_failure(&format!("math_oracle.py answer {i} has id {:?}", v.get("id")));
        }
    }
    out
}
