//! Thin access layer to the real pallas-math type. Values go in through
//! `FixedPrecision::from_str` (raw integer text) and come out through
//! `Display`, re-validated with `from_str` + `PartialEq` so that a wrong
//! printout cannot silently falsify a C15/C16 verdict.

use num_bigint::BigInt;
use num_traits::Signed;
use pallas_math::math::{FixedDecimal, FixedPrecision};

pub fn dec(raw: &BigInt, precision: u64) -> FixedDecimal {
    FixedDecimal::from_str(&raw.to_string(), precision).expect("from_str on an integer literal")
}

/// Parse "[-]digits[.digits]" into (numerator, fraction digit count).
pub fn parse_plain_decimal(s: &str) -> Option<(BigInt, usize)> {
    let (neg, body) = match s.strip_prefix('-') {
        Some(r) => (true, r),
        None => (false, s),
    };
    let (ip, fp) = match body.split_once('.') {
        Some((a, b)) => (a, b),
        None => (body, ""),
    };
    if ip.is_empty() || !ip.bytes().all(|b| b.is_ascii_digit()) || !fp.bytes().all(|b| b.is_ascii_digit()) {
        return None;
    }
    if body.contains('.') && fp.is_empty() {
        return None;
    }
    let num: BigInt = format!("{ip}{fp}").parse().ok()?;
    Some((if neg { -num } else { num }, fp.len()))
}

/// The stored raw integer of `d`, read from its printed form and confirmed by
/// `from_str(raw, precision) == d`.
pub fn raw_of(d: &FixedDecimal) -> Result<BigInt, String> {
    let p = d.precision();
    let s = d.to_string();
    let (num, fd) = parse_plain_decimal(&s).ok_or_else(|| format!("unparsable printout {s:?}"))?;
    // raw = num * 10^(p - fd); must be integral
    let raw = if (fd as u64) <= p {
        num * BigInt::from(10u8).pow((p - fd as u64) as u32)
    } else {
        let k = BigInt::from(10u8).pow((fd as u64 - p) as u32);
        if !(&num % &k == BigInt::from(0)) {
            return Err(format!("printout {s:?} has more significant digits than precision {p}"));
        }
        num / k
    };
    if dec(&raw, p) == *d {
        Ok(raw)
    } else {
        Err(format!("printout {} does not denote the stored value", if s.len() > 80 { &s[..80] } else { &s }))
    }
}

/// (sign, leading <= 80 digits, number of dropped trailing digits)
pub fn lead(raw: &BigInt) -> (i32, String, usize) {
    let s = raw.abs().to_string();
    let sign = if raw.is_negative() { -1 } else { 1 };
    if s.len() > 80 {
        (sign, s[..80].to_string(), s.len() - 80)
    } else {
        (sign, s, 0)
    }
}
