mod c15;
mod c16;
mod c17;
mod fx;
mod pal;
mod pyoracle;

fn main() {
    let ctx = mc_core::Ctx::from_args();
    match ctx.prop.as_str() {
        "C15" => c15::run(ctx),
        "C16" => c16::run(ctx),
        "C17" => c17::run(ctx),
        p => mc_core::report::machinery_failure(&format!("mc-math does not serve {p}")),
    }
}
