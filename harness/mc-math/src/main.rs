mod c15;
mod c16;
mod c17;
mod fx;
mod pal;
mod pyoracle;
mod replay;

fn main() {
    let ctx = mc_core::Ctx::from_args();
    if !matches!(ctx.prop.as_str(), "C15" | "C16" | "C17") {
        mc_core::report::machinery_failure(&format!("mc-math does not serve {}", ctx.prop));
    }
    if let Some(p) = ctx.replay.clone() {
        replay::run(&ctx, &p);
    }
    match ctx.prop.as_str() {
        "C15" => c15::run(ctx),
        "C16" => c16::run(ctx),
        _ => c17::run(ctx),
    }
}
