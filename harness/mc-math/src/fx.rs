//! Independent re-implementation (num-bigint, no dashu, no pallas code) of the
//! Cardano non-integral reference algorithm on a 34-digit decimal fixed point.
//!
//! A value v is stored as the integer `raw = v * 10^34`.
//!   * product   : floor(a*b / 10^34)            (round toward -inf)
//!   * quotient  : trunc(a * 10^34 / b)          (round toward zero)
//!   * exp x     : x = 0 -> 1;  x < 0 -> 1 / exp(-x);
//!                 x > 0 -> n = ceil x, taylor(x / n) ^ n   (integer power by
//!                 squaring, every product a fixed-point product)
//!   * taylor x  : sum_{k>=0} x^k/k!, term_{k+1} = (term_k * x) / (k+1), stop
//!                 before adding the first term with |term| < 10^-24 or after
//!                 1000 terms
//!   * ln x      : n = findE x  (largest integer with e^n <= x found by doubling
//!                 the bracket [e^-1, e] by squaring and then bisecting with
//!                 integer powers of e = exp 1),  ln x = n + lncf(x / exp(n) - 1)
//!   * lncf z    : continued fraction  ln(1+z) = z/(1+ 1^2 z/(2+ 1^2 z/(3+ 2^2 z/(4+ 2^2 z/(5+ ...
//!                 evaluated by the forward recurrence A_k = b_k A_{k-1} + a_k A_{k-2}
//!                 (same for B), convergent = A_k / B_k, stop when two
//!                 succeeding convergents differ by less than 10^-24 or after
//!                 maxN + 2 = 1002 convergents
//!   * pow x y   : x = 0 -> (y = 0 ? 1 : 0);  x = 1 -> 1;  else exp(y * ln x)
//!   * expCmp    : Taylor partial sums of e^x with the Lagrange remainder bound
//!                 err = bound * |x^(k+1)/(k+1)!| (a magnitude; identical to the
//!                 signed product for x >= 0); stop without a conclusion before
//!                 adding a term with |term| < 10^-24 or after max_n terms; decide
//!                 as soon as `compare` is strictly above sum+err (GT) or
//!                 strictly below sum-err (LT)

use num_bigint::BigInt;
use num_integer::Integer;
use num_traits::{One, Signed, Zero};

pub const DIGITS: u32 = 34;

pub fn ten_pow(k: u32) -> BigInt {
    BigInt::from(10u8).pow(k)
}

#[derive(Clone)]
pub struct Fx {
    pub unit: BigInt,
    pub eps: BigInt,
    pub e: BigInt,
}

#[derive(Clone, Copy, Debug, PartialEq, Eq, PartialOrd, Ord)]
pub enum Est {
    Gt,
    Lt,
    Unknown,
}

pub struct CmpOut {
    pub est: Est,
    pub iterations: u64,
    pub approx: BigInt,
    /// (sum + err, sum - err) after each completed iteration — used to place
    /// `compare` values exactly on the decision thresholds.
    pub thresholds: Vec<(BigInt, BigInt)>,
}

impl Fx {
    pub fn new() -> Fx {
        let unit = ten_pow(DIGITS);
        let eps = ten_pow(DIGITS - 24);
        let mut f = Fx { unit, eps, e: BigInt::zero() };
        f.e = f.exp(&f.unit.clone()).0;
        f
    }

    pub fn int(&self, n: i64) -> BigInt {
        BigInt::from(n) * &self.unit
    }

    pub fn mul(&self, a: &BigInt, b: &BigInt) -> BigInt {
        (a * b).div_floor(&self.unit)
    }

    /// truncating quotient (BigInt `/` rounds toward zero)
    pub fn div(&self, a: &BigInt, b: &BigInt) -> BigInt {
        (a * &self.unit) / b
    }

    fn taylor(&self, x: &BigInt, max_terms: u32) -> (BigInt, u32) {
        let mut sum = self.unit.clone();
        let mut term = self.unit.clone();
        let mut k = BigInt::one();
        let mut used = 0;
        while used < max_terms {
            let next = self.div(&self.mul(&term, x), &(&k * &self.unit));
            if next.abs() < self.eps {
                break;
            }
            sum += &next;
            term = next;
            k += 1;
            used += 1;
        }
        (sum, used)
    }

    fn ipow_nonneg(&self, x: &BigInt, n: u64) -> BigInt {
        if n == 0 {
            self.unit.clone()
        } else if n % 2 == 0 {
            let h = self.ipow_nonneg(x, n / 2);
            self.mul(&h, &h)
        } else {
            let r = self.ipow_nonneg(x, n - 1);
            self.mul(&r, x)
        }
    }

    pub fn ipow(&self, x: &BigInt, n: i64) -> BigInt {
        if n < 0 {
            self.div(&self.unit, &self.ipow_nonneg(x, n.unsigned_abs()))
        } else {
            self.ipow_nonneg(x, n as u64)
        }
    }

    /// returns (value, taylor terms used)
    pub fn exp(&self, x: &BigInt) -> (BigInt, u32) {
        if x.is_zero() {
            return (self.unit.clone(), 0);
        }
        if x.is_negative() {
            let (v, it) = self.exp(&-x);
            return (self.div(&self.unit, &v), it);
        }
        let n = x.div_ceil(&self.unit);
        let reduced = x / &n;
        let (t, it) = self.taylor(&reduced, 1000);
        let n64 = u64::try_from(&n).expect("exp argument too large for the grid");
        (self.ipow_nonneg(&t, n64), it)
    }

    pub fn find_e(&self, x: &BigInt) -> i64 {
        let mut lo = self.div(&self.unit, &self.e);
        let mut hi = self.e.clone();
        let (mut l, mut u) = (-1i64, 1i64);
        while !(&lo <= x && x <= &hi) {
            lo = self.mul(&lo, &lo);
            hi = self.mul(&hi, &hi);
            l *= 2;
            u *= 2;
        }
        while l + 1 != u {
            let mid = l + (u - l) / 2;
            if x < &self.ipow(&self.e, mid) {
                u = mid;
            } else {
                l = mid;
            }
        }
        l
    }

    /// ln(1+z) by the continued fraction; returns (value, convergents computed)
    pub fn lncf(&self, z: &BigInt, max_n: u32) -> (BigInt, u32) {
        // A_{-1}=1, A_0=0, B_{-1}=0, B_0=1
        let (mut a_pp, mut a_p) = (self.unit.clone(), BigInt::zero());
        let (mut b_pp, mut b_p) = (BigInt::zero(), self.unit.clone());
        let mut prev: Option<BigInt> = None;
        let mut conv = BigInt::zero();
        let mut k: u32 = 1;
        while k <= max_n + 2 {
            // partial numerator a_k: z for k = 1, (k/2)^2 * z afterwards
            let j = if k == 1 { 1u64 } else { (k / 2) as u64 };
            let ak = z * BigInt::from(j * j);
            let bk = BigInt::from(k) * &self.unit;
            let a_k = self.mul(&bk, &a_p) + self.mul(&ak, &a_pp);
            let b_k = self.mul(&bk, &b_p) + self.mul(&ak, &b_pp);
            conv = self.div(&a_k, &b_k);
            if let Some(p) = &prev {
                if (&conv - p).abs() < self.eps {
                    return (conv, k);
                }
            }
            prev = Some(conv.clone());
            a_pp = a_p;
            a_p = a_k;
            b_pp = b_p;
            b_p = b_k;
            k += 1;
        }
        (conv, k - 1)
    }

    /// x > 0. returns (value, n = findE, convergents)
    pub fn ln(&self, x: &BigInt) -> (BigInt, i64, u32) {
        assert!(x.is_positive());
        let n = self.find_e(x);
        let n_fx = self.int(n);
        let factor = self.exp(&n_fx).0;
        let z = self.div(x, &factor) - &self.unit;
        let (c, it) = self.lncf(&z, 1000);
        (n_fx + c, n, it)
    }

    /// positive base (or 0). Negative bases are not part of the reference.
    pub fn pow(&self, base: &BigInt, y: &BigInt) -> BigInt {
        assert!(!base.is_negative());
        if base.is_zero() {
            return if y.is_zero() { self.unit.clone() } else { BigInt::zero() };
        }
        if base == &self.unit {
            return self.unit.clone();
        }
        let l = self.ln(base).0;
        self.exp(&self.mul(y, &l)).0
    }

    pub fn exp_cmp(&self, max_n: u64, x: &BigInt, bound: i64, compare: &BigInt) -> CmpOut {
        let mut sum = self.unit.clone();
        let mut term = x.clone(); // x^(k+1)/(k+1)!
        let mut k_fx = self.unit.clone();
        let mut done = 0u64;
        let mut est = Est::Unknown;
        let mut thresholds = vec![];
        while done < max_n {
            if term.abs() < self.eps {
                break;
            }
            k_fx += &self.unit;
            let next_term = self.div(&self.mul(&term, x), &k_fx);
            // remainder bound: a magnitude, |x^(k+1)/(k+1)!| * bound
            let err = (&next_term * BigInt::from(bound)).abs();
            sum += &term;
            term = next_term;
            done += 1;
            let up = &sum + &err;
            let low = &sum - &err;
            thresholds.push((up.clone(), low.clone()));
            if compare > &up {
                est = Est::Gt;
                break;
            }
            if compare < &low {
                est = Est::Lt;
                break;
            }
        }
        CmpOut { est, iterations: done, approx: sum, thresholds }
    }
}

/// "d.ddd" decimal text (optional sign, optional fraction) -> raw at `digits`.
pub fn parse_dec(s: &str, digits: u32) -> BigInt {
    let (neg, body) = match s.strip_prefix('-') {
        Some(r) => (true, r),
        None => (false, s),
    };
    let (ip, fp) = body.split_once('.').unwrap_or((body, ""));
    assert!(fp.len() <= digits as usize, "too many fraction digits in {s}");
    let mut t = String::new();
    t.push_str(ip);
    t.push_str(fp);
    for _ in fp.len()..digits as usize {
        t.push('0');
    }
    let v: BigInt = t.parse().expect("decimal literal");
    if neg {
        -v
    } else {
        v
    }
}

/// raw at `digits` -> exact decimal text (for messages / samples)
pub fn show(raw: &BigInt, digits: u32) -> String {
    let neg = raw.is_negative();
    let mut s = raw.abs().to_string();
    while s.len() <= digits as usize {
        s.insert(0, '0');
    }
    let cut = s.len() - digits as usize;
    let (ip, fp) = s.split_at(cut);
    let body = if digits == 0 { ip.to_string() } else { format!("{ip}.{fp}") };
    if neg {
        format!("-{body}")
    } else {
        body
    }
}

pub fn short(raw: &BigInt) -> String {
    let s = show(raw, DIGITS);
    if s.len() > 90 {
        format!("{}..({} chars)", &s[..60], s.len())
    } else {
        s
    }
}
