//! C16 — bounded exp comparison never reaches a wrong conclusion.
//! GRID: x  x  bound (only bounds that dominate e^|x|)  x  compare  x  max_n.
//! Oracle 1 (soundness, the statement's first clause): the true sign of
//! compare - e^x from mpmath (oracles/math_oracle.py); GT needs +, LT needs -.
//! Oracle 2 (second clause): estimation / iterations / approx equal the
//! independent re-implementation of the reference algorithm (fx.rs).

use crate::fx::{self, Est, Fx};
use crate::pal::{dec, raw_of};
use crate::pyoracle;
use mc_core::{catch, cov, json, Ctx, Level, Value};
use num_bigint::BigInt;
use num_traits::{Signed, Zero};
use pallas_math::math::{ExpOrdering, FixedPrecision};
use rayon::prelude::*;
use std::collections::{BTreeMap, BTreeSet};

struct Case {
    x: BigInt,
    bound: i64,
    compare: BigInt,
    max_n: u64,
    how: String,
}

fn x_grid(thorough: bool) -> Vec<BigInt> {
    let mut v: Vec<String> = vec!["0".into()];
    for k in [30usize, 25, 24, 23, 12, 6, 3, 2, 1] {
        v.push(format!("0.{}1", "0".repeat(k - 1)));
    }
    // just below / at / above the 10^-24 cut-off of the loop
    v.push("0.0000000000000000000000009999999999".into());
    v.push("0.0000000000000000000000010000000001".into());
    let step = if thorough { 1 } else { 5 };
    let mut i = step;
    while i <= 120 {
        v.push(format!("{}.{:02}", i / 100, i % 100));
        i += step;
    }
    v.push("2".into());
    v.push("5".into());
    // full-length digit patterns: every fixed-point product / quotient is inexact
    v.push("0.3333333333333333333333333333333333".into());
    v.push("0.1234567890123456789012345678901234".into());
    v.push("1.0986122886681097821314567891234567".into()); // just below ln 3
    if thorough {
        v.push("3".into());
        v.push("10".into());
        v.push("0.0506931471805599453094172321214581".into());
        v.push("0.6931471805599453094172321214581765".into());
    }
    // negative arguments: e^|x| is still dominated by the bound
    let mut neg: Vec<String> = vec![
        "-0.001".into(),
        "-0.05".into(),
        "-0.5".into(),
        "-1".into(),
        "-1.2".into(),
        "-2".into(),
        "-0.3333333333333333333333333333333333".into(),
        "-0.9876543210987654321098765432109876".into(),
        "-0.1234567890123456789012345678901234".into(),
        "-0.7071067811865475244008443621048490".into(),
        "-1.0986122886681097821314567891234567".into(),
        "-0.0506931471805599453094172321214581".into(),
    ];
    if thorough {
        for s in ["-0.0000000000000000000000000000010000", "-0.25", "-0.75", "-1.05", "-5", "-1.1234567890123456789012345678901234", "-0.0123456789012345678901234567890123"] {
            neg.push(s.into());
        }
    }
    v.extend(neg);
    let mut out: Vec<BigInt> = v.iter().map(|s| fx::parse_dec(s, 34)).collect();
    out.sort();
    out.dedup();
    // smallest magnitude first, so that the first witness of a defect is a small one
    out.sort_by_key(|x| (x.abs(), x.is_negative()));
    out
}

pub fn run(ctx: Ctx) -> ! {
    let f = Fx::new();
    let xs = x_grid(ctx.thorough);
    let bounds: Vec<i64> = if ctx.thorough { vec![3, 4, 10, 200, 1000, 25000] } else { vec![3, 4, 10, 200] };
    let max_ns: Vec<u64> = vec![1, 2, 3, 5, 10, 100, 1000];
    let n_thr = if ctx.thorough { 12 } else { 5 };

    // ---- build the grid
    let mut cases: Vec<Case> = vec![];
    let mut skipped_premise = 0u64;
    for x in &xs {
        let xf: f64 = fx::show(x, 34).parse().unwrap();
        let e_abs = xf.abs().exp();
        let ex = f.exp(x).0; // grid anchor only; truth comes from mpmath
        let mut compares: Vec<(BigInt, String)> = vec![];
        compares.push((ex.clone(), "E".into()));
        compares.push((&ex + 1, "E+1ulp".into()));
        compares.push((&ex - 1, "E-1ulp".into()));
        for (k, name) in [(30u32, "1e-30"), (20, "1e-20"), (10, "1e-10"), (3, "1e-3"), (0, "1")] {
            let d = &ex / fx::ten_pow(k);
            compares.push((&ex + &d, format!("E*(1+{name})")));
            compares.push((&ex - &d, format!("E*(1-{name})")));
        }
        for &b in &bounds {
            if (b as f64) < e_abs * (1.0 + 1e-9) {
                skipped_premise += 1;
                continue;
            }
            let mut cs = compares.clone();
            // compare values exactly on / next to the decision thresholds of the
            // first iterations (strictness of the two tests)
            let trace = f.exp_cmp(1000, x, b, &ex);
            for (k, (up, low)) in trace.thresholds.iter().take(n_thr).enumerate() {
                for d in [-1i32, 0, 1] {
                    cs.push((up + d, format!("upper[{k}]{d:+}")));
                    cs.push((low + d, format!("lower[{k}]{d:+}")));
                }
            }
            for (c, how) in cs {
                for &m in &max_ns {
                    cases.push(Case { x: x.clone(), bound: b, compare: c.clone(), max_n: m, how: how.clone() });
                }
            }
        }
    }

    // ---- true ordering of every distinct (x, compare)
    let mut truth_ix: BTreeMap<(BigInt, BigInt), usize> = BTreeMap::new();
    let mut queries: Vec<Value> = vec![];
    for c in &cases {
        let key = (c.x.clone(), c.compare.clone());
        if !truth_ix.contains_key(&key) {
            truth_ix.insert(key, queries.len());
            queries.push(json!({"k": "cmp", "id": queries.len(), "x": c.x.to_string(), "c": c.compare.to_string()}));
        }
    }
    let answers = pyoracle::ask(&ctx.root, queries);
    let truth = |c: &Case| -> i64 {
        let a = &answers[truth_ix[&(c.x.clone(), c.compare.clone())]];
        match a.get("sign").and_then(|s| s.as_i64()) {
            Some(s) => s,
            None => mc_core::report::machinery_failure(&format!("true ordering unresolved for x={} compare={}", c.x, c.compare)),
        }
    };

    // ---- evaluate
    struct Out {
        est: &'static str,
        truth: i64,
        iterations: u64,
        nontrivial: bool,
    }
    type Viol = (String, String, Value);
    let results: Vec<(Option<Out>, Vec<Viol>)> = cases
        .par_iter()
        .map(|c| {
            let mut sink: Vec<Viol> = vec![];
            let t = truth(c);
            let xclass = if c.x.is_negative() { "x<0" } else { "x>=0" };
            let case = json!({"x_raw": c.x.to_string(), "x": fx::show(&c.x, 34), "bound": c.bound, "compare_raw": c.compare.to_string(), "compare": fx::show(&c.compare, 34), "compare_is": c.how, "max_n": c.max_n, "true_sign_of_compare_minus_exp": t});
            let (xd, cd) = (dec(&c.x, 34), dec(&c.compare, 34));
            let (m, b) = (c.max_n, c.bound);
            let r = match catch(move || xd.exp_cmp(m, b, &cd)) {
                Ok(r) => r,
                Err(p) => {
                    sink.push((p.site(), format!("exp_cmp panicked: {} at {}", p.message, p.location), case));
                    return (None, sink);
                }
            };
            let est = match r.estimation {
                ExpOrdering::GT => "GT",
                ExpOrdering::LT => "LT",
                ExpOrdering::UNKNOWN => "UNKNOWN",
            };
            // clause 1: a conclusion is never wrong
            if (est == "GT" && t <= 0) || (est == "LT" && t >= 0) {
                sink.push((
                    format!("exp_cmp:wrong-conclusion:{xclass}"),
                    format!(
                        "exp_cmp(x={}, max_n={}, bound={}, compare={}) answered {est} after {} iterations, but compare {} e^x",
                        fx::show(&c.x, 34),
                        c.max_n,
                        c.bound,
                        fx::show(&c.compare, 34),
                        r.iterations,
                        match t {
                            1 => ">",
                            -1 => "<",
                            _ => "==",
                        }
                    ),
                    case.clone(),
                ));
            }
            // clause 2: approximation and iteration count match the reference
            let want = f.exp_cmp(c.max_n, &c.x, c.bound, &c.compare);
            let west = match want.est {
                Est::Gt => "GT",
                Est::Lt => "LT",
                Est::Unknown => "UNKNOWN",
            };
            let approx_ok = r.approx.precision() == 34 && r.approx == dec(&want.approx, 34);
            if est != west || r.iterations != want.iterations || !approx_ok {
                let which = if r.iterations != want.iterations {
                    "iterations"
                } else if !approx_ok {
                    "approx"
                } else {
                    "estimation"
                };
                let got_a = raw_of(&r.approx).map(|v| fx::show(&v, 34)).unwrap_or_else(|e| e);
                sink.push((
                    format!("exp_cmp:ref-mismatch:{xclass}"),
                    format!(
                        "{which} differs: exp_cmp(x={}, max_n={}, bound={}, compare={} [{}]) = ({est}, {} iterations, approx {got_a}); reference algorithm gives ({west}, {} iterations, approx {})",
                        fx::show(&c.x, 34),
                        c.max_n,
                        c.bound,
                        fx::show(&c.compare, 34),
                        c.how,
                        r.iterations,
                        want.iterations,
                        fx::show(&want.approx, 34)
                    ),
                    case,
                ));
            }
            (Some(Out { est, truth: t, iterations: r.iterations, nontrivial: r.iterations >= 1 }), sink)
        })
        .collect();
    let mut outs: Vec<Option<Out>> = Vec::with_capacity(results.len());
    for (o, sink) in results {
        outs.push(o);
        for (fp, what, case) in sink {
            ctx.violation(fp, what, case);
        }
    }

    let mut outcome_hist: BTreeMap<String, u64> = BTreeMap::new();
    let mut distinct: BTreeSet<(usize, bool)> = BTreeSet::new();
    let mut max_iter = 0;
    for (i, o) in outs.iter().enumerate() {
        if let Some(o) = o {
            *outcome_hist.entry(format!("{}|truth{:+}", o.est, o.truth)).or_default() += 1;
            if o.nontrivial {
                distinct.insert((i, true));
            }
            max_iter = max_iter.max(o.iterations);
        }
    }
    let seen = |e: &str| outcome_hist.keys().any(|k| k.starts_with(e));
    if !(seen("GT") && seen("LT") && seen("UNKNOWN")) || !outcome_hist.keys().any(|k| k.ends_with("truth+0")) {
        mc_core::report::machinery_failure(&format!("C16 grid did not reach all outcomes: {outcome_hist:?}"));
    }
    let samples: Vec<Value> = cases
        .iter()
        .enumerate()
        .filter(|(i, _)| i % (cases.len() / 6).max(1) == 3)
        .take(6)
        .map(|(i, c)| json!({"x": fx::show(&c.x, 34), "bound": c.bound, "compare": fx::show(&c.compare, 34), "compare_is": c.how, "max_n": c.max_n, "pallas": outs[i].as_ref().map(|o| json!({"estimation": o.est, "iterations": o.iterations, "true_sign": o.truth}))}))
        .collect();
    let cov = cov! {
        "evaluations" => cases.len(),
        "distinct_nontrivial" => distinct.len(),
        "rule" => "evaluation = one FixedDecimal::exp_cmp(max_n, bound, compare) call. x in {0, 10^-k, points around the 10^-24 cut-off, 0.05..1.2 step 0.05 (thorough: 0.01), 2, 5, full-length digit patterns, negative values}; bound in {3,4,10,200,..} kept only when bound >= e^|x| (the premise); compare in {E, E +-1ulp, E*(1 +- d) for d in 1e-30,1e-20,1e-10,1e-3,1, and the reference run's upper/lower decision thresholds of the first iterations -1/0/+1 ulp}; max_n in {1,2,3,5,10,100,1000}. All generated cases are distinct; non-trivial = the comparison loop ran at least one iteration",
        "samples" => samples,
        "x_values" => xs.len(),
        "x_negative" => xs.iter().filter(|x| x.is_negative()).count(),
        "x_zero" => xs.iter().filter(|x| x.is_zero()).count(),
        "bound_x_pairs_skipped_by_premise" => skipped_premise,
        "true_orderings_from_mpmath" => answers.len(),
        "outcome_by_truth" => outcome_hist,
        "max_iterations_seen" => max_iter,
    };
    ctx.finish(
        Level::Exploration,
        cov,
        &[
            "true ordering of compare and e^x: mpmath at 120-150 digits (equality only asserted for x = 0)",
            "premise 'bound dominates e^|x|' decided with f64 exp and a 1e-9 relative margin",
            "the reference algorithm is re-implemented from its description (strict > / < tests, remainder bound = bound * |next term|, 10^-24 cut-off) in fx.rs with num-bigint; for x >= 0 the magnitude and the signed product coincide",
            "values enter/leave pallas through from_str / PartialEq",
        ],
    )
}
