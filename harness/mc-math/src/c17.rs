//! C17 — fixed-point arithmetic, rounding and printing are exact.
//! GRID, complete over the stated finite spaces:
//!  (A) arithmetic and comparisons at precision 34 on ALL ordered pairs of a
//!      fixed alphabet, through every operator impl (owned, by-reference,
//!      op-assign, op-assign on `&mut`), against exact integer arithmetic in
//!      num-bigint: add/sub exact, mul = floor(a*b/10^34), div =
//!      trunc(a*10^34/b), comparisons = comparison of the exact rationals;
//!  (B) floor/ceil/trunc/round and Display on EVERY raw value in
//!      [-2000,2000] at precision 1 and [-20000,20000] at precision 2, on
//!      boundary residues at precisions 10 and 34, and (separately) on
//!      [-20,20] at precision 0.

use crate::fx::{self, ten_pow};
use crate::pal::{dec, parse_plain_decimal, raw_of};
use mc_core::{catch, cov, json, Ctx, Level, Value};
use num_bigint::BigInt;
use num_integer::Integer;
use num_traits::{Signed, Zero};
use pallas_math::math::{FixedDecimal, FixedPrecision};
use rayon::prelude::*;
use std::cmp::Ordering;
use std::collections::BTreeSet;
use std::sync::atomic::{AtomicU64, Ordering as AO};
use std::sync::Mutex;

fn alphabet() -> Vec<BigInt> {
    let lits = [
        "0.0000000000000000000000000000000001", // 1 ulp
        "0.0000000000000000000000000000000002",
        "0.0000000000000000000000000000000003",
        "0.00000000000000001",                  // sqrt(ulp): products around 1 ulp
        "0.00000000000000003",
        "0.0000000001",
        "0.1",
        "0.3333333333333333333333333333333333",
        "0.6666666666666666666666666666666667",
        "0.4999999999999999999999999999999999",
        "0.5",
        "0.5000000000000000000000000000000001",
        "0.1234567890123456789012345678901234",
        "0.9999999999999999999999999999999999",
        "1",
        "1.0000000000000000000000000000000001",
        "1.5",
        "2.5",
        "2.7182818284590452353602874043083282",
        "3.1415926535897932384626433832795028",
        "7",
        "9.9999999999999999999999999999999999",
        "10",
        "99",
        "1000000",
        "123456789.9876543210123456789012345678901234",
        "100000000000000000",                    // 1e17
        "18446744073709551616",                  // 2^64
        "18446744073709551616.5",
        "1000000000000000000000000000000",       // 1e30
    ];
    let mut v = vec![BigInt::zero()];
    for l in lits {
        let r = fx::parse_dec(l, 34);
        v.push(r.clone());
        v.push(-r);
    }
    v
}

fn sign_class(v: &BigInt) -> &'static str {
    if v.is_negative() {
        "negative"
    } else {
        "non-negative"
    }
}

struct Counters {
    evals: AtomicU64,
    inexact_mul: AtomicU64,
    inexact_mul_neg: AtomicU64,
    inexact_div: AtomicU64,
    inexact_div_neg: AtomicU64,
    halfway: AtomicU64,
    neg_fraction: AtomicU64,
    small_negative_print: AtomicU64,
}

type Viol = (String, String, Value);

fn check_value(
    sink: &mut Vec<Viol>,
    c: &Counters,
    fp: String,
    op: &str,
    got: Result<FixedDecimal, mc_core::panics::PanicInfo>,
    want: &[BigInt],
    precision: u64,
    case: Value,
) {
    c.evals.fetch_add(1, AO::Relaxed);
    match got {
        Err(p) => sink.push((p.site(), format!("{op} panicked: {} at {}", p.message, p.location), case)),
        Ok(g) => {
            if g.precision() != precision || !want.iter().any(|w| g == dec(w, precision)) {
                let shown = match raw_of(&g) {
                    Ok(r) => fx::show(&r, g.precision() as u32),
                    Err(_) => format!("{g:?}"),
                };
                let wants: Vec<String> = want.iter().map(|w| fx::show(w, precision as u32)).collect();
                sink.push((fp, format!("{op}: pallas returned {shown} (precision {}), exact answer {}", g.precision(), wants.join(" or ")), case));
            }
        }
    }
}

pub fn run(ctx: Ctx) -> ! {
    let c = Counters {
        evals: AtomicU64::new(0),
        inexact_mul: AtomicU64::new(0),
        inexact_mul_neg: AtomicU64::new(0),
        inexact_div: AtomicU64::new(0),
        inexact_div_neg: AtomicU64::new(0),
        halfway: AtomicU64::new(0),
        neg_fraction: AtomicU64::new(0),
        small_negative_print: AtomicU64::new(0),
    };
    let nontrivial: Mutex<BTreeSet<String>> = Mutex::new(BTreeSet::new());
    let unit = ten_pow(34);

    // ---------------------------------------------------------------- (A)
    let alpha = alphabet();
    let pairs: Vec<(usize, usize)> = (0..alpha.len()).flat_map(|i| (0..alpha.len()).map(move |j| (i, j))).collect();
    let viols_a: Vec<Vec<Viol>> = pairs.par_iter().map(|&(i, j)| {
        let mut sink: Vec<Viol> = vec![];
        let (a, b) = (&alpha[i], &alpha[j]);
        let case = |op: &str, variant: &str| json!({"part": "arith", "op": op, "impl": variant, "precision": 34, "a_raw": a.to_string(), "b_raw": b.to_string(), "a": fx::show(a, 34), "b": fx::show(b, 34)});
        let mut local: Vec<String> = vec![];
        // exact answers
        let sum = a + b;
        let diff = a - b;
        let prod_exact = a * b;
        let prod = prod_exact.div_floor(&unit);
        if !(&prod_exact % &unit).is_zero() {
            c.inexact_mul.fetch_add(1, AO::Relaxed);
            if prod_exact.is_negative() {
                c.inexact_mul_neg.fetch_add(1, AO::Relaxed);
            }
        }
        let quot = if b.is_zero() {
            None
        } else {
            let num = a * &unit;
            if !(&num % b).is_zero() {
                c.inexact_div.fetch_add(1, AO::Relaxed);
                if num.is_negative() != b.is_negative() {
                    c.inexact_div_neg.fetch_add(1, AO::Relaxed);
                }
            }
            Some(num / b) // BigInt division truncates toward zero
        };
        let mk = || (dec(a, 34), dec(b, 34));
        let mut ops: Vec<(&str, Option<BigInt>)> = vec![("add", Some(sum)), ("sub", Some(diff)), ("mul", Some(prod)), ("div", quot)];
        for (op, want) in ops.drain(..) {
            let Some(want) = want else { continue };
            let fp = format!("arith:{op}:{}-result", sign_class(&want));
            let w = [want];
            let (x, y) = mk();
            let r = catch(move || match op {
                "add" => x + y,
                "sub" => x - y,
                "mul" => x * y,
                _ => x / y,
            });
            check_value(&mut sink, &c, fp.clone(), &format!("{op} (owned)"), r, &w, 34, case(op, "owned"));
            let (x, y) = mk();
            let r = catch(move || match op {
                "add" => &x + &y,
                "sub" => &x - &y,
                "mul" => &x * &y,
                _ => &x / &y,
            });
            check_value(&mut sink, &c, fp.clone(), &format!("{op} (&a op &b)"), r, &w, 34, case(op, "ref"));
            let (x, y) = mk();
            let r = catch(move || {
                let mut x = x;
                match op {
                    "add" => x += y,
                    "sub" => x -= y,
                    "mul" => x *= y,
                    _ => x /= y,
                }
                x
            });
            check_value(&mut sink, &c, fp.clone(), &format!("{op}-assign"), r, &w, 34, case(op, "assign"));
            let (x, y) = mk();
            let r = catch(move || {
                let mut x = x;
                {
                    let mut r = &mut x;
                    match op {
                        "add" => r += &y,
                        "sub" => r -= &y,
                        "mul" => r *= &y,
                        _ => r /= &y,
                    }
                }
                x
            });
            check_value(&mut sink, &c, fp, &format!("{op}-assign on &mut"), r, &w, 34, case(op, "assign-ref"));
            if !a.is_zero() && !b.is_zero() {
                local.push(format!("{op}:{i}:{j}"));
            }
        }
        // comparisons
        let exact = a.cmp(b);
        let (x, y) = mk();
        c.evals.fetch_add(1, AO::Relaxed);
        match catch(move || (x.partial_cmp(&y), x == y, x != y, x < y, x <= y, x > y, x >= y)) {
            Err(p) => sink.push((p.site(), format!("comparison panicked: {} at {}", p.message, p.location), case("cmp", "partial_cmp"))),
            Ok(got) => {
                let want = (
                    Some(exact),
                    exact == Ordering::Equal,
                    exact != Ordering::Equal,
                    exact == Ordering::Less,
                    exact != Ordering::Greater,
                    exact == Ordering::Greater,
                    exact != Ordering::Less,
                );
                if got != want {
                    sink.push((
                        "cmp:precision34".to_string(),
                        format!("comparing {} with {}: (partial_cmp,==,!=,<,<=,>,>=) = {got:?}, exact rationals give {want:?}", fx::show(a, 34), fx::show(b, 34)),
                        case("cmp", "partial_cmp"),
                    ));
                }
            }
        }
        if i != j {
            local.push(format!("cmp:{i}:{j}"));
        }
        nontrivial.lock().unwrap().extend(local);
        sink
    }).collect();
    for (fp, what, case) in viols_a.into_iter().flatten() {
        ctx.violation(fp, what, case);
    }

    // ---------------------------------------------------------------- (B)
    let mut inputs: Vec<(u64, BigInt, &'static str)> = vec![];
    for r in -2000i64..=2000 {
        inputs.push((1, BigInt::from(r), "all"));
    }
    for r in -20000i64..=20000 {
        inputs.push((2, BigInt::from(r), "all"));
    }
    for p in [10u64, 34] {
        let m = ten_pow(p as u32);
        let half: BigInt = &m / 2;
        let ints: Vec<BigInt> = vec![0u8.into(), 1u8.into(), 2u8.into(), 7u8.into(), 1_000_000u32.into(), BigInt::from(1u8) << 64];
        let res: Vec<BigInt> = vec![0u8.into(), 1u8.into(), 2u8.into(), &half - 1, half.clone(), &half + 1, &m - 2, &m - 1];
        for k in &ints {
            for r in &res {
                let v = k * &m + r;
                inputs.push((p, v.clone(), "selected"));
                if !v.is_zero() {
                    inputs.push((p, -v, "selected"));
                }
            }
        }
    }
    if ctx.thorough {
        for r in -200000i64..=200000 {
            inputs.push((3, BigInt::from(r), "all"));
        }
    }
    for r in 0i64..=20 {
        inputs.push((0, BigInt::from(r), "precision0"));
        if r != 0 {
            inputs.push((0, BigInt::from(-r), "precision0"));
        }
    }

    let digit_diag: Mutex<std::collections::BTreeMap<u64, (BigInt, String)>> = Mutex::new(Default::default());
    let viols_b: Vec<Vec<Viol>> = inputs.par_iter().map(|(p, raw, class)| {
        let mut sink: Vec<Viol> = vec![];
        let p = *p;
        let m = ten_pow(p as u32);
        let fl = raw.div_floor(&m) * &m;
        let rem = raw - &fl; // 0 <= rem < m
        let ce = if rem.is_zero() { fl.clone() } else { &fl + &m };
        let tr = if raw.is_negative() { ce.clone() } else { fl.clone() };
        // round: every integer within one half (two at a half-way point)
        let twice: BigInt = &rem * 2;
        let rd: Vec<BigInt> = match twice.cmp(&m) {
            Ordering::Less => vec![fl.clone()],
            Ordering::Greater => vec![ce.clone()],
            Ordering::Equal => {
                c.halfway.fetch_add(1, AO::Relaxed);
                vec![fl.clone(), ce.clone()]
            }
        };
        if raw.is_negative() && !rem.is_zero() {
            c.neg_fraction.fetch_add(1, AO::Relaxed);
        }
        let suffix = if *class == "precision0" { ":precision0".to_string() } else { format!(":{}-input", sign_class(raw)) };
        let case = |op: &str| json!({"part": "rounding", "op": op, "precision": p, "raw": raw.to_string(), "value": fx::show(raw, p as u32)});
        let x = dec(raw, p);
        for (op, want) in [("floor", vec![fl.clone()]), ("ceil", vec![ce.clone()]), ("trunc", vec![tr.clone()]), ("round", rd.clone())] {
            let xx = x.clone();
            let r = catch(move || match op {
                "floor" => xx.floor(),
                "ceil" => xx.ceil(),
                "trunc" => xx.trunc(),
                _ => xx.round(),
            });
            check_value(&mut sink, &c, format!("round:{op}{suffix}"), &format!("{op}({})", fx::show(raw, p as u32)), r, &want, p, case(op));
        }
        // printing
        c.evals.fetch_add(1, AO::Relaxed);
        let xx = x.clone();
        match catch(move || xx.to_string()) {
            Err(pn) => sink.push((pn.site(), format!("to_string panicked: {} at {}", pn.message, pn.location), case("print"))),
            Ok(s) => {
                let ok = match parse_plain_decimal(&s) {
                    // printed = num / 10^fd ; stored = raw / 10^p
                    Some((num, fd)) => {
                        if fd as u64 != p {
                            let mut dd = digit_diag.lock().unwrap();
                            let e = dd.entry(p).or_insert_with(|| (raw.clone(), String::new()));
                            if e.1.is_empty() || (raw.abs(), raw.is_negative()) < (e.0.abs(), e.0.is_negative()) {
                                *e = (raw.clone(), format!("{s:?} ({fd} fraction digits)"));
                            }
                        }
                        num * ten_pow(p as u32) == raw * ten_pow(fd as u32)
                    }
                    None => false,
                };
                if !ok {
                    sink.push((
                        format!("print:display{suffix}"),
                        format!("stored value {} (raw {raw}, precision {p}) prints as {s:?}", fx::show(raw, p as u32)),
                        case("print"),
                    ));
                }
                if raw.is_negative() && raw.abs() < m {
                    c.small_negative_print.fetch_add(1, AO::Relaxed);
                }
            }
        }
        if !rem.is_zero() || *class != "all" {
            nontrivial.lock().unwrap().insert(format!("r:{p}:{raw}"));
        }
        sink
    }).collect();
    for (fp, what, case) in viols_b.into_iter().flatten() {
        ctx.violation(fp, what, case);
    }

    let g = |a: &AtomicU64| a.load(AO::Relaxed);
    if g(&c.inexact_mul_neg) == 0 || g(&c.inexact_div_neg) == 0 || g(&c.halfway) == 0 || g(&c.neg_fraction) == 0 || g(&c.small_negative_print) == 0 {
        mc_core::report::machinery_failure("C17 grid failed to reach negative inexact products/quotients, half-way points or small negatives");
    }
    let nt = nontrivial.into_inner().unwrap();
    let samples = vec![
        json!({"part": "arith", "a": fx::show(&alpha[16], 34), "b": fx::show(&alpha[7], 34), "ops": ["add", "sub", "mul", "div", "cmp"]}),
        json!({"part": "rounding", "precision": 2, "raw": "-12350", "value": "-123.50", "ops": ["floor", "ceil", "trunc", "round", "print"]}),
        json!({"part": "rounding", "precision": 1, "raw": "-5", "value": "-0.5"}),
        json!({"part": "rounding", "precision": 34, "raw": "75000000000000000000000000000000000"}),
    ];
    for (p, (_, eg)) in digit_diag.into_inner().unwrap() {
        ctx.note(format!("diagnostic (not a violation): at precision {p} the printed fraction does not have {p} digits, e.g. {eg}"));
    }
    let cov = cov! {
        "evaluations" => g(&c.evals),
        "distinct_nontrivial" => nt.len(),
        "rule" => "evaluation = one pallas operator / rounding method / to_string call compared with exact integer arithmetic. (A) all ordered pairs of a 61-value alphabet at precision 34 x {add,sub,mul,div} x 4 operator impls + 7 comparison operators; (B) every raw value in [-2000,2000] at precision 1 and [-20000,20000] at precision 2, 6 integer parts x 8 boundary residues x 2 signs at precisions 10 and 34, [-20,20] at precision 0 (thorough tier: also every raw value in [-200000,200000] at precision 3), each through floor/ceil/trunc/round/Display. non-trivial = distinct (op,a,b) with both operands non-zero (a != b for comparisons) or distinct (precision,raw) with a non-zero fraction part (or a selected boundary value)",
        "samples" => samples,
        "exhaustive" => true,
        "alphabet_size" => alpha.len(),
        "ordered_pairs" => pairs.len(),
        "rounding_inputs" => inputs.len(),
        "inexact_products" => g(&c.inexact_mul),
        "inexact_negative_products" => g(&c.inexact_mul_neg),
        "inexact_quotients" => g(&c.inexact_div),
        "inexact_negative_quotients" => g(&c.inexact_div_neg),
        "halfway_points" => g(&c.halfway),
        "negative_with_fraction" => g(&c.neg_fraction),
        "small_negative_prints" => g(&c.small_negative_print),
    };
    ctx.finish(
        Level::Exploration,
        cov,
        &[
            "values enter through FixedDecimal::from_str(raw integer text) and results are read by PartialEq against from_str(expected); both are assumed faithful (IBig::from_str / IBig ==)",
            "arithmetic and comparisons only at precision 34 (the operators use a global 10^34 scale); division by zero not evaluated (no property clause)",
            "round at a half-way point may return either neighbouring integer (the statement only requires |round - x| <= 1/2)",
            "printed form: value equality of the parsed plain decimal with raw/10^p; the number of printed fraction digits is a diagnostic only",
        ],
    )
}
