//! C15 — exp, ln, pow agree digit-for-digit with the reference algorithm and
//! lie within the reference's error bound of the true value.
//! GRID (explicit, enumerated completely): mantissas x powers of ten,
//! boundary points (0, 1, e, e^k) with their neighbours, leader-election
//! shapes. Oracle 1: the independent num-bigint re-implementation in fx.rs
//! (bit-identical). Oracle 2: mpmath via oracles/math_oracle.py (documented
//! tolerance).

use crate::fx::{self, ten_pow, Fx};
use crate::pal::{dec, lead, raw_of};
use crate::pyoracle;
use mc_core::{catch, cov, json, Ctx, Level, Value};
use num_bigint::BigInt;
use num_traits::{Signed, Zero};
use pallas_math::math::{FixedDecimal, FixedPrecision};
use rayon::prelude::*;
use std::collections::{BTreeMap, BTreeSet};

#[derive(Clone, Debug, PartialEq, Eq, PartialOrd, Ord)]
enum Call {
    Exp(BigInt),
    Ln(BigInt),
    Pow(BigInt, BigInt),
}

impl Call {
    fn json(&self) -> Value {
        match self {
            Call::Exp(x) => json!({"fn": "exp", "x_raw": x.to_string(), "x": fx::short(x)}),
            Call::Ln(x) => json!({"fn": "ln", "x_raw": x.to_string(), "x": fx::short(x)}),
            Call::Pow(x, y) => json!({"fn": "pow", "x_raw": x.to_string(), "y_raw": y.to_string(), "x": fx::short(x), "y": fx::short(y)}),
        }
    }
    fn name(&self) -> &'static str {
        match self {
            Call::Exp(_) => "exp",
            Call::Ln(_) => "ln",
            Call::Pow(..) => "pow",
        }
    }
}

/// m * 10^e for the seven mantissas of the design (raw, 34 digits)
fn mantissas(e: i32) -> Vec<BigInt> {
    let s = (e + 34) as u32;
    let mut v: Vec<BigInt> = [1u8, 2, 3, 5, 7].iter().map(|m| BigInt::from(*m) * ten_pow(s)).collect();
    v.push(ten_pow(s + 1) - 1); // 9.99...9 (down to the last place)
    v.push(ten_pow(s) + 1); // 1.00...01
    v
}

fn boundary_points(f: &Fx) -> Vec<BigInt> {
    let mut v = vec![BigInt::zero(), BigInt::from(1), BigInt::from(2), f.unit.clone() - 1, f.unit.clone(), f.unit.clone() + 1];
    for k in -3i64..=3 {
        let ek = f.exp(&f.int(k)).0;
        for d in -2i32..=2 {
            v.push(&ek + d);
        }
    }
    v
}

fn build(f: &Fx, thorough: bool) -> Vec<Call> {
    let mut calls: BTreeSet<Call> = BTreeSet::new();
    let (e_lo, e_hi) = (-30i32, 6i32);
    // ---- exp / ln on the magnitude grid
    for e in e_lo..=e_hi {
        for (i, m) in mantissas(e).into_iter().enumerate() {
            // quick tier: at 10^6 only the mantissas 1 and 1.0..01 (results have 10^5..10^6 digits)
            if !thorough && e >= 6 && !(i == 0 || i == 6) {
                continue;
            }
            calls.insert(Call::Exp(m.clone()));
            calls.insert(Call::Exp(-m.clone()));
            calls.insert(Call::Ln(m));
        }
    }
    if thorough {
        for e in [-34i32, -33, -32, -31] {
            for m in mantissas(e) {
                calls.insert(Call::Exp(m.clone()));
                calls.insert(Call::Exp(-m.clone()));
                calls.insert(Call::Ln(m));
            }
        }
        for e in -30..=4 {
            for m in [4u8, 6, 8, 9] {
                let v = BigInt::from(m) * ten_pow((e + 34) as u32);
                calls.insert(Call::Exp(v.clone()));
                calls.insert(Call::Exp(-v.clone()));
                calls.insert(Call::Ln(v));
            }
            for lit in ["1.5", "2.5", "1.2345678901234567890123456789012345", "9.8765432109876543210987654321098765"] {
                // lit * 10^e at 34 digits (digits below the last place are cut off)
                let base = fx::parse_dec(lit, 35);
                let v = if e >= 1 { base * ten_pow((e - 1) as u32) } else { base / ten_pow((1 - e) as u32) };
                if v.is_zero() {
                    continue;
                }
                calls.insert(Call::Exp(v.clone()));
                calls.insert(Call::Exp(-v.clone()));
                calls.insert(Call::Ln(v));
            }
        }
    }
    // ---- boundary points
    for b in boundary_points(f) {
        calls.insert(Call::Exp(b.clone()));
        calls.insert(Call::Exp(-b.clone()));
        if b.is_positive() {
            calls.insert(Call::Ln(b));
        }
    }
    // ---- leader-election shapes: c = ln(1-f), x = -sigma*c, q = exp(x), (1-f)^sigma
    let sigmas: Vec<BigInt> = ["0.000000001", "0.000001", "0.001", "0.01", "0.05", "0.1", "0.25", "0.3333333333333333333333333333333333", "0.5", "0.75", "1"]
        .iter()
        .map(|s| fx::parse_dec(s, 34))
        .collect();
    let one_minus_f: Vec<BigInt> = ["0.95", "0.8", "0.5"].iter().map(|s| fx::parse_dec(s, 34)).collect();
    for omf in &one_minus_f {
        calls.insert(Call::Ln(omf.clone()));
        let c = f.ln(omf).0;
        for s in &sigmas {
            let x = -f.mul(s, &c);
            calls.insert(Call::Exp(x.clone()));
            calls.insert(Call::Exp(-x));
            calls.insert(Call::Pow(omf.clone(), s.clone()));
        }
    }
    for i in 1..=10 {
        let x = fx::parse_dec(&format!("{}.{}", i / 10, i % 10), 34);
        calls.insert(Call::Exp(x.clone()));
        calls.insert(Call::Ln(x));
    }
    // ---- pow
    let mut bases: Vec<BigInt> = vec![];
    let all_es: Vec<i32> = (-30..=6).collect();
    let pow_es: &[i32] = if thorough { &all_es } else { &[-30, -10, -3, -1, 0, 1, 3, 6] };
    for &e in pow_es {
        bases.extend(mantissas(e));
    }
    bases.extend(boundary_points(f));
    bases.extend(one_minus_f.iter().cloned());
    let mut exps: Vec<BigInt> = vec![BigInt::zero()];
    let mut lits = vec!["0.0000000000000000000000000000000001", "0.0000000001", "0.05", "0.5", "0.9999999999999999999999999999999999", "1", "1.0000000000000000000000000000000001", "2", "2.5", "3", "10"];
    if thorough {
        lits.extend(["0.3333333333333333333333333333333333", "7", "100", "1000", "12345.678"]);
    }
    for l in &lits {
        let v = fx::parse_dec(l, 34);
        exps.push(v.clone());
        exps.push(-v);
    }
    for b in &bases {
        for y in &exps {
            if b.is_zero() && y.is_negative() {
                continue; // 0^negative has no mathematical value
            }
            calls.insert(Call::Pow(b.clone(), y.clone()));
        }
    }
    // negative bases with integral exponents
    let int_exps: Vec<BigInt> = [0i64, 1, -1, 2, -2, 3, -3, 7, -7, 10, -10].iter().map(|k| f.int(*k)).collect();
    for &e in &[-30i32, -10, -1, 0, 1, 3, 6] {
        for b in mantissas(e) {
            for y in &int_exps {
                calls.insert(Call::Pow(-b.clone(), y.clone()));
            }
        }
    }
    for b in boundary_points(f) {
        if b.is_positive() {
            for y in &int_exps {
                calls.insert(Call::Pow(-b.clone(), y.clone()));
            }
        }
    }
    // smallest arguments first: the first witness of a defect is then a small one
    let mut v: Vec<Call> = calls.into_iter().collect();
    v.sort_by_key(|c| match c {
        Call::Exp(x) => (0u8, x.abs(), x.is_negative(), BigInt::zero(), false),
        Call::Ln(x) => (1, x.abs(), false, BigInt::zero(), false),
        Call::Pow(x, y) => (2, x.abs(), x.is_negative(), y.abs(), y.is_negative()),
    });
    v
}

struct Done {
    got: Option<BigInt>,
    series_steps: u32,
    matched: bool,
}

fn pallas_exp(x: &BigInt) -> Option<FixedDecimal> {
    let d = dec(x, 34);
    catch(move || d.exp()).ok()
}
fn pallas_ln(x: &BigInt) -> Option<FixedDecimal> {
    let d = dec(x, 34);
    catch(move || d.ln()).ok()
}

pub fn run(ctx: Ctx) -> ! {
    let f = Fx::new();
    let calls = build(&f, ctx.thorough);

    type Viol = (String, String, Value);
    let results: Vec<(Done, Vec<Viol>)> = calls
        .par_iter()
        .map(|call| {
            let mut sink: Vec<Viol> = vec![];
            // ---- reference value
            let (want, steps, ln_n): (BigInt, u32, Option<i64>) = match call {
                Call::Exp(x) => {
                    let (v, it) = f.exp(x);
                    (v, it, None)
                }
                Call::Ln(x) => {
                    let (v, n, it) = f.ln(x);
                    (v, it, Some(n))
                }
                Call::Pow(b, y) => {
                    if b.is_negative() {
                        // extension used by pallas for negative bases with an integral
                        // exponent: (-1)^y * |b|^y
                        let v = f.pow(&-b, y);
                        let odd = (y / &f.unit) % 2 != BigInt::zero();
                        (if odd { -v } else { v }, 1, None)
                    } else {
                        (f.pow(b, y), 1, None)
                    }
                }
            };
            // ---- pallas
            let res = match call {
                Call::Exp(x) => {
                    let d = dec(x, 34);
                    catch(move || d.exp())
                }
                Call::Ln(x) => {
                    let d = dec(x, 34);
                    catch(move || d.ln())
                }
                Call::Pow(b, y) => {
                    let (bd, yd) = (dec(b, 34), dec(y, 34));
                    catch(move || bd.pow(&yd))
                }
            };
            let got = match res {
                Err(p) => {
                    sink.push((p.site(), format!("{} panicked: {} at {}", call.name(), p.message, p.location), call.json()));
                    return (Done { got: None, series_steps: steps, matched: false }, sink);
                }
                Ok(g) => g,
            };
            let matched = got.precision() == 34 && got == dec(&want, 34);
            // When pallas' value equals the reference (PartialEq on the stored integer) its
            // raw integer is known without going through Display; only a differing value has
            // to be read back from its printout (validated inside raw_of).
            let got_raw = if matched {
                Some(want.clone())
            } else {
                match catch(|| raw_of(&got)) {
                    Ok(Ok(r)) => Some(r),
                    Ok(Err(e)) => {
                        sink.push(("readback:display".to_string(), format!("result of {} cannot be read back: {e}", call.name()), call.json()));
                        None
                    }
                    Err(p) => {
                        sink.push(("readback:display".to_string(), format!("printing the result of {} panicked: {} at {}", call.name(), p.message, p.location), call.json()));
                        None
                    }
                }
            };
            if !matched {
                // attribute the mismatch to the innermost function that already disagrees
                let exp_bad = |x: &BigInt| pallas_exp(x).map(|g| g != dec(&f.exp(x).0, 34)).unwrap_or(true);
                let exp_class = |x: &BigInt| {
                    if x.is_negative() && !exp_bad(&-x) {
                        "exp:x<0"
                    } else if x.is_zero() {
                        "exp:x=0"
                    } else {
                        "exp:x>0"
                    }
                };
                let ln_root = |x: &BigInt, n: i64| -> Option<&'static str> {
                    if exp_bad(&f.unit) {
                        Some("exp:x>0")
                    } else if exp_bad(&f.int(n)) {
                        Some(exp_class(&f.int(n)))
                    } else if pallas_ln(x).map(|g| g != dec(&f.ln(x).0, 34)).unwrap_or(true) {
                        Some("ln")
                    } else {
                        None
                    }
                };
                let root: String = match call {
                    Call::Exp(x) => exp_class(x).to_string(),
                    Call::Ln(x) => ln_root(x, ln_n.unwrap()).unwrap_or("ln").to_string(),
                    Call::Pow(b, y) => {
                        let ab = b.abs();
                        if y == &f.unit && got_raw.as_ref() == Some(b) {
                            "pow:exponent=1-shortcut".to_string()
                        } else if b.is_zero() || ab == f.unit {
                            "pow:base in {0,1}".to_string()
                        } else {
                            let (l, n, _) = f.ln(&ab);
                            let arg = f.mul(y, &l);
                            if let Some(r) = ln_root(&ab, n) {
                                r.to_string()
                            } else if exp_bad(&arg) {
                                exp_class(&arg).to_string()
                            } else if b.is_negative() {
                                "pow:base<0".to_string()
                            } else {
                                "pow:base>0".to_string()
                            }
                        }
                    }
                };
                let shown = got_raw.as_ref().map(fx::short).unwrap_or_else(|| "<unreadable>".into());
                let ulps = got_raw.as_ref().map(|g| {
                    let d = (g - &want).abs();
                    if d < ten_pow(18) {
                        d.to_string()
                    } else {
                        format!("~10^{}", d.to_string().len() - 1)
                    }
                });
                sink.push((
                    format!("ref-mismatch:{root}"),
                    format!("{}: pallas {shown}, reference algorithm {} (difference {} ulp)", call.json(), fx::short(&want), ulps.unwrap_or_default()),
                    call.json(),
                ));
            }
            (Done { got: got_raw, series_steps: steps, matched }, sink)
        })
        .collect();
    let mut done: Vec<Done> = Vec::with_capacity(results.len());
    for (d, sink) in results {
        done.push(d);
        for (fp, what, case) in sink {
            ctx.violation(fp, what, case);
        }
    }

    // ---- true-value tolerance (mpmath)
    let mut queries: Vec<Value> = vec![];
    let mut qix: Vec<usize> = vec![];
    for (i, (call, d)) in calls.iter().zip(&done).enumerate() {
        let Some(g) = &d.got else { continue };
        let (sign, l, drop) = lead(g);
        let mut q = match call {
            Call::Exp(x) => json!({"fn": "exp", "x": x.to_string()}),
            Call::Ln(x) => json!({"fn": "ln", "x": x.to_string()}),
            Call::Pow(b, y) => json!({"fn": "pow", "x": b.to_string(), "y": y.to_string()}),
        };
        let o = q.as_object_mut().unwrap();
        o.insert("k".into(), json!("tol"));
        o.insert("id".into(), json!(queries.len()));
        o.insert("sign".into(), json!(sign));
        o.insert("lead".into(), json!(l));
        o.insert("drop".into(), json!(drop));
        queries.push(q);
        qix.push(i);
    }
    let answers = pyoracle::ask(&ctx.root, queries);
    let mut loose = 0u64;
    let mut worst: BTreeMap<&'static str, f64> = BTreeMap::new();
    for (a, &i) in answers.iter().zip(&qix) {
        let call = &calls[i];
        let ok = a.get("ok").and_then(|v| v.as_bool()).unwrap_or(false);
        let err = a.get("err").and_then(|v| v.as_f64()).unwrap_or(f64::NAN);
        let tol = a.get("tol").and_then(|v| v.as_f64()).unwrap_or(f64::NAN);
        let ratio = a.get("ratio").and_then(|v| v.as_f64()).unwrap_or(f64::NAN);
        if a.get("loose").and_then(|v| v.as_bool()) == Some(true) {
            loose += 1;
        }
        let w = worst.entry(call.name()).or_insert(0.0);
        if ratio > *w {
            *w = ratio;
        }
        if !ok {
            ctx.violation(
                format!("true-value:{}", call.name()),
                format!("{} = {} is off the true value by {err:e} (relative), tolerance {tol:e}", call.json(), fx::short(done[i].got.as_ref().unwrap())),
                call.json(),
            );
        }
    }

    // ---- evidence
    let mut per_fn: BTreeMap<&'static str, u64> = BTreeMap::new();
    let mut nontrivial = 0usize;
    let mut matched = 0u64;
    for (c, d) in calls.iter().zip(&done) {
        *per_fn.entry(c.name()).or_default() += 1;
        if d.series_steps >= 1 && d.got.is_some() {
            nontrivial += 1;
        }
        if d.matched {
            matched += 1;
        }
    }
    if per_fn.len() != 3 || answers.len() < calls.len() / 2 {
        mc_core::report::machinery_failure("C15 grid did not exercise exp, ln and pow / true-value oracle starved");
    }
    let samples: Vec<Value> = calls
        .iter()
        .zip(&done)
        .enumerate()
        .filter(|(i, _)| i % (calls.len() / 8).max(1) == 1)
        .take(8)
        .map(|(_, (c, d))| {
            let mut j = c.json();
            j.as_object_mut().unwrap().insert("pallas".into(), json!(d.got.as_ref().map(fx::short)));
            j
        })
        .collect();
    let cov = cov! {
        "evaluations" => calls.len(),
        "distinct_nontrivial" => nontrivial,
        "rule" => "evaluation = one FixedDecimal::{exp,ln,pow} call on a distinct argument (set-deduplicated). exp/ln: mantissas {1,2,3,5,7,9.99..9,1.00..01} x 10^e, e=-30..6 (exp both signs; quick tier keeps only mantissas 1 and 1.0..01 at e=6), 0/1/e/e^k (k=-3..3) and +-1,+-2 ulp neighbours, leader-election shapes x=-sigma*ln(1-f). pow: bases from the same families x 23 exponents (0, +-1ulp .. +-10), negative bases x 11 integral exponents. non-trivial = the reference computation took at least one series / continued-fraction step (not a constant shortcut) and pallas returned a value",
        "samples" => samples,
        "calls_per_function" => per_fn,
        "bit_identical_to_reference" => matched,
        "true_value_checks" => answers.len(),
        "true_value_checks_with_loose_tolerance" => loose,
        "worst_error_over_tolerance_vs_mpmath" => worst,
    };
    ctx.finish(
        Level::Exploration,
        cov,
        &[
            "reference algorithm re-implemented from its description in fx.rs (num-bigint): floor product, truncating quotient, 10^-24 cut-off, 1000-step caps",
            "pow shortcuts of the reference: base 0 -> (y = 0 ? 1 : 0), base 1 -> 1; otherwise exp(floor(y * ln x))",
            "negative bases are not defined by the reference; the check uses (-1)^y * pow(|x|, y) for integral y",
            "true values: mpmath at 120 digits with the tolerance documented in oracles/math_oracle.py",
            "0^negative and ln of non-positive values are outside the grid (no mathematical value)",
        ],
    )
}
