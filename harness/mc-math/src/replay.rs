//! `--replay <file>`: re-run the single pallas call of a recorded case and
//! print what pallas and the independent reference give.

use crate::fx::{self, Fx};
use crate::pal::{dec, raw_of};
use mc_core::{catch, Ctx, Value};
use num_bigint::BigInt;
use pallas_math::math::{FixedDecimal, FixedPrecision};

fn big(v: &Value) -> BigInt {
    v.as_str().and_then(|s| s.parse().ok()).unwrap_or_else(|| mc_core::report::machinery_failure("replay case lacks a raw integer"))
}

fn shown(r: Result<FixedDecimal, mc_core::panics::PanicInfo>) -> String {
    match r {
        Err(p) => format!("PANIC {} at {}", p.message, p.location),
        Ok(d) => match catch(|| raw_of(&d)) {
            Ok(Ok(raw)) if d.precision() == 34 => format!("{} (precision 34)", fx::short(&raw)),
            Ok(Ok(raw)) => format!("{} (precision {})", fx::show(&raw, d.precision() as u32), d.precision()),
            Ok(Err(e)) => format!("<unreadable: {e}>"),
            Err(p) => format!("<to_string PANIC {} at {}>", p.message, p.location),
        },
    }
}

pub fn run(ctx: &Ctx, path: &std::path::Path) -> ! {
    let text = std::fs::read_to_string(path).unwrap_or_else(|e| mc_core::report::machinery_failure(&format!("cannot read {path:?}: {e}")));
    let v: Value = serde_json::from_str(&text).unwrap_or_else(|e| mc_core::report::machinery_failure(&format!("bad replay json: {e}")));
    let c = if v.get("case").is_some() { &v["case"] } else { &v };
    let f = Fx::new();
    match ctx.prop.as_str() {
        "C15" => {
            let x = big(&c["x_raw"]);
            let name = c["fn"].as_str().unwrap_or("");
            let xd = dec(&x, 34);
            match name {
                "exp" => println!("pallas exp = {}\nreference  = {}", shown(catch(move || xd.exp())), fx::short(&f.exp(&x).0)),
                "ln" => println!("pallas ln = {}\nreference = {}", shown(catch(move || xd.ln())), fx::short(&f.ln(&x).0)),
                _ => {
                    let y = big(&c["y_raw"]);
                    let yd = dec(&y, 34);
                    let r = if x < BigInt::from(0) { "n/a (negative base)".to_string() } else { fx::short(&f.pow(&x, &y)) };
                    println!("pallas pow = {}\nreference  = {r}", shown(catch(move || xd.pow(&yd))));
                }
            }
        }
        "C16" => {
            let (x, cmp) = (big(&c["x_raw"]), big(&c["compare_raw"]));
            let (b, m) = (c["bound"].as_i64().unwrap_or(3), c["max_n"].as_u64().unwrap_or(1000));
            let (xd, cd) = (dec(&x, 34), dec(&cmp, 34));
            match catch(move || xd.exp_cmp(m, b, &cd)) {
                Err(p) => println!("PANIC {} at {}", p.message, p.location),
                Ok(r) => println!("pallas exp_cmp = {:?} after {} iterations, approx {}", r.estimation, r.iterations, r.approx),
            }
            let w = f.exp_cmp(m, &x, b, &cmp);
            println!("reference      = {:?} after {} iterations, approx {}", w.est, w.iterations, fx::show(&w.approx, 34));
            println!("reference exp(x) = {} (compare = {})", fx::show(&f.exp(&x).0, 34), fx::show(&cmp, 34));
        }
        _ => {
            if c["part"] == "arith" {
                let (a, b) = (big(&c["a_raw"]), big(&c["b_raw"]));
                let op = c["op"].as_str().unwrap_or("").to_string();
                let (x, y) = (dec(&a, 34), dec(&b, 34));
                if op == "cmp" {
                    println!("partial_cmp = {:?}; exact {:?}", x.partial_cmp(&y), a.cmp(&b));
                } else {
                    let o = op.clone();
                    println!("pallas {op} = {}", shown(catch(move || match o.as_str() {
                        "add" => &x + &y,
                        "sub" => &x - &y,
                        "mul" => &x * &y,
                        _ => &x / &y,
                    })));
                }
            } else {
                let raw = big(&c["raw"]);
                let p = c["precision"].as_u64().unwrap_or(34);
                let x = dec(&raw, p);
                println!("value {} at precision {p}: to_string = {:?}", fx::show(&raw, p as u32), catch(|| x.to_string()).map_err(|e| e.message));
                for op in ["floor", "ceil", "trunc", "round"] {
                    let xx = x.clone();
                    println!("  {op} = {}", shown(catch(move || match op {
                        "floor" => xx.floor(),
                        "ceil" => xx.ceil(),
                        "trunc" => xx.trunc(),
                        _ => xx.round(),
                    })));
                }
            }
        }
    }
    std::process::exit(0)
}
