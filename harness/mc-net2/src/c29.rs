//! C29 — P2P behaviours never panic on peer-driven input.
//! SEQ, no gating at all: every interface event (Connected / Disconnected /
//! Error / Idle / Sent / Recv) with one message per variant of every protocol,
//! valid or not in the current state, in every order, on the REAL initiator
//! (BFS with state dedup) and the REAL responder (complete history tree).

use crate::world::{msg_label, pid, Cfg, Ev, World};
use mc_core::bfs::{self, Outcome};
use mc_core::{cov, json, Ctx, Level, Value};
use pallas_network2::behavior::responder::{ResponderBehavior, ResponderCommand};
use pallas_network2::behavior::AnyMessage;
use pallas_network2::{Behavior, InterfaceError, InterfaceEvent, Message as _, PeerId};
use std::collections::{BTreeMap, BTreeSet};
use std::sync::Mutex;

/// One message per (channel, variant) of every network2 protocol, taken from
/// the mc-proto enumerator and decoded with the real `from_payload`.
pub fn raw_messages() -> Vec<AnyMessage> {
    let chans = [0u16, 2, 3, 4, 8, 10, 18, 19];
    let mut seen = BTreeSet::new();
    let mut out = vec![];
    for (stack, _proto, _variant, bytes) in mc_proto::msgs::all_messages() {
        if stack != "pallas-network2" || bytes.len() > 512 {
            continue;
        }
        for c in chans {
            let mut payload = bytes.clone();
            let r = mc_core::catch(|| AnyMessage::from_payload(c, &mut payload));
            if let Ok(Some(m)) = r {
                if payload.is_empty() && m.payload() == bytes {
                    let label = format!("{c}:{}", msg_label(&m));
                    if seen.insert(label) {
                        out.push(m);
                    }
                }
            }
        }
    }
    // a few messages the enumerator does not contain: the handshake of the
    // behaviour's own version (so that a peer can become Initialized inside a
    // history), a Leios-capable accept, and peer-sharing answers that are far
    // longer than anything the initiator asks for
    use pallas_network2::protocol as proto;
    // peer-chosen values with an order between them: a block range that runs backwards, and one
    // that ends at the origin (the enumerator only has forward ranges)
    let hi = proto::Point::Specific(100, vec![0xaa; 32]);
    let lo = proto::Point::Specific(5, vec![0x05; 32]);
    out.push(AnyMessage::BlockFetch(proto::blockfetch::Message::RequestRange((hi.clone(), lo))));
    out.push(AnyMessage::BlockFetch(proto::blockfetch::Message::RequestRange((hi, proto::Point::Origin))));
    let table = proto::handshake::n2n::VersionTable { values: [(13u64, crate::world::vdata())].into_iter().collect() };
    out.push(AnyMessage::Handshake(proto::handshake::Message::Propose(table)));
    out.push(crate::world::reply_msg(crate::world::R::Accept, 0));
    out.push(crate::world::reply_msg(crate::world::R::AcceptLeios, 0));
    for n in [101u16, 255] {
        let peers = (0..n).map(|i| proto::peersharing::PeerAddress::V4(std::net::Ipv4Addr::new(172, 16, (i >> 8) as u8, i as u8), 3001)).collect();
        out.push(AnyMessage::PeerSharing(proto::peersharing::Message::SharePeers(peers)));
    }
    out.push(AnyMessage::PeerSharing(proto::peersharing::Message::ShareRequest(255)));
    out
}

/// EVERY payload shape of every network2 message in the mc-proto enumerator (not one per
/// variant): boundary values of peer-chosen fields (counts, amounts, slots, cookies, sizes).
pub fn all_payload_shapes() -> Vec<AnyMessage> {
    let chans = [0u16, 2, 3, 4, 8, 10, 18, 19];
    let mut seen = BTreeSet::new();
    let mut out = vec![];
    for (stack, _proto, _variant, bytes) in mc_proto::msgs::all_messages() {
        if stack != "pallas-network2" || bytes.len() > 70_000 {
            continue;
        }
        for c in chans {
            let mut payload = bytes.clone();
            if let Ok(Some(m)) = mc_core::catch(|| AnyMessage::from_payload(c, &mut payload)) {
                if payload.is_empty() && seen.insert((c, bytes.clone())) {
                    out.push(m);
                }
            }
        }
    }
    out
}

fn initiator_events(cfg: &Cfg, nraw: usize) -> Vec<Ev> {
    let mut v = vec![Ev::House, Ev::Idle, Ev::StartSync, Ev::ReqBlocks];
    for p in 0..cfg.peers {
        v.extend([Ev::Include(p), Ev::Ban(p), Ev::Demote(p), Ev::Connected(p), Ev::Disconnected(p), Ev::Error(p), Ev::ContSync(p), Ev::FetchEb(p), Ev::FetchEbTxs(p)]);
    }
    // arbitrary messages on peer 0 (peer 1 provides the cross-peer context)
    for i in 0..nraw {
        v.push(Ev::RawRecv(0, i));
        v.push(Ev::RawSent(0, i));
    }
    v
}

fn is_io(e: &Ev) -> bool {
    matches!(e, Ev::Idle | Ev::Connected(_) | Ev::Disconnected(_) | Ev::Error(_) | Ev::RawRecv(..) | Ev::RawSent(..) | Ev::Sent(_) | Ev::Recv(..))
}

#[derive(Clone, Debug)]
enum REv {
    Connected(u8),
    Disconnected(u8),
    Error(u8),
    Idle,
    Recv(u8, usize),
    Sent(u8, usize),
    RecvTwo(u8, usize, usize),
    /// the application's periodic `Housekeeping` command: it is what applies the bans that
    /// protocol violations and errors (peer-driven) have earned
    House,
}

fn responder_replay(hist: &[REv], raw: &[AnyMessage]) -> Result<usize, (usize, mc_core::panics::PanicInfo)> {
    responder_replay2(hist, raw).map(|x| x.0)
}

/// -> (outputs drained, Disconnect commands among them)
fn responder_replay2(hist: &[REv], raw: &[AnyMessage]) -> Result<(usize, usize), (usize, mc_core::panics::PanicInfo)> {
    let mut b = ResponderBehavior::default();
    let waker = futures::task::noop_waker();
    let mut outputs = 0usize;
    let mut disconnects = 0usize;
    for (i, ev) in hist.iter().enumerate() {
        let r = mc_core::catch(std::panic::AssertUnwindSafe(|| {
            match ev {
                REv::Connected(p) => b.handle_io(InterfaceEvent::Connected(pid(*p))),
                REv::Disconnected(p) => b.handle_io(InterfaceEvent::Disconnected(pid(*p))),
                REv::Error(p) => b.handle_io(InterfaceEvent::Error(pid(*p), InterfaceError::Other("boom".into()))),
                REv::Idle => b.handle_io(InterfaceEvent::Idle),
                REv::Recv(p, m) => b.handle_io(InterfaceEvent::Recv(pid(*p), vec![raw[*m].clone()])),
                REv::Sent(p, m) => b.handle_io(InterfaceEvent::Sent(pid(*p), raw[*m].clone())),
                REv::RecvTwo(p, m, n) => b.handle_io(InterfaceEvent::Recv(pid(*p), vec![raw[*m].clone(), raw[*n].clone()])),
                REv::House => b.execute(ResponderCommand::Housekeeping),
            }
            let mut cx = std::task::Context::from_waker(&waker);
            let mut n = (0, 0);
            for _ in 0..10_000 {
                match futures::StreamExt::poll_next_unpin(&mut b, &mut cx) {
                    std::task::Poll::Ready(Some(o)) => {
                        n.0 += 1;
                        if matches!(o, pallas_network2::BehaviorOutput::InterfaceCommand(pallas_network2::InterfaceCommand::Disconnect(_))) {
                            n.1 += 1;
                        }
                    }
                    _ => break,
                }
            }
            n
        }));
        match r {
            Ok(n) => {
                outputs += n.0;
                disconnects += n.1;
            }
            Err(p) => return Err((i, p)),
        }
    }
    Ok((outputs, disconnects))
}

pub fn run(ctx: Ctx) -> ! {
    let raw = raw_messages();
    if raw.len() < 30 {
        mc_core::report::machinery_failure(&format!("C29: only {} raw messages decoded from the mc-proto enumerator", raw.len()));
    }
    let labels: Vec<String> = raw.iter().map(msg_label).collect();
    // ---------------- initiator: BFS with dedup
    let cfg = Cfg { peers: 2, max_peers: 2, max_warm: 2, max_hot: 1, max_err: 1, leios: true };
    let events = initiator_events(&cfg, raw.len());
    let command_panics: Mutex<BTreeMap<String, String>> = Default::default();
    let (depth, cap) = if ctx.thorough { (5, 1_500_000) } else { (4, 40_000) };
    let raw_ref = &raw;
    let run_i = |hist: &[Ev]| -> Outcome {
        match World::replay(&cfg, hist, raw_ref) {
            Ok(w) => Outcome::State(w.key()),
            Err((i, p)) => {
                let case = json!({"behaviour": "initiator", "history": hist.iter().map(|e| match e { Ev::RawRecv(p, m) => format!("Recv({p}, {})", labels[*m]), Ev::RawSent(p, m) => format!("Sent({p}, {})", labels[*m]), o => format!("{o:?}") }).collect::<Vec<_>>(), "panicking_step": i});
                if is_io(&hist[i]) {
                    ctx.violation(p.site(), format!("initiator panicked in handle_io step {i} of {:?}: {} at {}", case["history"], p.message, p.location), case);
                } else {
                    // a panic inside execute(command) is not peer-driven input: diagnostic
                    command_panics.lock().unwrap().entry(p.site()).or_insert(format!("{:?}", case["history"]));
                }
                Outcome::Violation
            }
        }
    };
    // start from non-initial states too: the empty behaviour, one initialized
    // peer, one initialized Leios-capable peer, two initialized peers
    let find = |needle: &str| labels.iter().rposition(|l| l.starts_with(needle)).unwrap_or(0);
    let (i_prop, i_acc) = (raw.len() - 6, raw.len() - 5);
    let i_accl = raw.len() - 4;
    let _ = find;
    let init_peer = |p: u8, acc: usize| vec![Ev::Include(p), Ev::House, Ev::Connected(p), Ev::RawSent(p, i_prop), Ev::RawRecv(p, acc)];
    let mut prefixes: Vec<(&str, Vec<Ev>, usize)> = vec![("empty", vec![], depth)];
    prefixes.push(("peer 0 initialized", init_peer(0, i_acc), depth - 1));
    prefixes.push(("peer 0 initialized (leios version)", init_peer(0, i_accl), depth - 1));
    let mut both = init_peer(1, i_acc);
    both.extend(init_peer(0, i_acc));
    prefixes.push(("both peers initialized", both, depth - 1));
    // error bookkeeping: a tracked peer that has already reported two errors
    prefixes.push(("peer 0 tracked, two errors reported", vec![Ev::Include(0), Ev::Error(0), Ev::Error(0)], depth - 1));
    prefixes.push(("peer 0 initialized, then two errors", [init_peer(0, i_acc), vec![Ev::Error(0), Ev::Error(0)]].concat(), depth - 1));
    let mut st_i = bfs::Stats::default();
    let mut per_prefix = vec![];
    for (name, pre, d) in &prefixes {
        let pre_ok = World::replay(&cfg, pre, raw_ref);
        let init_key = match &pre_ok {
            Ok(w) => w.key(),
            Err((i, p)) => {
                ctx.violation(p.site(), format!("initiator panicked in step {i} of the prefix {pre:?}: {} at {}", p.message, p.location), json!({"behaviour": "initiator", "prefix": format!("{pre:?}")}));
                continue;
            }
        };
        let st = bfs::explore(
            init_key,
            |_h: &[Ev]| events.clone(),
            |h: &[Ev]| {
                let mut full = pre.clone();
                full.extend(h.iter().cloned());
                run_i(&full)
            },
            &bfs::Config { max_depth: *d, max_states: cap, parallel: true },
        );
        per_prefix.push(json!({"prefix": name, "states": st.states, "transitions": st.transitions, "max_depth": st.max_depth, "capped": st.capped, "new_states_per_depth": st.per_depth_new_states}));
        st_i.states += st.states;
        st_i.transitions += st.transitions;
        st_i.max_depth = st_i.max_depth.max(st.max_depth);
        st_i.capped |= st.capped;
        if st_i.samples.len() < 3 {
            st_i.samples.extend(st.samples.into_iter().take(1));
        }
    }
    // ---------------- responder: complete tree (its connection bookkeeping is private, so no merging)
    let mut revs: Vec<REv> = vec![REv::Idle, REv::House];
    for p in 0..2u8 {
        revs.extend([REv::Connected(p), REv::Disconnected(p), REv::Error(p)]);
    }
    for i in 0..raw.len() {
        revs.push(REv::Recv(0, i));
        revs.push(REv::Sent(0, i));
    }
    // two messages in one Recv (violation on the first must stop the dispatch cleanly)
    for i in (0..raw.len()).step_by(5) {
        revs.push(REv::RecvTwo(0, i, (i + 7) % raw.len()));
    }
    let rdepth = if ctx.thorough { 4 } else { 3 };
    use rayon::prelude::*;
    let total_r: u64 = (revs.len() as u64).pow(rdepth as u32);
    let outs_seen = std::sync::atomic::AtomicU64::new(0);
    let rcount = std::sync::atomic::AtomicU64::new(0);
    // prefix: Connected(0) first makes message events meaningful; also the raw tree from scratch
    let mut prefixes: Vec<Vec<REv>> = vec![vec![], vec![REv::Connected(0)], vec![REv::Connected(0), REv::Recv(0, 0)]];
    // start states behind a ban: peer 0 shakes hands, violates keep-alive (a response nobody
    // asked for), housekeeping bans it and asks for the disconnect; with and without the
    // Disconnected notice delivered
    let i_bad = labels.iter().position(|l| l.starts_with("KeepAlive(ResponseKeepAlive")).unwrap_or_else(|| mc_core::report::machinery_failure("C29: no keep-alive response among the raw messages"));
    let banned = vec![REv::Connected(0), REv::Recv(0, i_prop), REv::Recv(0, i_bad), REv::House];
    match responder_replay2(&banned, raw_ref) {
        Ok((_, d)) if d >= 1 => {}
        Ok(_) => mc_core::report::machinery_failure("C29: the ban prefix does not make the responder disconnect the violating peer (vacuous start state)"),
        Err((i, p)) => ctx.violation(p.site(), format!("responder panicked in step {i} of the ban prefix: {} at {}", p.message, p.location), json!({"behaviour": "responder", "history": format!("{banned:?}"), "panicking_step": i})),
    }
    prefixes.push(banned.clone());
    prefixes.push([banned, vec![REv::Disconnected(0)]].concat());
    let n = revs.len();
    let house_panics: Mutex<BTreeMap<String, String>> = Default::default();
    (0..total_r).into_par_iter().for_each(|code| {
        let mut c = code;
        let mut tail = vec![];
        for _ in 0..rdepth {
            tail.push(revs[(c % n as u64) as usize].clone());
            c /= n as u64;
        }
        for (pi, pre) in prefixes.iter().enumerate() {
            // the two start states behind a ban get the complete tree of depth 3 in both tiers
            let t: &[REv] = if pi >= 3 && rdepth > 3 {
                if code / (n as u64).pow(3) != 0 {
                    continue;
                }
                &tail[..3]
            } else {
                &tail[..]
            };
            let mut h = pre.clone();
            h.extend(t.iter().cloned());
            rcount.fetch_add(1, std::sync::atomic::Ordering::Relaxed);
            match responder_replay(&h, raw_ref) {
                Ok(o) => {
                    outs_seen.fetch_add(o as u64, std::sync::atomic::Ordering::Relaxed);
                }
                Err((i, p)) => {
                    let hs: Vec<String> = h.iter().map(|e| match e { REv::Recv(p, m) => format!("Recv({p}, {})", labels[*m]), REv::Sent(p, m) => format!("Sent({p}, {})", labels[*m]), REv::RecvTwo(p, m, k) => format!("Recv({p}, [{}, {}])", labels[*m], labels[*k]), o => format!("{o:?}") }).collect();
                    if matches!(h[i], REv::House) {
                        // same rule as for the initiator: a panic inside execute(command) is a diagnostic
                        house_panics.lock().unwrap().entry(p.site()).or_insert(format!("{hs:?}"));
                    } else {
                        ctx.violation(p.site(), format!("responder panicked in step {i} of {hs:?}: {} at {}", p.message, p.location), json!({"behaviour": "responder", "history": hs, "panicking_step": i}));
                    }
                }
            }
        }
    });
    // ---------------- responder with a configured (non-default, non-contiguous) version table:
    // every proposal over version numbers 10..=15 (all 64 subsets) x four responder tables,
    // Connected -> Recv(Propose) -> Housekeeping -> Recv(keep-alive) -> Disconnected
    let hs_grid = {
        use pallas_network2::behavior::responder::handshake::{HandshakeResponder, HandshakeResponderConfig};
        use pallas_network2::protocol::handshake as hs;
        let tables: [&[u64]; 4] = [&[13], &[11, 13, 14], &[11, 14], &[12, 13, 14, 15]];
        let mk = |vs: &[u64]| hs::n2n::VersionTable { values: vs.iter().map(|v| (*v, crate::world::vdata())).collect() };
        let mut n = 0u64;
        for t in tables {
            for mask in 0u32..64 {
                let proposal: Vec<u64> = (0..6).filter(|i| mask >> i & 1 == 1).map(|i| 10 + i as u64).collect();
                let r = mc_core::catch(std::panic::AssertUnwindSafe(|| {
                    let mut b = ResponderBehavior::default();
                    b.handshake = HandshakeResponder::new(HandshakeResponderConfig { supported_version: mk(t) });
                    let waker = futures::task::noop_waker();
                    let mut cx = std::task::Context::from_waker(&waker);
                    let mut step = |b: &mut ResponderBehavior, ev: Option<InterfaceEvent<AnyMessage>>| {
                        match ev {
                            Some(e) => b.handle_io(e),
                            None => b.execute(ResponderCommand::Housekeeping),
                        }
                        while let std::task::Poll::Ready(Some(_)) = futures::StreamExt::poll_next_unpin(b, &mut cx) {}
                    };
                    step(&mut b, Some(InterfaceEvent::Connected(pid(0))));
                    step(&mut b, Some(InterfaceEvent::Recv(pid(0), vec![AnyMessage::Handshake(hs::Message::Propose(mk(&proposal)))])));
                    step(&mut b, None);
                    step(&mut b, Some(InterfaceEvent::Recv(pid(0), vec![AnyMessage::KeepAlive(pallas_network2::protocol::keepalive::Message::KeepAlive(1))])));
                    step(&mut b, Some(InterfaceEvent::Disconnected(pid(0))));
                }));
                n += 1;
                if let Err(p) = r {
                    ctx.violation(
                        p.site(),
                        format!("responder with version table {t:?} panicked on Propose({proposal:?}): {} at {}", p.message, p.location),
                        json!({"behaviour": "responder", "responder_versions": t, "proposal": proposal}),
                    );
                }
            }
        }
        n
    };
    // ---------------- responder connection bookkeeping: three connections from ONE host against
    // a per-IP limit of 1 or 2 and an error threshold of 0 or 1; the complete tree over
    // Connected / Disconnected / Error per connection, Housekeeping, and a violating / a valid
    // first message on connection 0
    let conn_grid = {
        use pallas_network2::behavior::responder::connection::{ConnectionResponder, ConnectionResponderConfig};
        let same_host = |p: u8| PeerId { host: "10.9.9.9".into(), port: 4000 + p as u16 };
        #[derive(Clone, Copy, Debug)]
        enum C {
            Conn(u8),
            Disc(u8),
            Err(u8),
            House,
            Bad,
            Propose,
        }
        let mut alpha = vec![C::House, C::Bad, C::Propose];
        for p in 0..3u8 {
            alpha.extend([C::Conn(p), C::Disc(p), C::Err(p)]);
        }
        let depth = if ctx.thorough { 6 } else { 5 };
        let na = alpha.len() as u64;
        let total = na.pow(depth as u32);
        let bad = raw[i_bad].clone();
        let prop = raw[i_prop].clone();
        let count = std::sync::atomic::AtomicU64::new(0);
        for (limit, max_err) in [(1usize, 1u32), (2, 0), (2, 1)] {
            (0..total).into_par_iter().for_each(|code| {
                let mut c = code;
                let mut h = vec![];
                for _ in 0..depth {
                    h.push(alpha[(c % na) as usize]);
                    c /= na;
                }
                let r = mc_core::catch(std::panic::AssertUnwindSafe(|| {
                    let mut b = ResponderBehavior::default();
                    b.connection = ConnectionResponder::new(ConnectionResponderConfig { max_error_count: max_err, max_connections_per_ip: limit });
                    let waker = futures::task::noop_waker();
                    let mut cx = std::task::Context::from_waker(&waker);
                    for (i, e) in h.iter().enumerate() {
                        let step = mc_core::catch(std::panic::AssertUnwindSafe(|| {
                            match e {
                                C::Conn(p) => b.handle_io(InterfaceEvent::Connected(same_host(*p))),
                                C::Disc(p) => b.handle_io(InterfaceEvent::Disconnected(same_host(*p))),
                                C::Err(p) => b.handle_io(InterfaceEvent::Error(same_host(*p), InterfaceError::Other("boom".into()))),
                                C::House => b.execute(ResponderCommand::Housekeeping),
                                C::Bad => b.handle_io(InterfaceEvent::Recv(same_host(0), vec![bad.clone()])),
                                C::Propose => b.handle_io(InterfaceEvent::Recv(same_host(0), vec![prop.clone()])),
                            }
                            while let std::task::Poll::Ready(Some(_)) = futures::StreamExt::poll_next_unpin(&mut b, &mut cx) {}
                        }));
                        if let Err(p) = step {
                            return Some((i, p));
                        }
                    }
                    None
                }));
                count.fetch_add(1, std::sync::atomic::Ordering::Relaxed);
                let hit = match r {
                    Ok(x) => x,
                    Err(p) => Some((usize::MAX, p)),
                };
                if let Some((i, p)) = hit {
                    let hs: Vec<String> = h.iter().map(|e| format!("{e:?}")).collect();
                    if i < h.len() && matches!(h[i], C::House) {
                        house_panics.lock().unwrap().entry(p.site()).or_insert(format!("{hs:?}"));
                    } else {
                        ctx.violation(
                            p.site(),
                            format!("responder (max_connections_per_ip {limit}, max_error_count {max_err}, three connections from one host) panicked in step {i} of {hs:?}: {} at {}", p.message, p.location),
                            json!({"behaviour": "responder", "family": "connections-from-one-host", "max_connections_per_ip": limit, "max_error_count": max_err, "history": hs, "panicking_step": i}),
                        );
                    }
                }
            });
        }
        (count.into_inner(), depth)
    };
    // ---------------- payload sweep: every payload shape of every message, delivered to an
    // initialized peer of the responder and of the initiator (twice, with housekeeping between)
    let sweep = {
        let shapes = all_payload_shapes();
        if shapes.len() < 100 {
            mc_core::report::machinery_failure(&format!("C29: only {} payload shapes from the mc-proto enumerator", shapes.len()));
        }
        let prop = raw[i_prop].clone();
        let acc = raw[i_acc].clone();
        let n = std::sync::atomic::AtomicU64::new(0);
        shapes.par_iter().for_each(|m| {
            let label = format!("{}:{}", m.channel(), msg_label(m));
            // responder
            let r = mc_core::catch(std::panic::AssertUnwindSafe(|| {
                let mut b = ResponderBehavior::default();
                let waker = futures::task::noop_waker();
                let mut cx = std::task::Context::from_waker(&waker);
                let mut step = |b: &mut ResponderBehavior, ev: Option<InterfaceEvent<AnyMessage>>| {
                    match ev {
                        Some(e) => b.handle_io(e),
                        None => b.execute(ResponderCommand::Housekeeping),
                    }
                    while let std::task::Poll::Ready(Some(_)) = futures::StreamExt::poll_next_unpin(b, &mut cx) {}
                };
                step(&mut b, Some(InterfaceEvent::Connected(pid(0))));
                step(&mut b, Some(InterfaceEvent::Recv(pid(0), vec![prop.clone()])));
                step(&mut b, Some(InterfaceEvent::Recv(pid(0), vec![m.clone()])));
                step(&mut b, None);
                step(&mut b, Some(InterfaceEvent::Recv(pid(0), vec![m.clone()])));
                step(&mut b, Some(InterfaceEvent::Sent(pid(0), m.clone())));
                step(&mut b, Some(InterfaceEvent::Disconnected(pid(0))));
            }));
            n.fetch_add(1, std::sync::atomic::Ordering::Relaxed);
            if let Err(p) = r {
                ctx.violation(p.site(), format!("responder panicked on payload shape {label} ({} bytes) delivered to an initialized peer: {} at {}", m.payload().len(), p.message, p.location), json!({"behaviour": "responder", "family": "payload-sweep", "message": label, "payload_hex": hex::encode(m.payload())}));
            }
            // initiator (leios-capable and plain accept)
            for accept in [acc.clone(), raw[i_accl].clone()] {
                let list = vec![prop.clone(), accept, m.clone()];
                let hist = vec![Ev::Include(0), Ev::House, Ev::Connected(0), Ev::RawSent(0, 0), Ev::RawRecv(0, 1), Ev::RawRecv(0, 2), Ev::House, Ev::RawRecv(0, 2), Ev::RawSent(0, 2), Ev::Disconnected(0)];
                n.fetch_add(1, std::sync::atomic::Ordering::Relaxed);
                if let Err((i, p)) = World::replay(&cfg, &hist, &list) {
                    if is_io(&hist[i]) {
                        ctx.violation(p.site(), format!("initiator panicked in step {i} of the payload sweep with {label} ({} bytes): {} at {}", m.payload().len(), p.message, p.location), json!({"behaviour": "initiator", "family": "payload-sweep", "message": label, "payload_hex": hex::encode(m.payload()), "panicking_step": i}));
                    }
                }
            }
        });
        (shapes.len(), n.into_inner())
    };
    let rcount = rcount.into_inner();
    let mut cp = command_panics.into_inner().unwrap();
    cp.extend(house_panics.into_inner().unwrap());
    for (site, h) in &cp {
        ctx.note(format!("diagnostic (not peer-driven): panic inside execute(command): {site}; history {h}"));
    }
    let samples: Vec<Value> = st_i.samples.iter().take(3).map(|s| json!({"behaviour": "initiator", "history": s})).chain(std::iter::once(json!({"behaviour": "responder", "history": ["Connected(0)", format!("Recv(0, {})", labels[3]), "Idle", "Disconnected(0)"]}))).collect();
    let cov = cov! {
        "states" => st_i.states as u64 + rcount,
        "transitions" => st_i.transitions as u64 + rcount * (rdepth as u64),
        "traces_validated_against_impl" => st_i.transitions as u64 + rcount,
        "samples" => samples,
        "initiator" => json!({"states": st_i.states, "transitions": st_i.transitions, "max_depth": st_i.max_depth, "capped": st_i.capped, "fixpoint": st_i.fixpoint, "per_prefix": per_prefix, "events_in_alphabet": events.len()}),
        "responder_connection_tree" => json!({"histories": conn_grid.0, "tree_depth": conn_grid.1, "configurations": "(max_connections_per_ip, max_error_count) in {(1,1), (2,0), (2,1)}", "alphabet": "Connected / Disconnected / Error for three connections from one host, Housekeeping, a keep-alive violation and a version proposal on connection 0"}),
        "payload_sweep" => json!({"payload_shapes": sweep.0, "histories": sweep.1, "rule": "every payload shape of every network2 message of the mc-proto enumerator (<= 70 kB), delivered twice (housekeeping in between) and confirmed once as Sent, to an initialized peer of the responder and of the initiator (plain and leios accept)"}),
        "responder_handshake_grid" => json!({"histories": hs_grid, "responder_version_tables": [[13], [11, 13, 14], [11, 14], [12, 13, 14, 15]], "proposals": "every subset of versions 10..=15"}),
        "responder" => json!({"histories": rcount, "tree_depth": rdepth, "tree_depth_behind_ban_prefixes": 3, "prefixes": prefixes.len(), "events_in_alphabet": revs.len(), "outputs_drained": outs_seen.into_inner()}),
        "raw_messages" => labels,
        "distinct_outcomes" => st_i.states,
        "rule" => "initiator: BFS over histories of the real InitiatorBehavior, every state x every event of an ungated alphabet (2 peers; arbitrary messages of all 8 protocols as Recv and as Sent on peer 0), state = canonical fingerprint incl. private sub-behaviour state (hook H4); responder: the complete tree of histories of the stated depth behind three prefixes, no merging; outputs drained after every step",
    };
    ctx.finish(
        Level::ModelChecking,
        cov,
        &[
            "a panic inside execute(application command) is recorded as a diagnostic, not as a violation: the property speaks of interface events",
            "one payload per message variant; depth-bounded",
        ],
    )
}
