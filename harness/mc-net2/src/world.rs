//! A closed world around the REAL `InitiatorBehavior`: the harness plays the
//! application (commands) and the network interface (events). A state is the
//! event history that reaches it: `World::replay` builds a fresh behaviour and
//! re-executes the history, draining and interpreting the outputs after every
//! step (Connect / Send / Disconnect requests feed the environment model).

use mc_core::panics::PanicInfo;
use pallas_network2::behavior::{AnyMessage, InitiatorBehavior, InitiatorCommand, PromotionBehavior, PromotionConfig};
use pallas_network2::protocol as proto;
use pallas_network2::{Behavior, BehaviorOutput, InterfaceCommand, InterfaceError, InterfaceEvent, PeerId};
use std::collections::{BTreeSet, VecDeque};

pub fn pid(i: u8) -> PeerId {
    PeerId { host: format!("10.0.0.{}", i + 1), port: 3001 }
}

pub fn pidx(p: &PeerId) -> Option<u8> {
    p.host.strip_prefix("10.0.0.").and_then(|s| s.parse::<u8>().ok()).map(|x| x - 1)
}

/// Replies / inbound messages the environment can deliver.
#[derive(Clone, Copy, Debug, PartialEq, Eq, Hash, PartialOrd, Ord)]
pub enum R {
    Accept,
    AcceptLeios,
    /// version accepted with `peer_sharing = 0` (PeerSharingDisabled): the responder does not
    /// run the peer-sharing mini-protocol on this connection
    AcceptNoSharing,
    Refuse,
    KeepAliveResp,
    SharePeersNone,
    SharePeersNew,
    IntersectFound,
    IntersectNotFound,
    RollForward,
    RollBackward,
    AwaitReply,
    NoBlocks,
    StartBatch,
    Block,
    BatchDone,
    LeiosOffer,
    LeiosBlock,
    LeiosBlockTxs,
    /// a message the peer may not send now (keep-alive response out of the blue)
    Bad,
}

#[derive(Clone, Debug, PartialEq, Eq, Hash, PartialOrd, Ord)]
pub enum Ev {
    Include(u8),
    Ban(u8),
    Demote(u8),
    House,
    Idle,
    StartSync,
    ReqBlocks,
    ContSync(u8),
    FetchEb(u8),
    FetchEbTxs(u8),
    Connected(u8),
    Disconnected(u8),
    Error(u8),
    /// confirm the oldest unconfirmed send of the peer
    Sent(u8),
    Recv(u8, R),
    /// ungated raw events (C29): any message as inbound / as confirmed outbound
    RawRecv(u8, usize),
    RawSent(u8, usize),
}

pub fn tip() -> proto::chainsync::Tip {
    proto::chainsync::Tip(proto::Point::Specific(100, vec![0xaa; 32]), 100)
}
pub fn point() -> proto::Point {
    proto::Point::Specific(7, vec![0x07; 32])
}
pub fn vdata() -> proto::handshake::n2n::VersionData {
    proto::handshake::n2n::VersionData::new(proto::MAINNET_MAGIC, false, Some(1), Some(false))
}

pub fn reply_msg(r: R, cookie: u16) -> AnyMessage {
    use proto::*;
    match r {
        R::Accept => AnyMessage::Handshake(handshake::Message::Accept(13, vdata())),
        R::AcceptNoSharing => AnyMessage::Handshake(handshake::Message::Accept(13, handshake::n2n::VersionData::new(MAINNET_MAGIC, false, Some(0), Some(false)))),
        R::AcceptLeios => AnyMessage::Handshake(handshake::Message::Accept(handshake::n2n::LEIOS_MIN_VERSION, vdata())),
        R::Refuse => AnyMessage::Handshake(handshake::Message::Refuse(handshake::RefuseReason::VersionMismatch(vec![7]))),
        R::KeepAliveResp | R::Bad => AnyMessage::KeepAlive(keepalive::Message::ResponseKeepAlive(cookie)),
        R::SharePeersNone => AnyMessage::PeerSharing(peersharing::Message::SharePeers(vec![])),
        R::SharePeersNew => AnyMessage::PeerSharing(peersharing::Message::SharePeers(vec![
            peersharing::PeerAddress::V4(std::net::Ipv4Addr::new(10, 0, 0, 2), 3001),
            peersharing::PeerAddress::V4(std::net::Ipv4Addr::new(10, 0, 0, 3), 3001),
        ])),
        R::IntersectFound => AnyMessage::ChainSync(chainsync::Message::IntersectFound(point(), tip())),
        R::IntersectNotFound => AnyMessage::ChainSync(chainsync::Message::IntersectNotFound(tip())),
        R::RollForward => AnyMessage::ChainSync(chainsync::Message::RollForward(chainsync::HeaderContent { variant: 1, byron_prefix: None, cbor: vec![0xbe; 8] }, tip())),
        R::RollBackward => AnyMessage::ChainSync(chainsync::Message::RollBackward(point(), tip())),
        R::AwaitReply => AnyMessage::ChainSync(chainsync::Message::AwaitReply),
        R::NoBlocks => AnyMessage::BlockFetch(blockfetch::Message::NoBlocks),
        R::StartBatch => AnyMessage::BlockFetch(blockfetch::Message::StartBatch),
        R::Block => AnyMessage::BlockFetch(blockfetch::Message::Block(vec![1, 2, 3])),
        R::BatchDone => AnyMessage::BlockFetch(blockfetch::Message::BatchDone),
        R::LeiosOffer => AnyMessage::LeiosNotify(leiosnotify::Message::BlockOffer(point(), 10)),
        R::LeiosBlock => AnyMessage::LeiosFetch(leiosfetch::Message::Block(AnyCbor::from_encode(1u8))),
        R::LeiosBlockTxs => AnyMessage::LeiosFetch(leiosfetch::Message::BlockTxs { point: point(), bitmaps: leiosfetch::Bitmaps::all(1), txs: vec![AnyCbor::from_encode(2u8)] }),
    }
}

/// Independent client-side specification tracker of the protocols the
/// initiator speaks (Ouroboros network spec state machines; see DESIGN.md
/// appendix A). `None` in a field = protocol terminated (Done).
#[derive(Clone, Debug, PartialEq, Eq, Hash, Default)]
pub struct Spec {
    pub hs: u8,  // 0 Propose 1 Confirm 2 Done
    pub ka: u8,  // 0 Client 1 Server 2 Done
    pub ps: u8,  // 0 Idle 1 Busy 2 Done
    pub cs: u8,  // 0 Idle 1 CanAwait 2 MustReply 3 Intersect 4 Done
    pub bf: u8,  // 0 Idle 1 Busy 2 Streaming 3 Done
    pub ln: u8,  // 0 Idle 1 Busy 2 Done
    pub lf: u8,  // 0 Idle 1 AwaitingBlock 2 AwaitingBlockTxs 3 Done
    pub tx: u8,  // 0 Init (client agency) ...
    /// the responder accepted the version with peer sharing disabled: mini-protocol 10 does
    /// not exist on this connection
    pub ps_off: bool,
    /// the responder refused the proposal: the connection carries no mini-protocol at all
    pub refused: bool,
}

impl Spec {
    /// Apply a message sent by the CLIENT (the initiator). Err = the
    /// specification does not let the client send it now.
    pub fn client_sends(&mut self, m: &AnyMessage) -> Result<(), String> {
        use proto::*;
        let bad = |p: &str, st: u8| Err(format!("{p}: client may not send this message in state #{st}"));
        if self.refused && !matches!(m, AnyMessage::Handshake(_)) {
            return Err("the responder refused the handshake: no mini-protocol may be spoken on this connection".into());
        }
        match m {
            AnyMessage::Handshake(handshake::Message::Propose(_)) if self.hs == 0 => self.hs = 1,
            AnyMessage::Handshake(_) => return bad("handshake", self.hs),
            AnyMessage::KeepAlive(keepalive::Message::KeepAlive(_)) if self.ka == 0 => self.ka = 1,
            AnyMessage::KeepAlive(keepalive::Message::Done) if self.ka == 0 => self.ka = 2,
            AnyMessage::KeepAlive(_) => return bad("keepalive", self.ka),
            AnyMessage::PeerSharing(_) if self.ps_off => {
                return Err("peersharing: the responder accepted the connection with peer sharing disabled (peer_sharing = 0); the mini-protocol must not be spoken".into())
            }
            AnyMessage::PeerSharing(peersharing::Message::ShareRequest(_)) if self.ps == 0 => self.ps = 1,
            AnyMessage::PeerSharing(peersharing::Message::Done) if self.ps == 0 => self.ps = 2,
            AnyMessage::PeerSharing(_) => return bad("peersharing", self.ps),
            AnyMessage::ChainSync(chainsync::Message::RequestNext) if self.cs == 0 => self.cs = 1,
            AnyMessage::ChainSync(chainsync::Message::FindIntersect(_)) if self.cs == 0 => self.cs = 3,
            AnyMessage::ChainSync(chainsync::Message::Done) if self.cs == 0 => self.cs = 4,
            AnyMessage::ChainSync(_) => return bad("chainsync", self.cs),
            AnyMessage::BlockFetch(blockfetch::Message::RequestRange(_)) if self.bf == 0 => self.bf = 1,
            AnyMessage::BlockFetch(blockfetch::Message::ClientDone) if self.bf == 0 => self.bf = 3,
            AnyMessage::BlockFetch(_) => return bad("blockfetch", self.bf),
            AnyMessage::LeiosNotify(leiosnotify::Message::RequestNext) if self.ln == 0 => self.ln = 1,
            AnyMessage::LeiosNotify(leiosnotify::Message::Done) if self.ln == 0 => self.ln = 2,
            AnyMessage::LeiosNotify(_) => return bad("leiosnotify", self.ln),
            AnyMessage::LeiosFetch(leiosfetch::Message::BlockRequest(_)) if self.lf == 0 => self.lf = 1,
            AnyMessage::LeiosFetch(leiosfetch::Message::BlockTxsRequest(..)) if self.lf == 0 => self.lf = 2,
            AnyMessage::LeiosFetch(leiosfetch::Message::Done) if self.lf == 0 => self.lf = 3,
            AnyMessage::LeiosFetch(_) => return bad("leiosfetch", self.lf),
            AnyMessage::TxSubmission(txsubmission::Message::Init) if self.tx == 0 => self.tx = 1,
            AnyMessage::TxSubmission(_) => return bad("txsubmission", self.tx),
        }
        Ok(())
    }

    /// Replies a conformant responder may send now (server agency), given the
    /// requests it has RECEIVED so far.
    pub fn server_choices(&self, leios: bool) -> Vec<R> {
        let mut v = vec![];
        if self.hs == 1 {
            v.extend([R::Accept, R::AcceptNoSharing, R::Refuse]);
            if leios {
                v.push(R::AcceptLeios);
            }
        }
        if self.ka == 1 {
            v.push(R::KeepAliveResp);
        }
        if self.ps == 1 {
            v.extend([R::SharePeersNone, R::SharePeersNew]);
        }
        match self.cs {
            1 => v.extend([R::RollForward, R::RollBackward, R::AwaitReply]),
            2 => v.extend([R::RollForward, R::RollBackward]),
            3 => v.extend([R::IntersectFound, R::IntersectNotFound]),
            _ => {}
        }
        match self.bf {
            1 => v.extend([R::NoBlocks, R::StartBatch]),
            2 => v.extend([R::Block, R::BatchDone]),
            _ => {}
        }
        if self.ln == 1 {
            v.push(R::LeiosOffer);
        }
        if self.lf == 1 {
            v.push(R::LeiosBlock);
        }
        if self.lf == 2 {
            v.push(R::LeiosBlockTxs);
        }
        v
    }

    pub fn server_sends(&mut self, r: R) {
        match r {
            R::Accept | R::AcceptLeios => self.hs = 2,
            R::Refuse => {
                self.hs = 2;
                self.refused = true;
            }
            R::AcceptNoSharing => {
                self.hs = 2;
                self.ps_off = true;
            }
            R::KeepAliveResp => self.ka = 0,
            R::SharePeersNone | R::SharePeersNew => self.ps = 0,
            R::IntersectFound | R::IntersectNotFound | R::RollForward | R::RollBackward => self.cs = 0,
            R::AwaitReply => self.cs = 2,
            R::NoBlocks | R::BatchDone => self.bf = 0,
            R::StartBatch => self.bf = 2,
            R::Block => {}
            R::LeiosOffer => self.ln = 0,
            R::LeiosBlock | R::LeiosBlockTxs => self.lf = 0,
            R::Bad => {}
        }
    }
}

#[derive(Clone, Debug, Default)]
pub struct PeerEnv {
    pub pending_connect: bool,
    pub connected: bool,
    pub pending_disconnect: bool,
    /// sends emitted by the behaviour, not yet confirmed (wire order)
    pub unconfirmed: VecDeque<AnyMessage>,
    /// spec state in wire (emission) order
    pub wire: Spec,
    /// spec state as seen by the responder (requests delivered)
    pub delivered: Spec,
    pub last_cookie: u16,
}

#[derive(Clone, Debug)]
pub struct Cfg {
    pub peers: u8,
    pub max_peers: usize,
    pub max_warm: usize,
    pub max_hot: usize,
    pub max_err: u32,
    pub leios: bool,
}

#[allow(dead_code)]
#[derive(Debug, Clone)]
pub enum Out {
    Connect(u8),
    Disconnect(u8),
    Send(u8, String),
    Event(String),
    Other(String),
}

pub struct World {
    pub cfg: Cfg,
    pub b: InitiatorBehavior,
    pub env: Vec<PeerEnv>,
    /// peers that were banned at some point (monitor of C27)
    pub banned_ever: BTreeSet<u8>,
    /// outputs of the last step
    pub last_out: Vec<Out>,
    /// protocol violations by the initiator noticed at emission time (C28)
    pub violations: Vec<(u8, String, String)>,
    /// for each entry of `violations`: an earlier message on the same mini-protocol to the same
    /// peer was emitted in the SAME step (two requests in one pass, no confirmation involved)
    pub violations_same_pass: Vec<bool>,
    /// Connect(p) emitted for a peer banned earlier (C27)
    pub connect_after_ban: Vec<u8>,
    pub steps: usize,
}

pub fn drain(b: &mut InitiatorBehavior) -> Vec<BehaviorOutput<InitiatorBehavior>> {
    let waker = futures::task::noop_waker();
    let mut cx = std::task::Context::from_waker(&waker);
    let mut v = vec![];
    for _ in 0..10_000 {
        match futures::StreamExt::poll_next_unpin(b, &mut cx) {
            std::task::Poll::Ready(Some(o)) => v.push(o),
            _ => break,
        }
    }
    v
}

impl World {
    pub fn new(cfg: Cfg) -> World {
        let b = InitiatorBehavior {
            promotion: PromotionBehavior::new(PromotionConfig { max_peers: cfg.max_peers, max_warm_peers: cfg.max_warm, max_hot_peers: cfg.max_hot, max_error_count: cfg.max_err }),
            ..Default::default()
        };
        let env = vec![PeerEnv::default(); cfg.peers as usize];
        World { cfg, b, env, banned_ever: BTreeSet::new(), last_out: vec![], violations: vec![], violations_same_pass: vec![], connect_after_ban: vec![], steps: 0 }
    }

    /// Replays a history on a fresh world. A panic inside the behaviour is
    /// returned with the index of the step it happened in.
    pub fn replay(cfg: &Cfg, hist: &[Ev], raw: &[AnyMessage]) -> Result<World, (usize, PanicInfo)> {
        let mut w = World::new(cfg.clone());
        for (i, ev) in hist.iter().enumerate() {
            let r = mc_core::catch(std::panic::AssertUnwindSafe(|| w.step(ev, raw)));
            if let Err(p) = r {
                return Err((i, p));
            }
        }
        Ok(w)
    }

    pub fn step(&mut self, ev: &Ev, raw: &[AnyMessage]) {
        self.steps += 1;
        let banned_before = self.banned_ever.clone();
        match ev {
            Ev::Include(p) => self.b.execute(InitiatorCommand::IncludePeer(pid(*p))),
            Ev::Ban(p) => {
                // an explicit ban of a peer the initiator tracks
                if self.b.peers.contains_key(&pid(*p)) {
                    self.banned_ever.insert(*p);
                }
                self.b.execute(InitiatorCommand::BanPeer(pid(*p)))
            }
            Ev::Demote(p) => self.b.execute(InitiatorCommand::DemotePeer(pid(*p))),
            Ev::House => self.b.execute(InitiatorCommand::Housekeeping),
            Ev::Idle => self.b.handle_io(InterfaceEvent::Idle),
            Ev::StartSync => self.b.execute(InitiatorCommand::StartSync(vec![point()])),
            Ev::ReqBlocks => self.b.execute(InitiatorCommand::RequestBlocks((point(), point()))),
            Ev::ContSync(p) => self.b.execute(InitiatorCommand::ContinueSync(pid(*p))),
            Ev::FetchEb(p) => self.b.execute(InitiatorCommand::FetchEb(pid(*p), point())),
            Ev::FetchEbTxs(p) => self.b.execute(InitiatorCommand::FetchEbTxs(pid(*p), point(), proto::leiosfetch::Bitmaps::all(1))),
            Ev::Connected(p) => {
                let e = &mut self.env[*p as usize];
                e.pending_connect = false;
                e.connected = true;
                e.wire = Spec::default();
                e.delivered = Spec::default();
                e.unconfirmed.clear();
                self.b.handle_io(InterfaceEvent::Connected(pid(*p)))
            }
            Ev::Disconnected(p) => {
                let e = &mut self.env[*p as usize];
                e.connected = false;
                e.pending_disconnect = false;
                e.pending_connect = false;
                e.unconfirmed.clear();
                e.wire = Spec::default();
                e.delivered = Spec::default();
                self.b.handle_io(InterfaceEvent::Disconnected(pid(*p)))
            }
            Ev::Error(p) => {
                let e = &mut self.env[*p as usize];
                e.pending_connect = false;
                self.b.handle_io(InterfaceEvent::Error(pid(*p), InterfaceError::Other("boom".into())))
            }
            Ev::Sent(p) => {
                let e = &mut self.env[*p as usize];
                if let Some(m) = e.unconfirmed.pop_front() {
                    let _ = e.delivered.client_sends(&m);
                    self.b.handle_io(InterfaceEvent::Sent(pid(*p), m))
                }
            }
            Ev::Recv(p, r) => {
                // independent ban monitor (C27): an unsolicited keep-alive response to a tracked
                // peer that has no keep-alive outstanding at all (or no connection) is a protocol
                // violation whatever the initiator's own bookkeeping says: the peer is banned from
                // here on
                if *r == R::Bad && self.b.peers.contains_key(&pid(*p)) {
                    let e = &self.env[*p as usize];
                    if !e.connected || (e.wire.ka != 1 && e.delivered.ka != 1) {
                        self.banned_ever.insert(*p);
                    }
                }
                let e = &mut self.env[*p as usize];
                let m = reply_msg(*r, e.last_cookie);
                e.wire.server_sends(*r);
                e.delivered.server_sends(*r);
                self.b.handle_io(InterfaceEvent::Recv(pid(*p), vec![m]))
            }
            Ev::RawRecv(p, i) => self.b.handle_io(InterfaceEvent::Recv(pid(*p), vec![raw[*i].clone()])),
            Ev::RawSent(p, i) => self.b.handle_io(InterfaceEvent::Sent(pid(*p), raw[*i].clone())),
        }
        // interpret what the behaviour asks for
        self.last_out.clear();
        let mut sent_this_step: Vec<(u8, u16)> = vec![];
        for o in drain(&mut self.b) {
            match o {
                BehaviorOutput::InterfaceCommand(InterfaceCommand::Connect(p)) => match pidx(&p) {
                    Some(i) if (i as usize) < self.env.len() => {
                        self.env[i as usize].pending_connect = true;
                        if banned_before.contains(&i) {
                            self.connect_after_ban.push(i);
                        }
                        self.last_out.push(Out::Connect(i));
                    }
                    _ => self.last_out.push(Out::Other(format!("Connect({p})"))),
                },
                BehaviorOutput::InterfaceCommand(InterfaceCommand::Disconnect(p)) => match pidx(&p) {
                    Some(i) if (i as usize) < self.env.len() => {
                        self.env[i as usize].pending_disconnect = true;
                        self.last_out.push(Out::Disconnect(i));
                    }
                    _ => self.last_out.push(Out::Other(format!("Disconnect({p})"))),
                },
                BehaviorOutput::InterfaceCommand(InterfaceCommand::Send(p, m)) => match pidx(&p) {
                    Some(i) if (i as usize) < self.env.len() => {
                        let e = &mut self.env[i as usize];
                        if let AnyMessage::KeepAlive(proto::keepalive::Message::KeepAlive(c)) = &m {
                            e.last_cookie = *c;
                        }
                        let label = msg_label(&m);
                        let chan = pallas_network2::Message::channel(&m);
                        if let Err(why) = e.wire.client_sends(&m) {
                            self.violations.push((i, label.clone(), why));
                            self.violations_same_pass.push(sent_this_step.contains(&(i, chan)));
                        }
                        sent_this_step.push((i, chan));
                        e.unconfirmed.push_back(m);
                        self.last_out.push(Out::Send(i, label));
                    }
                    _ => self.last_out.push(Out::Other(format!("Send({p})"))),
                },
                BehaviorOutput::ExternalEvent(e) => self.last_out.push(Out::Event(format!("{e:?}").chars().take(40).collect())),
            }
        }
        // monitor: who is in the banned set now
        for i in 0..self.cfg.peers {
            if self.b.promotion.banned_peers.contains(&pid(i)) {
                self.banned_ever.insert(i);
            }
        }
    }

    pub fn sets(&self) -> [Vec<u8>; 4] {
        let f = |s: &std::collections::HashSet<PeerId>| {
            let mut v: Vec<u8> = s.iter().map(|p| pidx(p).unwrap_or(255)).collect();
            v.sort();
            v
        };
        [f(&self.b.promotion.cold_peers), f(&self.b.promotion.warm_peers), f(&self.b.promotion.hot_peers), f(&self.b.promotion.banned_peers)]
    }

    /// Canonical key: the observable real state (sorted) + environment + monitors.
    pub fn key(&self) -> String {
        use std::hash::{Hash, Hasher};
        let mut s = String::new();
        s.push_str(&format!("{:?}|", self.sets()));
        let mut peers: Vec<(String, String)> = self.b.peers.iter().map(|(k, v)| (format!("{k}"), format!("{v:?}"))).collect();
        peers.sort();
        s.push_str(&format!("{peers:?}|"));
        for e in &self.env {
            s.push_str(&format!("{},{},{},{:?},{:?},{:?}|", e.pending_connect, e.connected, e.pending_disconnect, e.unconfirmed.iter().map(msg_label).collect::<Vec<_>>(), e.wire, e.delivered));
        }
        s.push_str(&format!("{:?}|{:?}", self.banned_ever, self.b.discovery_key()));
        let mut h1 = std::collections::hash_map::DefaultHasher::new();
        s.hash(&mut h1);
        let mut h2 = std::collections::hash_map::DefaultHasher::new();
        (&s, 0x9e3779b97f4a7c15u64).hash(&mut h2);
        format!("{:016x}{:016x}", h1.finish(), h2.finish())
    }
}

pub trait DiscoveryKey {
    fn discovery_key(&self) -> String;
}
impl DiscoveryKey for InitiatorBehavior {
    /// Private state of the sub-behaviours that influences the future (hook
    /// H4): block-fetch queue, chain-sync intersection, discovered pool,
    /// leios-fetch queue.
    fn discovery_key(&self) -> String {
        format!("{}|{}|{}|{}", self.blockfetch.verif_fingerprint(), self.chainsync.verif_fingerprint(), self.discovery.verif_fingerprint(), self.leiosfetch.verif_fingerprint())
    }
}

pub fn msg_label(m: &AnyMessage) -> String {
    let s = format!("{m:?}");
    // "ChainSync(FindIntersect([..]))" -> "ChainSync(FindIntersect"
    let cut = s.find(|c: char| c == '[' || c == '{').unwrap_or(s.len());
    let mut t: String = s[..cut].to_string();
    // keep at most two identifiers
    let parts: Vec<&str> = t.split('(').collect();
    if parts.len() > 2 {
        t = format!("{}({}", parts[0], parts[1]);
    }
    t.trim_end_matches('(').to_string()
}
