//! C28 — the P2P initiator never violates a protocol it speaks.
//! SEQ with an environment model: commands and housekeeping interleave freely
//! with interface events; `Sent` confirmations and replies of a conformant
//! responder are delivered in wire order but arbitrarily late. Every message
//! the REAL `InitiatorBehavior` emits is checked, at emission time, against an
//! independent client-side specification tracker advanced in wire order.

use crate::world::{Cfg, Ev, World};
use mc_core::bfs::{self, Outcome};
use mc_core::{cov, json, Ctx, Level, Value};
use std::collections::BTreeMap;
use std::sync::Mutex;

fn enabled(w: &World, hist: &[Ev]) -> Vec<Ev> {
    let mut v = vec![];
    let count = |f: &dyn Fn(&Ev) -> bool| hist.iter().filter(|e| f(e)).count();
    for p in 0..w.cfg.peers {
        if !w.b.peers.contains_key(&crate::world::pid(p)) {
            v.push(Ev::Include(p));
        }
    }
    v.push(Ev::House);
    if count(&|e| matches!(e, Ev::StartSync)) == 0 {
        v.push(Ev::StartSync);
    }
    if count(&|e| matches!(e, Ev::ReqBlocks)) < 2 {
        v.push(Ev::ReqBlocks);
    }
    for p in 0..w.cfg.peers {
        let e = &w.env[p as usize];
        if e.pending_connect {
            v.push(Ev::Connected(p));
        }
        if e.pending_disconnect {
            v.push(Ev::Disconnected(p));
        }
        if e.connected {
            if !e.unconfirmed.is_empty() {
                v.push(Ev::Sent(p));
            }
            // replies of a conformant responder to what it has received so far
            for r in e.delivered.server_choices(w.cfg.leios) {
                v.push(Ev::Recv(p, r));
            }
            if e.delivered.hs == 2 {
                if count(&|x| *x == Ev::ContSync(p)) < 2 {
                    v.push(Ev::ContSync(p));
                }
                if w.cfg.leios {
                    if count(&|x| *x == Ev::FetchEb(p)) < 2 {
                        v.push(Ev::FetchEb(p));
                    }
                    if count(&|x| *x == Ev::FetchEbTxs(p)) < 1 {
                        v.push(Ev::FetchEbTxs(p));
                    }
                }
            }
        }
    }
    v
}

struct Res {
    stats: bfs::Stats,
    label: String,
    sends: BTreeMap<String, u64>,
    max_unconfirmed: usize,
}

fn explore(ctx: &Ctx, cfg: &Cfg, depth: usize, max_states: usize, label: &str) -> Res {
    let sends: Mutex<BTreeMap<String, u64>> = Default::default();
    let maxq: Mutex<usize> = Mutex::new(0);
    let run = |hist: &[Ev]| -> Outcome {
        let case = || json!({"config": format!("{cfg:?}"), "history": hist.iter().map(|e| format!("{e:?}")).collect::<Vec<_>>()});
        match World::replay(cfg, hist, &[]) {
            Err(_) => Outcome::Skip, // a panic is C29's subject
            Ok(w) => {
                {
                    let mut s = sends.lock().unwrap();
                    for o in &w.last_out {
                        if let crate::world::Out::Send(_, l) = o {
                            *s.entry(l.clone()).or_default() += 1;
                        }
                    }
                    let q = w.env.iter().map(|e| e.unconfirmed.len()).max().unwrap_or(0);
                    let mut m = maxq.lock().unwrap();
                    if q > *m {
                        *m = q;
                    }
                }
                if w.violations.is_empty() {
                    Outcome::State(w.key())
                } else {
                    for (k, (p, label, why)) in w.violations.iter().enumerate() {
                        let deferred = w.env[*p as usize].unconfirmed.len().saturating_sub(1);
                        // two requests on one mini-protocol within a single pass need no delayed
                        // confirmation: a defect of its own, not the recorded one
                        let same_pass = if w.violations_same_pass.get(k).copied().unwrap_or(false) { ":two-in-one-pass" } else { "" };
                        ctx.violation(
                            format!("C28:{label}:{why}{same_pass}"),
                            format!("peer {p}: the initiator emitted {label} although {why} ({deferred} earlier message(s) to this peer still unconfirmed); history {:?}", hist),
                            case(),
                        );
                    }
                    // the defects behind these are recorded findings: keep exploring
                    // behind them (the tracker ignores an illegal emission), so that
                    // other violations deeper in the space are still found
                    Outcome::State(w.key())
                }
            }
        }
    };
    let en = |hist: &[Ev]| -> Vec<Ev> {
        match World::replay(cfg, hist, &[]) {
            Ok(w) => enabled(&w, hist),
            Err(_) => vec![],
        }
    };
    // commands enter the key through hook H4 (queues) and the per-peer Debug; the
    // per-history command budgets are part of the future, so put them in the key too
    let init = World::new(cfg.clone()).key();
    let stats = bfs::explore(init, en, |h: &[Ev]| match run(h) {
        Outcome::State(k) => {
            let c = |f: &dyn Fn(&Ev) -> bool| h.iter().filter(|e| f(e)).count();
            Outcome::State(format!("{k}:{}:{}:{}:{}", c(&|e| matches!(e, Ev::StartSync)), c(&|e| matches!(e, Ev::ReqBlocks)), c(&|e| matches!(e, Ev::ContSync(_))), c(&|e| matches!(e, Ev::FetchEb(_) | Ev::FetchEbTxs(_)))))
        }
        o => o,
    }, &bfs::Config { max_depth: depth, max_states, parallel: true });
    Res { stats, label: label.to_string(), sends: sends.into_inner().unwrap(), max_unconfirmed: maxq.into_inner().unwrap() }
}

pub fn run(ctx: Ctx) -> ! {
    let cfg = |peers, leios| Cfg { peers, max_peers: peers as usize, max_warm: 2, max_hot: 1, max_err: 1, leios };
    let mut runs = vec![];
    if ctx.thorough {
        runs.push(explore(&ctx, &cfg(1, false), 19, 6_000_000, "1 peer, depth 19"));
        runs.push(explore(&ctx, &cfg(1, true), 16, 6_000_000, "1 peer, leios version, depth 16"));
        runs.push(explore(&ctx, &cfg(2, false), 14, 6_000_000, "2 peers, depth 14"));
    } else {
        runs.push(explore(&ctx, &cfg(1, false), 15, 600_000, "1 peer, depth 15"));
        runs.push(explore(&ctx, &cfg(1, true), 13, 600_000, "1 peer, leios version, depth 13"));
        runs.push(explore(&ctx, &cfg(2, false), 12, 600_000, "2 peers, depth 12"));
    }
    let states: usize = runs.iter().map(|r| r.stats.states).sum();
    let transitions: usize = runs.iter().map(|r| r.stats.transitions).sum();
    let mut samples: Vec<Value> = vec![];
    let mut per_run = vec![];
    let mut kinds = std::collections::BTreeSet::new();
    for r in &runs {
        samples.extend(r.stats.samples.iter().rev().take(2).map(|s| json!({"run": r.label, "history": s})));
        kinds.extend(r.sends.keys().cloned());
        per_run.push(json!({"run": r.label, "states": r.stats.states, "transitions": r.stats.transitions, "max_depth": r.stats.max_depth, "fixpoint": r.stats.fixpoint, "capped": r.stats.capped, "new_states_per_depth": r.stats.per_depth_new_states, "histories_ending_in_violation": r.stats.pruned, "messages_emitted_by_kind": r.sends, "max_unconfirmed_queue": r.max_unconfirmed}));
    }
    for need in ["Handshake(Propose", "KeepAlive(KeepAlive", "ChainSync(FindIntersect", "BlockFetch(RequestRange"] {
        if !kinds.iter().any(|k| k.starts_with(need)) {
            mc_core::report::machinery_failure(&format!("C28: the exploration never made the initiator emit {need} (vacuous)"));
        }
    }
    let cov = cov! {
        "states" => states,
        "transitions" => transitions,
        "traces_validated_against_impl" => transitions,
        "samples" => samples,
        "runs" => per_run,
        "distinct_outcomes(message kinds emitted)" => kinds.len(),
        "fixpoint" => runs.iter().all(|r| r.stats.fixpoint),
        "rule" => "state = canonical fingerprint of the REAL InitiatorBehavior + environment (unconfirmed sends in wire order, spec tracker in emission order, spec tracker as delivered to the responder) after replaying a history on a fresh object; transition = command, housekeeping, Connected, Sent (oldest unconfirmed, i.e. confirmations may lag arbitrarily) or a reply a conformant responder may give to the requests delivered to it; every emitted message is checked against the client-side specification at emission",
    };
    ctx.finish(
        Level::ModelChecking,
        cov,
        &[
            "replies are only generated for requests already delivered (Sent confirmed): this can hide, never invent, behaviours",
            "no spontaneous errors/disconnects in this check (C27/C29 have them); Disconnected only when the behaviour asked for it",
            "command budgets per history: StartSync 1, RequestBlocks 2, ContinueSync 2 per peer, FetchEb/FetchEbTxs 1 each",
            "depth-bounded, no fixpoint",
        ],
    )
}
