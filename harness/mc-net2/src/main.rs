mod c27;
mod c28;
mod c29;
mod world;

fn main() {
    let ctx = mc_core::Ctx::from_args();
    match ctx.prop.as_str() {
        "C27" => c27::run(ctx),
        "C28" => c28::run(ctx),
        "C29" => c29::run(ctx),
        p => mc_core::report::machinery_failure(&format!("mc-net2 does not serve {p} yet")),
    }
}
