//! C27 — peer promotion keeps the peer sets consistent and banned peers away.
//! SEQ: breadth-first search over event histories of the REAL
//! `InitiatorBehavior` (fresh object per history), events gated by what the
//! behaviour has asked the interface for; invariants on every state.

use crate::world::{Cfg, Ev, Out, World, R};
use mc_core::bfs::{self, Outcome};
use mc_core::{cov, json, Ctx, Level, Value};
use std::collections::BTreeMap;
use std::sync::Mutex;

pub fn enabled(w: &World, gated: bool) -> Vec<Ev> {
    let mut v = vec![];
    for p in 0..w.cfg.peers {
        v.push(Ev::Include(p));
    }
    v.push(Ev::House);
    for p in 0..w.cfg.peers {
        v.push(Ev::Ban(p));
        v.push(Ev::Demote(p));
    }
    for p in 0..w.cfg.peers {
        let e = &w.env[p as usize];
        if !gated || e.pending_connect {
            v.push(Ev::Connected(p));
        }
        if !gated || e.pending_connect || e.connected {
            v.push(Ev::Error(p));
        }
        if !gated || e.connected || e.pending_disconnect {
            v.push(Ev::Disconnected(p));
        }
        if e.connected || !gated {
            if !e.unconfirmed.is_empty() {
                v.push(Ev::Sent(p));
            }
            if !gated || e.delivered.hs == 1 {
                v.push(Ev::Recv(p, R::Accept));
            }
            v.push(Ev::Recv(p, R::Bad));
        }
    }
    v
}

fn membership(w: &World, p: u8) -> String {
    let s = w.sets();
    let mut m = vec![];
    for (i, name) in ["cold", "warm", "hot", "banned"].iter().enumerate() {
        if s[i].contains(&p) {
            m.push(*name);
        }
    }
    let tracked = w.b.peers.contains_key(&crate::world::pid(p));
    format!("{}{}", if m.is_empty() { "none".to_string() } else { m.join("+") }, if tracked { "" } else { "/untracked" })
}

fn ev_kind(e: &Ev) -> (String, Option<u8>) {
    match e {
        Ev::Include(p) => ("Include".into(), Some(*p)),
        Ev::Ban(p) => ("Ban".into(), Some(*p)),
        Ev::Demote(p) => ("Demote".into(), Some(*p)),
        Ev::Connected(p) => ("Connected".into(), Some(*p)),
        Ev::Disconnected(p) => ("Disconnected".into(), Some(*p)),
        Ev::Error(p) => ("Error".into(), Some(*p)),
        Ev::Sent(p) => ("Sent".into(), Some(*p)),
        Ev::Recv(p, r) => (format!("Recv({r:?})"), Some(*p)),
        o => (format!("{o:?}"), None),
    }
}

/// Invariants of the property on one state. Returns (class, description).
fn invariants(w: &World) -> Vec<(String, String)> {
    let mut v = vec![];
    let s = w.sets();
    let names = ["cold", "warm", "hot", "banned"];
    for i in 0..4 {
        for j in i + 1..4 {
            if let Some(p) = s[i].iter().find(|p| s[j].contains(p)) {
                v.push((format!("sets-overlap:{}+{}", names[i], names[j]), format!("peer {p} is in both {} and {} (cold {:?} warm {:?} hot {:?} banned {:?})", names[i], names[j], s[0], s[1], s[2], s[3])));
            }
        }
    }
    if s[1].len() > w.cfg.max_warm {
        v.push(("warm-limit".into(), format!("{} warm peers, limit {}", s[1].len(), w.cfg.max_warm)));
    }
    if s[2].len() > w.cfg.max_hot {
        v.push(("hot-limit".into(), format!("{} hot peers, limit {}", s[2].len(), w.cfg.max_hot)));
    }
    if s[0].len() + s[1].len() + s[2].len() > w.cfg.max_peers {
        v.push(("total-limit".into(), format!("{} tracked peers, limit {}", s[0].len() + s[1].len() + s[2].len(), w.cfg.max_peers)));
    }
    for p in &w.connect_after_ban {
        v.push(("connect-after-ban".into(), format!("Connect requested for peer {p}, which had been banned earlier in this history")));
    }
    v
}

pub struct Res {
    pub stats: bfs::Stats,
    pub label: String,
    pub outcomes: BTreeMap<String, u64>,
}

pub fn explore(ctx: &Ctx, cfg: &Cfg, depth: usize, gated: bool, max_states: usize, label: &str) -> Res {
    let outcomes: Mutex<BTreeMap<String, u64>> = Default::default();
    let run = |hist: &[Ev]| -> Outcome {
        let case = || json!({"config": format!("{cfg:?}"), "gated": gated, "history": hist.iter().map(|e| format!("{e:?}")).collect::<Vec<_>>()});
        // state before the last event (for the fingerprint) and after
        let before = match World::replay(cfg, &hist[..hist.len() - 1], &[]) {
            Ok(w) => w,
            Err(_) => return Outcome::Skip,
        };
        let last = hist.last().unwrap();
        let (kind, peer) = ev_kind(last);
        let prior = peer.map(|p| membership(&before, p)).unwrap_or_default();
        match World::replay(cfg, hist, &[]) {
            Err((_, p)) => {
                // a panic is C29's subject; here it ends the history (not a C27 verdict)
                *outcomes.lock().unwrap().entry(format!("panic:{}", p.site())).or_default() += 1;
                Outcome::Skip
            }
            Ok(w) => {
                let inv = invariants(&w);
                {
                    let mut o = outcomes.lock().unwrap();
                    for out in &w.last_out {
                        let k = match out {
                            Out::Connect(_) => "out:Connect",
                            Out::Disconnect(_) => "out:Disconnect",
                            Out::Send(..) => "out:Send",
                            Out::Event(_) => "out:Event",
                            Out::Other(_) => "out:Other",
                        };
                        *o.entry(k.into()).or_default() += 1;
                    }
                    *o.entry(format!("sets:{:?}", w.sets().iter().map(|s| s.len()).collect::<Vec<_>>())).or_default() += 1;
                }
                if inv.is_empty() {
                    Outcome::State(w.key())
                } else {
                    for (class, what) in inv {
                        ctx.violation(format!("C27:{class}:on {kind}(p) with p previously {prior}"), format!("{what}; after history {:?}", hist), case());
                    }
                    Outcome::Violation
                }
            }
        }
    };
    let en = |hist: &[Ev]| -> Vec<Ev> {
        match World::replay(cfg, hist, &[]) {
            Ok(w) => enabled(&w, gated),
            Err(_) => vec![],
        }
    };
    let init = World::new(cfg.clone()).key();
    let stats = bfs::explore(init, en, run, &bfs::Config { max_depth: depth, max_states, parallel: true });
    Res { stats, label: label.to_string(), outcomes: outcomes.into_inner().unwrap() }
}

pub fn run(ctx: Ctx) -> ! {
    let mut runs = vec![];
    let base = |peers, max_peers| Cfg { peers, max_peers, max_warm: 2, max_hot: 1, max_err: 1, leios: false };
    if ctx.thorough {
        runs.push(explore(&ctx, &base(2, 2), 20, true, 6_000_000, "2 peers, max_peers 2, gated, depth 20"));
        runs.push(explore(&ctx, &base(3, 3), 14, true, 6_000_000, "3 peers, max_peers 3, gated, depth 14"));
        runs.push(explore(&ctx, &base(3, 2), 14, true, 6_000_000, "3 peers, max_peers 2, gated, depth 14"));
        runs.push(explore(&ctx, &base(2, 2), 9, false, 6_000_000, "2 peers, ungated (adversarial interface), depth 9"));
    } else {
        runs.push(explore(&ctx, &base(2, 2), 12, true, 600_000, "2 peers, max_peers 2, gated, depth 12"));
        runs.push(explore(&ctx, &base(3, 3), 9, true, 600_000, "3 peers, max_peers 3, gated, depth 9"));
        runs.push(explore(&ctx, &base(3, 2), 9, true, 600_000, "3 peers, max_peers 2, gated, depth 9"));
    }
    // unsolicited interface events (a Disconnected / Error / Connected nobody asked for) with
    // more known peers than slots: a peer that is tracked but in no set gets events too
    runs.push(explore(&ctx, &base(3, 2), if ctx.thorough { 7 } else { 5 }, false, 3_000_000, "3 peers, max_peers 2, ungated (adversarial interface)"));
    // tighter limits: one warm slot, errors ban at once (exercises the limit and
    // error-threshold paths with fewer steps)
    let tight = Cfg { peers: 3, max_peers: 3, max_warm: 1, max_hot: 1, max_err: 0, leios: false };
    runs.push(explore(&ctx, &tight, if ctx.thorough { 12 } else { 8 }, true, 3_000_000, "3 peers, max_warm 1, max_hot 1, max_error_count 0, gated"));
    let roomy = Cfg { peers: 3, max_peers: 3, max_warm: 3, max_hot: 2, max_err: 2, leios: false };
    runs.push(explore(&ctx, &roomy, if ctx.thorough { 11 } else { 8 }, true, 3_000_000, "3 peers, max_warm 3, max_hot 2, max_error_count 2, gated"));
    let states: usize = runs.iter().map(|r| r.stats.states).sum();
    let transitions: usize = runs.iter().map(|r| r.stats.transitions).sum();
    let mut samples: Vec<Value> = vec![];
    let mut per_run = vec![];
    let mut distinct = 0usize;
    for r in &runs {
        samples.extend(r.stats.samples.iter().take(2).map(|s| json!({"run": r.label, "history": s})));
        distinct += r.outcomes.len();
        per_run.push(json!({"run": r.label, "states": r.stats.states, "transitions": r.stats.transitions, "max_depth": r.stats.max_depth, "fixpoint": r.stats.fixpoint, "capped": r.stats.capped, "new_states_per_depth": r.stats.per_depth_new_states, "histories_ending_in_violation": r.stats.pruned, "outcome_classes": r.outcomes}));
    }
    // vacuity guard: the search must have produced connects, promotions to hot and bans
    let all: BTreeMap<String, u64> = runs.iter().flat_map(|r| r.outcomes.clone()).collect();
    if !all.contains_key("out:Connect") || !all.contains_key("out:Disconnect") {
        mc_core::report::machinery_failure("C27: the exploration never produced a Connect and a Disconnect request (vacuous)");
    }
    let cov = cov! {
        "states" => states,
        "transitions" => transitions,
        "traces_validated_against_impl" => transitions,
        "samples" => samples,
        "runs" => per_run,
        "distinct_outcomes" => distinct,
        "fixpoint" => runs.iter().all(|r| r.stats.fixpoint),
        "rule" => "state = canonical fingerprint (sorted peer sets, sorted Debug of every per-peer state, private sub-behaviour state via hook H4, environment queues, ban monitor) of the REAL InitiatorBehavior after replaying a history on a fresh object; transition = one command or interface event; every transition re-executes its whole history on the real code",
    };
    ctx.finish(
        Level::ModelChecking,
        cov,
        &[
            "peer iteration order fixed by hook H3; alphabets are symmetric in the peers so every order is covered up to renaming",
            "interface events are gated by what the behaviour asked for (Connected only after Connect, Sent only for an emitted Send, Accept only after the proposal was delivered); the thorough tier adds an ungated pass",
            "depth-bounded (no fixpoint: unconfirmed sends and error counters grow); a panic ends a history and is C29's subject",
            "an explicit BanPeer counts as a ban only for a peer the initiator tracks",
        ],
    )
}
