//! C21 — message reassembly is independent of segment boundaries.
//!
//! FAULT enumeration over cut positions. A *stream* is the concatenated
//! encoding of 1..3 mini-protocol messages; a *segmentation* is a set of cut
//! positions (plus, once per stream, an empty segment). Every segmentation of
//! the bounded family below is pushed through the REAL receive path:
//!
//! * pallas-network: `AgentChannel::enqueue_chunk` per segment -> real `Muxer`
//!   -> in-memory pipe (hook H1) -> real `Demuxer` -> `ChannelBuffer::
//!   recv_full_msg::<M>()` with the protocol's own message type, until all
//!   messages arrived; then one more complete message (the sentinel) is sent
//!   and must come out intact (no left-over bytes in the channel buffer).
//! * pallas-network2: `BearerWriteHalf::write_segment` per segment over an
//!   in-memory pipe (hook H2) -> `BearerReadHalf::read_full_msgs::<AnyMessage>`
//!   once per segment; at the end `partial_chunks` must be empty. The same
//!   segmentations are also fed to `AnyMessage::from_payload` directly, one
//!   segment appended at a time the way `read_full_msgs` does.
//!
//! Oracle (independent of pallas): the received messages, re-encoded, are
//! byte-for-byte the sent encodings, in the same order, no error, nothing left
//! over. Only messages whose encoding is one well-formed CBOR item (strict
//! reference parser + ciborium) and that re-encode to themselves are in the
//! alphabet (C22's findings are not this property's business).

use mc_core::sched::{self, Tasks};
use mc_core::{catch, cov, json, Ctx, Level, Value};
use mc_net1::rig::Rig;
use pallas_codec::{minicbor, Fragment};
use pallas_network::miniprotocols as m1;
use pallas_network::multiplexer::{ChannelBuffer, Error as MuxError, MAX_SEGMENT_PAYLOAD_LENGTH};
use pallas_network2::bearer::Bearer as Bearer2;
use pallas_network2::behavior::AnyMessage;
use pallas_network2::protocol as p2;
use pallas_network2::Message as _;
use rayon::prelude::*;
use std::cell::RefCell;
use std::collections::{BTreeMap, BTreeSet, HashMap};
use std::future::Future;
use std::pin::Pin;
use std::rc::Rc;
use std::sync::Arc;
use std::task::Poll;

const NET1: &str = "pallas-network";
const NET2: &str = "pallas-network2";
const MAXSEG: usize = MAX_SEGMENT_PAYLOAD_LENGTH; // 65535
const BIG_BODY: usize = 70_000;

// ---------------------------------------------------------------- alphabets

/// Reduced alphabet of one protocol: names are mc-proto case names
/// (`Variant/shape`). Quick uses the first `QUICK_ALPHA` entries, thorough all.
/// `big` = (base message, hex of the byte-string item inside it that is
/// replaced by a 70 000-byte byte string with a non-constant pattern).
struct Alpha {
    protocol: &'static str,
    small: &'static [&'static str],
    big: Option<(&'static str, &'static str)>,
}

const QUICK_ALPHA: usize = 5;

const ALPHAS: &[Alpha] = &[
    Alpha {
        protocol: "handshake-n2n",
        small: &[
            "Propose/table0",
            "Accept/v13/mainnet/false/ps1/qtrue",
            "Propose/table3[mainnet/true/ps1/qtrue..]",
            "Refuse/decode-error-text",
            "Refuse/mismatch-3",
            "QueryReply/table1[magicmax/true/ps255/qfalse]",
            "Refuse/refused",
        ],
        big: None,
    },
    Alpha {
        protocol: "handshake-n2c",
        small: &[
            "Propose/table0",
            "Accept/v32784/mainnet/Some(false)",
            "Propose/table3[mainnet/Some(true)..]",
            "Refuse/decode-error-text",
            "QueryReply/table1[magic23/None]",
            "Accept/v18446744073709551615/magicmax/Some(true)",
            "Refuse/refused",
        ],
        big: None,
    },
    Alpha {
        protocol: "chainsync-n2n",
        small: &[
            "RequestNext/-",
            "RollBackward/origin/tip-origin-0",
            "RollForward/conway/tip-specific-24",
            "FindIntersect/3-points",
            "RollForward/byron-min/tip-origin-0",
            "IntersectNotFound/tip-specific-max",
            "FindIntersect/30-points",
        ],
        big: Some(("RollForward/conway/tip-origin-0", "43820102")),
    },
    Alpha {
        protocol: "chainsync-n2c",
        small: &[
            "AwaitReply/-",
            "IntersectNotFound/tip-origin-0",
            "RollForward/empty/tip-origin-0",
            "RollForward/small/tip-specific-24",
            "IntersectFound/slot23/tip-specific-24",
            "FindIntersect/4-points",
            "RollForward/256/tip-specific-max",
        ],
        big: Some(("RollForward/small/tip-origin-0", "43820080")),
    },
    Alpha {
        protocol: "chainsync-skip",
        small: &[
            "Done/-",
            "RollForward/tip-origin-0",
            "FindIntersect/1-points",
            "RollForward/tip-specific-max",
            "RollBackward/slotmax/tip-origin-0",
            "FindIntersect/3-points",
            "IntersectFound/origin/tip-specific-24",
        ],
        big: None,
    },
    Alpha {
        protocol: "keepalive",
        small: &["KeepAlive/cookie0", "ResponseKeepAlive/cookie24", "Done/-", "KeepAlive/cookie65535", "ResponseKeepAlive/cookie256", "KeepAlive/cookie23", "ResponseKeepAlive/cookie255"],
        big: None,
    },
    Alpha {
        protocol: "peersharing",
        small: &[
            "ShareRequest/amount0",
            "SharePeers/empty",
            "Done/-",
            "SharePeers/v4-v6-v4",
            "ShareRequest/amount255",
            "SharePeers/one[v6:2001:db8::1:3001]",
            "SharePeers/three-v4",
        ],
        big: None,
    },
    Alpha {
        protocol: "txsubmission",
        small: &[
            "Init/-",
            "ReplyTxIds/empty",
            "RequestTxIds/blocking=true/ack255/req256",
            "ReplyTxs/one[era6-small]",
            "ReplyTxIds/one[era6-id32/size16384]",
            "RequestTxs/three",
            "ReplyTxs/one[era0-empty]",
        ],
        big: Some(("ReplyTxs/one[era6-small]", "4584a0a0f5f6")),
    },
    Alpha {
        protocol: "blockfetch",
        small: &["StartBatch/-", "RequestRange/origin..origin", "Block/empty", "Block/24", "RequestRange/slot23..slotmax", "BatchDone/-", "Block/256"],
        big: Some(("Block/23", "570101010101010101010101010101010101010101010101")),
    },
    Alpha {
        protocol: "txmonitor",
        small: &[
            "Acquire/-",
            "ResponseNextTx/none",
            "ResponseNextTx/era0-empty",
            "ResponseNextTx/era6-small",
            "RequestHasTx/unicode",
            "ResponseSizeAndCapacity/typical",
            "Acquired/slot4294967296",
        ],
        big: Some(("ResponseNextTx/era6-small", "4584a0a0f5f6")),
    },
    Alpha {
        protocol: "localstate",
        small: &[
            "Acquired/-",
            "Acquire/tip(none)",
            "Query/anycbor:indef-array",
            "Result/anycbor:tagged-bytes",
            "Acquire/slot23",
            "Query/typed:BlockQuery(era6)::GetCBOR/GetCBOR/GetUTxOByTxIn",
            "Result/typed:UTxOByAddress",
        ],
        big: Some(("Result/anycbor:tagged-bytes", "43010203")),
    },
    Alpha {
        protocol: "localmsgnotification",
        small: &[
            "RequestMessagesBlocking/-",
            "ClientDone/-",
            "ReplyMessagesBlocking/0-msgs",
            "ReplyMessagesNonBlocking/0-msgs/has_more=true",
            "ReplyMessagesBlocking/1-msgs",
            "RequestMessagesNonBlocking/-",
            "ReplyMessagesNonBlocking/3-msgs/has_more=false",
        ],
        big: None,
    },
    Alpha {
        protocol: "localmsgsubmission",
        small: &["AcceptTx/-", "RejectTx/Invalid-empty", "RejectTx/AlreadyReceived", "RejectTx/Invalid-text", "SubmitTx/typical", "RejectTx/Other", "SubmitTx/max"],
        big: Some(("SubmitTx/typical", "4d64756d6d79206d657373616765")),
    },
    Alpha {
        protocol: "localtxsubmission",
        small: &[
            "AcceptTx/-",
            "SubmitTx/era0-empty",
            "RejectTx/Shelley[Conway]/no-failures",
            "SubmitTx/era6-small",
            "RejectTx/UtxoFailure::ValueNotConservedUTxO[1]",
            "RejectTx/ConwayUtxoWPredFailure::MissingRedeemers[Proposing]",
            "RejectTx/ConwayContextError::VotingProceduresFieldNotSupported",
        ],
        big: Some(("SubmitTx/era6-small", "4584a0a0f5f6")),
    },
    Alpha {
        protocol: "leiosnotify",
        small: &[
            "RequestNext/-",
            "BlockAnnouncement/indef-array",
            "BlockOffer/origin/size24",
            "Votes/3-votes",
            "BlockTxsOffer/slot23",
            "Votes/0-votes",
            "BlockOffer/slotmax/size4294967295",
        ],
        big: Some(("BlockAnnouncement/tagged-bytes", "43010203")),
    },
    Alpha {
        protocol: "leiosfetch",
        small: &[
            "Done/-",
            "BlockRequest/origin",
            "BlockTxsRequest/origin/none",
            "Block/indef-array",
            "BlockTxs/sparse/3-txs",
            "BlockTxsRequest/slot23/three-windows",
            "Block/map",
        ],
        big: Some(("Block/tagged-bytes", "43010203")),
    },
];

// ------------------------------------------------------------ real paths

struct EvalIn {
    number: u16,
    segs: Vec<Vec<u8>>,
    /// number of messages in the stream
    k: usize,
    /// pallas-network only: complete message sent after the stream
    sentinel: Vec<u8>,
    /// pallas-network: send server -> client instead of client -> server;
    /// pallas-network2: set the server bit in the segment header
    flip: bool,
}

#[derive(Default, Clone, Debug)]
struct EvalOut {
    /// re-encoding of every message yielded for the stream, in order
    got: Vec<Vec<u8>>,
    /// (class, detail) of the first error; `in_sentinel` tells the phase
    error: Option<(&'static str, String)>,
    in_sentinel: bool,
    /// pallas-network: re-encoding of what arrived after the sentinel was sent
    sentinel: Option<Vec<u8>>,
    /// pallas-network2: bytes left in the partial buffers at the end
    leftover: Option<usize>,
    finished: bool,
}

async fn join2<A: Future, B: Future>(a: A, b: B) -> (A::Output, B::Output) {
    let mut a: Pin<Box<A>> = Box::pin(a);
    let mut b: Pin<Box<B>> = Box::pin(b);
    let mut ra = None;
    let mut rb = None;
    std::future::poll_fn(move |cx| {
        if ra.is_none() {
            if let Poll::Ready(v) = a.as_mut().poll(cx) {
                ra = Some(v);
            }
        }
        if rb.is_none() {
            if let Poll::Ready(v) = b.as_mut().poll(cx) {
                rb = Some(v);
            }
        }
        if ra.is_some() && rb.is_some() {
            Poll::Ready((ra.take().unwrap(), rb.take().unwrap()))
        } else {
            Poll::Pending
        }
    })
    .await
}

/// Re-encode a received message for the comparison. A message that cannot be
/// re-encoded (encoder error or panic) is certainly not one that was sent.
fn reencode<M: Fragment>(m: &M) -> Result<Vec<u8>, String> {
    match catch(|| minicbor::to_vec(m)) {
        Ok(Ok(b)) => Ok(b),
        Ok(Err(e)) => Err(format!("a message was yielded that cannot be re-encoded ({e}), so it is not the one sent")),
        Err(p) => Err(format!("a message was yielded whose re-encoding panics ({} at {}), so it is not the one sent (every sent message re-encodes)", p.message, p.location)),
    }
}

fn classify(e: MuxError) -> (&'static str, String) {
    match e {
        MuxError::Decoding(s) => ("decode-error", s),
        other => ("channel-error", format!("{other:?}")),
    }
}

fn pipe_for(total: usize) -> usize {
    if total <= 4096 {
        4096
    } else {
        1 << 17
    }
}

/// pallas-network: the two real plexers with their four loops, sender and
/// receiver as two concurrently polled futures of the driver task.
fn net1_eval<M: Fragment + 'static>(inp: EvalIn) -> EvalOut {
    let total: usize = inp.segs.iter().map(|s| s.len()).sum();
    let nseg = inp.segs.len();
    let mut rig = Rig::new(pipe_for(total));
    let (c, s) = rig.pair(inp.number);
    let (tx, rx) = if inp.flip { (s, c) } else { (c, s) };
    let out = Rc::new(RefCell::new(EvalOut::default()));
    let o = out.clone();
    let EvalIn { segs, k, sentinel, .. } = inp;
    let horizon = 200_000 + 64 * nseg + total / 8;
    let _ = rig.drive_with_horizon(
        async move {
            let mut tx = tx;
            let mut rx = ChannelBuffer::new(rx);
            let send = async {
                for s in segs {
                    if let Err(e) = tx.enqueue_chunk(s).await {
                        return Err(format!("enqueue_chunk: {e:?}"));
                    }
                }
                Ok(())
            };
            let o2 = o.clone();
            let recv = async {
                for _ in 0..k {
                    match rx.recv_full_msg::<M>().await {
                        Ok(m) => match reencode(&m) {
                            Ok(b) => o2.borrow_mut().got.push(b),
                            Err(e) => {
                                o2.borrow_mut().error = Some(("wrong-message", e));
                                return false;
                            }
                        },
                        Err(e) => {
                            o2.borrow_mut().error = Some(classify(e));
                            return false;
                        }
                    }
                }
                true
            };
            let (sres, rres) = join2(send, recv).await;
            if let Err(e) = sres {
                let mut ob = o.borrow_mut();
                if ob.error.is_none() {
                    ob.error = Some(("channel-error", e));
                }
                return;
            }
            if !rres {
                return;
            }
            o.borrow_mut().in_sentinel = true;
            if let Err(e) = tx.enqueue_chunk(sentinel).await {
                o.borrow_mut().error = Some(("channel-error", format!("enqueue_chunk(sentinel): {e:?}")));
                return;
            }
            match rx.recv_full_msg::<M>().await {
                Ok(m) => match reencode(&m) {
                    Ok(b) => o.borrow_mut().sentinel = Some(b),
                    Err(e) => o.borrow_mut().error = Some(("wrong-message", e)),
                },
                Err(e) => o.borrow_mut().error = Some(classify(e)),
            }
            o.borrow_mut().finished = true;
        },
        horizon,
    );
    let r = out.borrow().clone();
    r
}

/// pallas-network2: real write half -> pipe -> real read half, one
/// `read_full_msgs` per segment, `partial_chunks` inspected at the end.
fn net2_eval(inp: EvalIn) -> EvalOut {
    let total: usize = inp.segs.iter().map(|s| s.len()).sum();
    let nseg = inp.segs.len();
    let (a, b) = tokio::io::duplex(pipe_for(total));
    let (ra, mut wa) = Bearer2::Mem(a).into_split();
    let (mut rb, wb) = Bearer2::Mem(b).into_split();
    let out = Rc::new(RefCell::new(EvalOut::default()));
    let mut tasks = Tasks::new();
    let o = out.clone();
    let number = inp.number;
    let wire = number | if inp.flip { p2::PROTOCOL_SERVER } else { 0 };
    tasks.spawn("reader", async move {
        let _keep = (ra, wb);
        let mut partial: HashMap<u16, Vec<u8>> = HashMap::new();
        for _ in 0..nseg {
            match rb.read_full_msgs::<AnyMessage>(&mut partial).await {
                Ok(msgs) => {
                    let mut ob = o.borrow_mut();
                    for m in msgs {
                        if m.channel() != number {
                            ob.error = Some(("wrong-channel", format!("message of channel {} on channel {number}", m.channel())));
                            return;
                        }
                        ob.got.push(m.payload());
                    }
                }
                Err(e) => {
                    o.borrow_mut().error = Some(("channel-error", format!("read_full_msgs: {e}")));
                    return;
                }
            }
        }
        let mut ob = o.borrow_mut();
        ob.leftover = Some(partial.values().map(|v| v.len().max(1)).sum());
        ob.finished = true;
    });
    let o = out.clone();
    let segs = inp.segs;
    tasks.spawn("writer", async move {
        for (i, s) in segs.iter().enumerate() {
            if let Err(e) = wa.write_segment(wire, i as u32, s).await {
                let mut ob = o.borrow_mut();
                if ob.error.is_none() {
                    ob.error = Some(("channel-error", format!("write_segment: {e}")));
                }
                return;
            }
        }
        // keep the write half open until the reader is done
        std::future::pending::<()>().await;
    });
    let o = out.clone();
    let horizon = 200_000 + 64 * nseg + total / 8;
    let _ = sched::run_until(tasks, horizon, &|| {
        let ob = o.borrow();
        ob.finished || ob.error.is_some()
    });
    let r = out.borrow().clone();
    r
}

/// pallas-network2: the real `TcpInterface` event loop (hook H6 attaches the
/// in-memory bearer): its `recv` future reads one segment per poll round and is
/// re-queued by `on_recv` together with the partial-chunk buffer, which lives
/// inside the interface. Left-over bytes are therefore observed the way they
/// are for pallas-network: a complete sentinel message sent after the stream
/// must come out intact.
fn net2_iface(inp: EvalIn) -> EvalOut {
    use futures::StreamExt;
    use pallas_network2::interface::TcpInterface;
    use pallas_network2::{InterfaceEvent, PeerId};
    let total: usize = inp.segs.iter().map(|s| s.len()).sum();
    let nseg = inp.segs.len();
    let (a, b) = tokio::io::duplex(pipe_for(total + inp.sentinel.len()));
    let pid = PeerId { host: "mem".into(), port: 1 };
    let mut iface = TcpInterface::<AnyMessage>::new();
    iface.verif_attach(pid, Bearer2::Mem(a));
    let (rb, mut wb) = Bearer2::Mem(b).into_split();
    let out = Rc::new(RefCell::new(EvalOut::default()));
    let mut tasks = Tasks::new();
    let o = out.clone();
    let number = inp.number;
    let k = inp.k;
    let wire = number | if inp.flip { p2::PROTOCOL_SERVER } else { 0 };
    let sentinel = inp.sentinel.clone();
    tasks.spawn("interface", async move {
        let _keep = rb;
        loop {
            match iface.next().await {
                Some(InterfaceEvent::Recv(_, msgs)) => {
                    let mut ob = o.borrow_mut();
                    for m in msgs {
                        if m.channel() != number {
                            ob.error = Some(("wrong-channel", format!("message of channel {} on channel {number}", m.channel())));
                            return;
                        }
                        if ob.got.len() < k {
                            ob.got.push(m.payload());
                        } else if ob.sentinel.is_none() {
                            let p = m.payload();
                            ob.leftover = Some(if p == sentinel { 0 } else { 1 });
                            ob.sentinel = Some(p);
                            ob.finished = true;
                            return;
                        }
                    }
                }
                Some(InterfaceEvent::Error(_, e)) => {
                    let mut ob = o.borrow_mut();
                    ob.in_sentinel = ob.got.len() >= k;
                    ob.error = Some(("channel-error", format!("interface: {e:?}")));
                    return;
                }
                Some(_) => {}
                None => return,
            }
        }
    });
    let o = out.clone();
    let segs = inp.segs;
    let sent = inp.sentinel;
    tasks.spawn("writer", async move {
        for (i, s) in segs.iter().chain(std::iter::once(&sent)).enumerate() {
            if let Err(e) = wb.write_segment(wire, i as u32, s).await {
                let mut ob = o.borrow_mut();
                if ob.error.is_none() {
                    ob.error = Some(("channel-error", format!("write_segment: {e}")));
                }
                return;
            }
        }
        std::future::pending::<()>().await;
    });
    let o = out.clone();
    let horizon = 200_000 + 64 * nseg + total / 8;
    let _ = sched::run_until(tasks, horizon, &|| {
        let ob = o.borrow();
        ob.finished || ob.error.is_some()
    });
    let mut r = out.borrow().clone();
    if r.leftover == Some(1) && r.error.is_none() {
        // the sentinel came out damaged: bytes of the stream were still buffered
        r.leftover = Some(r.sentinel.as_ref().map(|s| s.len().max(1)).unwrap_or(1));
    }
    if r.got.len() >= k && r.leftover.is_none() && r.error.is_none() {
        // every stream message arrived but the complete message sent afterwards never did
        r.leftover = Some(1);
        r.finished = true;
    }
    r
}

/// pallas-network2: `AnyMessage::from_payload` driven the way `read_full_msgs`
/// drives it (append one segment to the channel's partial buffer, drain all
/// complete messages).
fn net2_direct(inp: EvalIn) -> EvalOut {
    let mut out = EvalOut::default();
    let mut payload: Vec<u8> = Vec::new();
    for s in &inp.segs {
        payload.extend_from_slice(s);
        while let Some(m) = AnyMessage::from_payload(inp.number, &mut payload) {
            if m.channel() != inp.number {
                out.error = Some(("wrong-channel", format!("message of channel {} on channel {}", m.channel(), inp.number)));
                return out;
            }
            out.got.push(m.payload());
            if out.got.len() > inp.k + 4 {
                out.error = Some(("extra-message", "more than k+4 messages decoded".into()));
                return out;
            }
        }
    }
    out.leftover = Some(payload.len());
    out.finished = true;
    out
}

fn reenc1<M: Fragment>(b: &[u8]) -> Result<Vec<u8>, String> {
    let m: M = minicbor::decode(b).map_err(|e| format!("decode: {e}"))?;
    minicbor::to_vec(&m).map_err(|e| format!("encode: {e}"))
}

fn reenc2(number: u16, b: &[u8]) -> Result<Vec<u8>, String> {
    let mut p = b.to_vec();
    let m = AnyMessage::from_payload(number, &mut p).ok_or("from_payload: None on the complete encoding")?;
    if !p.is_empty() {
        return Err(format!("from_payload left {} bytes of a single message", p.len()));
    }
    Ok(m.payload())
}

// -------------------------------------------------------------- protocols

#[derive(Clone)]
struct Msg {
    name: String,
    bytes: Arc<Vec<u8>>,
}

impl Msg {
    fn variant(&self) -> &str {
        self.name.split('/').next().unwrap_or("")
    }
}

struct Proto {
    stack: &'static str,
    path: &'static str,
    protocol: &'static str,
    number: u16,
    eval: fn(EvalIn) -> EvalOut,
    /// typed decode + re-encode of one complete message (alphabet precondition)
    reenc: Box<dyn Fn(&[u8]) -> Result<Vec<u8>, String> + Send + Sync>,
    /// false for the second network2 path (same (stream, segmentation) set)
    counts_distinct: bool,
    small: Vec<Msg>,
    big: Option<Msg>,
    /// every other passing mc-proto message of the protocol (<= 4096 bytes)
    extended: Vec<Msg>,
    /// streams whose (last) large message ends exactly at 65535 / 131070 bytes
    /// from the stream start: [B], [s, B]
    edges: Vec<Vec<Msg>>,
}

fn net1_proto<M: Fragment + 'static>(protocol: &'static str, number: u16) -> Proto {
    Proto { stack: NET1, path: "plexer", protocol, number, eval: net1_eval::<M>, reenc: Box::new(reenc1::<M>), counts_distinct: true, small: vec![], big: None, extended: vec![], edges: vec![] }
}

fn net2_protos(protocol: &'static str, number: u16) -> [Proto; 3] {
    [
        Proto { stack: NET2, path: "interface", protocol, number, eval: net2_iface, reenc: Box::new(move |b| reenc2(number, b)), counts_distinct: false, small: vec![], big: None, extended: vec![], edges: vec![] },
        Proto { stack: NET2, path: "read_full_msgs", protocol, number, eval: net2_eval, reenc: Box::new(move |b| reenc2(number, b)), counts_distinct: true, small: vec![], big: None, extended: vec![], edges: vec![] },
        Proto { stack: NET2, path: "from_payload", protocol, number, eval: net2_direct, reenc: Box::new(move |b| reenc2(number, b)), counts_distinct: false, small: vec![], big: None, extended: vec![], edges: vec![] },
    ]
}

fn protocols() -> Vec<Proto> {
    use m1::{blockfetch as bf, chainsync as cs, handshake as hs, keepalive as ka, localmsgnotification as lmn, localmsgsubmission as lms, localstate as ls, localtxsubmission as ltx, peersharing as ps, txmonitor as tm, txsubmission as txs};
    let mut v = vec![
        net1_proto::<hs::Message<hs::n2n::VersionData>>("handshake-n2n", m1::PROTOCOL_N2N_HANDSHAKE),
        net1_proto::<hs::Message<hs::n2c::VersionData>>("handshake-n2c", m1::PROTOCOL_N2C_HANDSHAKE),
        net1_proto::<cs::Message<cs::HeaderContent>>("chainsync-n2n", m1::PROTOCOL_N2N_CHAIN_SYNC),
        net1_proto::<cs::Message<cs::BlockContent>>("chainsync-n2c", m1::PROTOCOL_N2C_CHAIN_SYNC),
        net1_proto::<cs::Message<cs::SkippedContent>>("chainsync-skip", m1::PROTOCOL_N2N_CHAIN_SYNC),
        net1_proto::<ka::Message>("keepalive", m1::PROTOCOL_N2N_KEEP_ALIVE),
        net1_proto::<ps::Message>("peersharing", m1::PROTOCOL_N2N_PEER_SHARING),
        net1_proto::<txs::Message<txs::EraTxId, txs::EraTxBody>>("txsubmission", m1::PROTOCOL_N2N_TX_SUBMISSION),
        net1_proto::<bf::Message>("blockfetch", m1::PROTOCOL_N2N_BLOCK_FETCH),
        net1_proto::<tm::Message>("txmonitor", m1::PROTOCOL_N2C_TX_MONITOR),
        net1_proto::<ls::Message>("localstate", m1::PROTOCOL_N2C_STATE_QUERY),
        net1_proto::<lmn::Message>("localmsgnotification", m1::PROTOCOL_N2C_MSG_NOTIFICATION),
        net1_proto::<ltx::Message<lms::DmqMsg, lms::DmqMsgValidationError>>("localmsgsubmission", m1::PROTOCOL_N2C_MSG_SUBMISSION),
        net1_proto::<ltx::Message<ltx::EraTx, ltx::TxValidationError>>("localtxsubmission", m1::PROTOCOL_N2C_TX_SUBMISSION),
    ];
    for (name, ch) in [
        ("handshake-n2n", p2::handshake::CHANNEL_ID),
        ("chainsync-n2n", p2::chainsync::CHANNEL_ID),
        ("keepalive", p2::keepalive::CHANNEL_ID),
        ("peersharing", p2::peersharing::CHANNEL_ID),
        ("txsubmission", p2::txsubmission::CHANNEL_ID),
        ("blockfetch", p2::blockfetch::CHANNEL_ID),
        ("leiosnotify", p2::leiosnotify::CHANNEL_ID),
        ("leiosfetch", p2::leiosfetch::CHANNEL_ID),
    ] {
        v.extend(net2_protos(name, ch));
    }
    v
}

fn pattern(n: usize) -> Vec<u8> {
    (0..n).map(|i| ((i * 7 + i / 251 + 3) % 256) as u8).collect()
}

fn find_sub(h: &[u8], n: &[u8]) -> Vec<usize> {
    (0..=h.len().saturating_sub(n.len())).filter(|&i| &h[i..i + n.len()] == n).collect()
}

/// Fill alphabets from the mc-proto enumerators; every message is re-validated
/// (strict single CBOR item, typed decode re-encodes to the same bytes).
/// Returns the protocols and the list of mc-proto cases kept out.
fn load(thorough: bool) -> (Vec<Proto>, Vec<String>) {
    let mut protos = protocols();
    let cases = mc_proto::msgs::all_cases(false);
    // (stack, protocol) -> name -> (bytes, passed C22's round trip)
    let mut table: BTreeMap<(&'static str, &'static str), Vec<(String, Vec<u8>, bool)>> = BTreeMap::new();
    let outs: Vec<_> = cases.par_iter().map(|c| (c.run)()).collect();
    for (c, o) in cases.iter().zip(outs) {
        if let Some(b) = o.bytes {
            table.entry((c.stack, c.protocol)).or_default().push((format!("{}/{}", c.variant, c.shape), b, o.failure.is_none()));
        } else {
            table.entry((c.stack, c.protocol)).or_default().push((format!("{}/{}", c.variant, c.shape), vec![], false));
        }
    }
    let mut excluded = vec![];
    for p in protos.iter_mut() {
        let Some(list) = table.get(&(p.stack, p.protocol)) else {
            mc_core::report::machinery_failure(&format!("C21: mc-proto has no cases for {}/{}", p.stack, p.protocol));
        };
        let alpha = ALPHAS.iter().find(|a| a.protocol == p.protocol).unwrap_or_else(|| mc_core::report::machinery_failure(&format!("C21: no alphabet for {}", p.protocol)));
        let valid = |name: &str, b: &[u8]| -> Result<(), String> {
            mc_proto::msgs::strict_single_item(b).map_err(|f| format!("{}: {}", f.kind, f.detail))?;
            let again = catch(|| (p.reenc)(b)).map_err(|pn| format!("panic {} at {}", pn.message, pn.location))??;
            if again != b {
                return Err(format!("{name}: typed decode re-encodes differently"));
            }
            Ok(())
        };
        let get = |name: &str| -> Msg {
            let Some((_, b, ok)) = list.iter().find(|x| x.0 == name) else {
                mc_core::report::machinery_failure(&format!("C21: alphabet message {}/{}/{name} not produced by mc-proto", p.stack, p.protocol));
            };
            if !*ok {
                mc_core::report::machinery_failure(&format!("C21: alphabet message {}/{}/{name} fails C22's round trip; pick another", p.stack, p.protocol));
            }
            if let Err(e) = valid(name, b) {
                mc_core::report::machinery_failure(&format!("C21: alphabet message {}/{}/{name} fails the precondition: {e}", p.stack, p.protocol));
            }
            Msg { name: name.to_string(), bytes: Arc::new(b.clone()) }
        };
        let n_small = if thorough { alpha.small.len() } else { QUICK_ALPHA.min(alpha.small.len()) };
        let small: Vec<Msg> = alpha.small[..n_small].iter().map(|n| get(n)).collect();
        // a large message made from an mc-proto message by replacing its body
        // byte string with `body_len` patterned bytes (shortest head)
        let craft = |base: &str, item_hex: &str, body_len: usize, label: &str| -> Msg {
            let base_m = get(base);
            let item = hex::decode(item_hex).unwrap();
            let at = find_sub(&base_m.bytes, &item);
            if at.len() != 1 {
                mc_core::report::machinery_failure(&format!("C21: body item {item_hex} occurs {} times in {base}", at.len()));
            }
            let mut b = base_m.bytes[..at[0]].to_vec();
            if body_len < 65536 {
                assert!(body_len >= 256);
                b.push(0x59);
                b.extend_from_slice(&(body_len as u16).to_be_bytes());
            } else {
                b.push(0x5a);
                b.extend_from_slice(&(body_len as u32).to_be_bytes());
            }
            b.extend(pattern(body_len));
            b.extend_from_slice(&base_m.bytes[at[0] + item.len()..]);
            let name = format!("{}/{label}(from {})", base_m.variant(), base);
            if let Err(e) = valid(&name, &b) {
                mc_core::report::machinery_failure(&format!("C21: crafted big message {}/{}/{name} fails the precondition: {e}", p.stack, p.protocol));
            }
            Msg { name, bytes: Arc::new(b) }
        };
        // ... with a chosen TOTAL encoded length
        let craft_total = |base: &str, item_hex: &str, total: usize| -> Msg {
            let framing = get(base).bytes.len() - item_hex.len() / 2;
            let body = if total - framing - 3 <= 65535 { total - framing - 3 } else { total - framing - 5 };
            let m = craft(base, item_hex, body, &format!("total{total}"));
            if m.bytes.len() != total {
                mc_core::report::machinery_failure(&format!("C21: crafted message {} is {} bytes, wanted {total}", m.name, m.bytes.len()));
            }
            m
        };
        let big = alpha.big.map(|(base, item_hex)| craft(base, item_hex, BIG_BODY, "body70000"));
        let mut edges: Vec<Vec<Msg>> = vec![];
        if let Some((base, item_hex)) = alpha.big {
            let s1 = small[1 % small.len()].clone();
            // the third size needs more than two full segments of buffering before it completes
            for total in [MAXSEG, 2 * MAXSEG, 3 * MAXSEG + 1000] {
                edges.push(vec![craft_total(base, item_hex, total)]);
                edges.push(vec![s1.clone(), craft_total(base, item_hex, total - s1.bytes.len())]);
                // the cut at the message boundary leaves B alone in full-size segments
                edges.push(vec![s1.clone(), craft_total(base, item_hex, total)]);
            }
        }
        let mut extended = vec![];
        let mut seen: BTreeSet<Vec<u8>> = BTreeSet::new();
        for m in small.iter().chain(big.iter()) {
            if !seen.insert(m.bytes.to_vec()) {
                mc_core::report::machinery_failure(&format!("C21: alphabet of {}/{} has two messages with the same encoding ({})", p.stack, p.protocol, m.name));
            }
        }
        for (name, b, ok) in list {
            let full = format!("{}/{}/{}", p.stack, p.protocol, name);
            if !*ok {
                if p.counts_distinct {
                    excluded.push(format!("{full}: fails C22 (encoder does not give a well-formed round-tripping item)"));
                }
                continue;
            }
            if b.len() > 4096 || seen.contains(b) {
                continue;
            }
            seen.insert(b.clone());
            match valid(name, b) {
                Ok(()) => extended.push(Msg { name: name.clone(), bytes: Arc::new(b.clone()) }),
                Err(e) => {
                    if p.counts_distinct {
                        excluded.push(format!("{full}: {e}"));
                    }
                }
            }
        }
        p.small = small;
        p.big = big;
        p.extended = extended;
        p.edges = edges;
    }
    (protos, excluded)
}

// ---------------------------------------------------------- segmentations

/// Which family of segmentations a stream gets.
#[derive(Clone, Copy, PartialEq, Debug)]
enum Mode {
    /// sequences over the reduced alphabet and the 70 kB streams: everything
    Full,
    /// single-message sweep in quick: no pairs of cuts beyond `full_n`
    Light,
    /// streams whose large message ends exactly on a multiple of 65535 bytes:
    /// no cut (= the sender's 65535-byte chunking, = uniform 65535) and the
    /// single cuts in the boundary windows
    Edge,
}

impl Mode {
    fn as_str(&self) -> &'static str {
        match self {
            Mode::Full => "full",
            Mode::Light => "light",
            Mode::Edge => "segment-edge",
        }
    }
    fn parse(s: &str) -> Mode {
        match s {
            "light" => Mode::Light,
            "segment-edge" => Mode::Edge,
            _ => Mode::Full,
        }
    }
}

struct Limits {
    /// all 2^(n-1) segmentations up to this stream length
    full_n: usize,
    /// all pairs of cuts up to this stream length
    pair_n: usize,
    /// half-width of the boundary windows used for pairs on longer streams
    pair_window: usize,
}

const UNIFORM: [usize; 5] = [2, 3, 7, 255, 65535];
const EDGE_UNIFORM: [usize; 3] = [4096, 12_288, 40_000];
/// Above this length single cuts are taken from a reduced position set.
const DENSE_N: usize = 4096;
const SINGLE_WINDOW: usize = 48;
const STRIDE: usize = 1009;

/// Cut every segment longer than 65535 bytes at 65535-byte steps (what any
/// sender has to do: the header carries a 16-bit length).
fn normalize(cuts: &[u32], n: usize) -> Vec<u32> {
    let mut out = Vec::with_capacity(cuts.len() + n / MAXSEG + 1);
    let mut prev = 0usize;
    for &c in cuts.iter().chain(std::iter::once(&(n as u32))) {
        let c = c as usize;
        while c - prev > MAXSEG {
            prev += MAXSEG;
            out.push(prev as u32);
        }
        if c < n {
            out.push(c as u32);
        }
        prev = c;
    }
    out
}

fn window_positions(n: usize, bounds: &[usize], w: usize) -> BTreeSet<u32> {
    let mut s = BTreeSet::new();
    let mut starts = vec![0usize];
    starts.extend_from_slice(bounds);
    for b in starts {
        for p in b.saturating_sub(w)..=(b + w) {
            if p >= 1 && p < n {
                s.insert(p as u32);
            }
        }
    }
    let mut m = MAXSEG;
    while m < n + 3 {
        for p in m.saturating_sub(2)..=m + 2 {
            if p >= 1 && p < n {
                s.insert(p as u32);
            }
        }
        m += MAXSEG;
    }
    s
}

/// Calls `f(cuts, empty_at)` for every segmentation of the family, each once.
/// `bounds` = end offsets of the messages. `light` = single-message sweep of
/// the extended alphabet (pairs only within `full_n`).
fn for_each_seg(n: usize, bounds: &[usize], lim: &Limits, mode: Mode, f: &mut dyn FnMut(&[u32], Option<u32>)) {
    if mode == Mode::Edge {
        let mut set: BTreeSet<Vec<u32>> = BTreeSet::new();
        set.insert(normalize(&[], n));
        set.insert(normalize(&(1..).map(|i| (i * MAXSEG) as u32).take_while(|&c| (c as usize) < n).collect::<Vec<_>>(), n));
        // mid-size segments (a sender cutting below the maximum): many short reads while the
        // receiver buffers an ever longer incomplete message
        for k in EDGE_UNIFORM {
            if k < n {
                set.insert(normalize(&(1..).map(|i| (i * k) as u32).take_while(|&c| (c as usize) < n).collect::<Vec<_>>(), n));
            }
        }
        for c in window_positions(n, bounds, SINGLE_WINDOW) {
            set.insert(normalize(&[c], n));
        }
        for cuts in &set {
            f(cuts, None);
        }
        return;
    }
    let light = mode == Mode::Light;
    // the explicit empty segments: one in the middle of the stream (normally
    // inside a message) and, with two or more messages, one exactly between
    // the first two messages (the receiver's buffer is empty at that moment)
    let mut empties: Vec<u32> = vec![(n / 2).max(1) as u32];
    if bounds.len() >= 2 && bounds[0] as u32 != empties[0] {
        empties.push(bounds[0] as u32);
    }
    if n <= lim.full_n {
        let mut cuts: Vec<u32> = Vec::with_capacity(n);
        for mask in 0u32..(1u32 << (n - 1)) {
            cuts.clear();
            for i in 0..(n - 1) {
                if mask >> i & 1 == 1 {
                    cuts.push(i as u32 + 1);
                }
            }
            f(&cuts, None);
        }
        for &e in &empties {
            f(&[e], Some(e));
        }
        return;
    }
    let mut set: BTreeSet<Vec<u32>> = BTreeSet::new();
    set.insert(normalize(&[], n));
    // single cuts
    let singles: Vec<u32> = if n <= DENSE_N {
        (1..n as u32).collect()
    } else {
        let mut s = window_positions(n, bounds, SINGLE_WINDOW);
        let mut p = STRIDE;
        while p < n {
            s.insert(p as u32);
            p += STRIDE;
        }
        s.into_iter().collect()
    };
    for &c in &singles {
        set.insert(normalize(&[c], n));
    }
    // pairs of cuts
    if !light {
        let pairs: Vec<u32> = if n <= lim.pair_n { (1..n as u32).collect() } else { window_positions(n, bounds, lim.pair_window).into_iter().collect() };
        for i in 0..pairs.len() {
            for j in i + 1..pairs.len() {
                set.insert(normalize(&[pairs[i], pairs[j]], n));
            }
        }
    }
    // all 1-byte segments and uniform k-byte segments
    set.insert((1..n as u32).collect());
    for k in UNIFORM {
        if k < n {
            set.insert(normalize(&(1..).map(|i| (i * k) as u32).take_while(|&c| (c as usize) < n).collect::<Vec<_>>(), n));
        }
    }
    for cuts in &set {
        f(cuts, None);
    }
    // ... | [] | ...
    for &e in &empties {
        f(&normalize(&[e], n), Some(e));
    }
}

fn build_segments(stream: &[u8], cuts: &[u32], empty_at: Option<u32>) -> Vec<Vec<u8>> {
    let mut segs = Vec::with_capacity(cuts.len() + 2);
    let mut prev = 0usize;
    for &c in cuts {
        segs.push(stream[prev..c as usize].to_vec());
        if empty_at == Some(c) {
            segs.push(Vec::new());
        }
        prev = c as usize;
    }
    segs.push(stream[prev..].to_vec());
    segs
}

// ------------------------------------------------------------------ oracle

struct Verdict {
    class: &'static str,
    /// message being reassembled when it went wrong
    at: String,
    detail: String,
}

fn short_hex(b: &[u8]) -> String {
    if b.len() <= 48 {
        hex::encode(b)
    } else {
        format!("{}..({} bytes)", hex::encode(&b[..48]), b.len())
    }
}

fn judge(p: &Proto, msgs: &[&Msg], sentinel: &Msg, out: &EvalOut) -> Option<Verdict> {
    let k = msgs.len();
    let name_at = |i: usize| if i < k { msgs[i].variant().to_string() } else { format!("after-{}", msgs[k - 1].variant()) };
    for (i, g) in out.got.iter().enumerate() {
        if i >= k {
            return Some(Verdict { class: "extra-message", at: name_at(k), detail: format!("{} messages yielded for a stream of {k}; extra one re-encodes to {}", out.got.len(), short_hex(g)) });
        }
        if g[..] != msgs[i].bytes[..] {
            return Some(Verdict { class: "wrong-message", at: name_at(i), detail: format!("message #{i} re-encodes to {} instead of {}", short_hex(g), short_hex(&msgs[i].bytes)) });
        }
    }
    if let Some((class, detail)) = &out.error {
        if out.in_sentinel {
            return Some(Verdict { class: "left-over-bytes", at: name_at(k), detail: format!("all {k} messages arrived, but the complete message sent afterwards failed with {class}: {detail}") });
        }
        return Some(Verdict { class, at: name_at(out.got.len()), detail: format!("while reassembling message #{}: {detail}", out.got.len()) });
    }
    if out.got.len() < k {
        return Some(Verdict { class: "stalled", at: name_at(out.got.len()), detail: format!("only {} of {k} messages were yielded although every segment was sent (receiver blocked)", out.got.len()) });
    }
    if p.stack == NET1 {
        match &out.sentinel {
            None => return Some(Verdict { class: "left-over-bytes", at: name_at(k), detail: "the complete message sent after the stream never arrived".into() }),
            Some(s) if s[..] != sentinel.bytes[..] => {
                return Some(Verdict { class: "left-over-bytes", at: name_at(k), detail: format!("the complete message sent after the stream arrived as {} instead of {}", short_hex(s), short_hex(&sentinel.bytes)) })
            }
            _ => {}
        }
    } else {
        match out.leftover {
            Some(0) => {}
            Some(x) => return Some(Verdict { class: "left-over-bytes", at: name_at(k), detail: format!("partial_chunks holds {x} bytes after the last segment") }),
            None => return Some(Verdict { class: "stalled", at: name_at(k), detail: "the reader did not consume every segment".into() }),
        }
    }
    if !out.finished {
        return Some(Verdict { class: "stalled", at: name_at(k), detail: "run did not finish".into() });
    }
    None
}

// -------------------------------------------------------------------- jobs

struct Job {
    proto: usize,
    msgs: Vec<Msg>,
    mode: Mode,
    kind: &'static str,
    cost: u64,
}

struct Found {
    class: String,
    at: String,
    panic_site: Option<String>,
    what: String,
    case: Value,
    key: (usize, usize),
    count: u64,
}

#[derive(Default)]
struct JobRes {
    evals: u64,
    nontrivial: u64,
    msgs_ok: u64,
    full_enum: bool,
    ends_on_full_segment: u64,
    found: Vec<Found>,
    sample: Option<Value>,
}

fn case_json(p: &Proto, msgs: &[Msg], n: usize, cuts: &[u32], empty_at: Option<u32>, ordinal: u64, mode: Mode) -> Value {
    let cuts_v: Value = if cuts.len() <= 64 { json!(cuts) } else { json!({"count": cuts.len(), "first": &cuts[..8], "uniform_step": if cuts.windows(2).all(|w| w[1] - w[0] == cuts[0]) { Some(cuts[0]) } else { None }}) };
    json!({
        "stack": p.stack, "path": p.path, "protocol": p.protocol,
        "messages": msgs.iter().map(|m| m.name.clone()).collect::<Vec<_>>(),
        "message_hex": msgs.iter().map(|m| short_hex(&m.bytes)).collect::<Vec<_>>(),
        "stream_len": n, "cuts": cuts_v, "empty_segment_at": empty_at,
        // position in the enumeration of this stream's segmentations (used by
        // --replay when the cut list is abbreviated; same tier required)
        "segmentation_ordinal": ordinal, "mode": mode.as_str(),
    })
}

fn run_one(p: &Proto, msgs: &[Msg], stream: &[u8], cuts: &[u32], empty_at: Option<u32>, flip: bool) -> Result<Option<Verdict>, mc_core::panics::PanicInfo> {
    let sentinel = &p.small[0];
    let segs = build_segments(stream, cuts, empty_at);
    let inp = EvalIn { number: p.number, segs, k: msgs.len(), sentinel: sentinel.bytes.to_vec(), flip };
    let out = catch(|| (p.eval)(inp))?;
    let refs: Vec<&Msg> = msgs.iter().collect();
    Ok(judge(p, &refs, sentinel, &out))
}

fn run_job(protos: &[Proto], job: &Job, idx: usize, lim: &Limits) -> JobRes {
    let p = &protos[job.proto];
    let mut stream = Vec::new();
    let mut bounds = vec![];
    for m in &job.msgs {
        stream.extend_from_slice(&m.bytes);
        bounds.push(stream.len());
    }
    let n = stream.len();
    let mut res = JobRes { full_enum: n <= lim.full_n, ..Default::default() };
    let flip = idx % 2 == 1;
    let mut ordinal = 0u64;
    for_each_seg(n, &bounds, lim, job.mode, &mut |cuts, empty_at| {
        ordinal += 1;
        res.evals += 1;
        // a message that ends exactly where a full-size (65535-byte) segment ends
        {
            let mut prev = 0u32;
            for &c in cuts.iter().chain(std::iter::once(&(n as u32))) {
                if (c - prev) as usize == MAXSEG && bounds.contains(&(c as usize)) {
                    res.ends_on_full_segment += 1;
                    break;
                }
                prev = c;
            }
        }
        let nontrivial = cuts.iter().any(|c| !bounds.contains(&(*c as usize)));
        if nontrivial && empty_at.is_none() {
            res.nontrivial += 1;
        }
        if res.sample.is_none() && nontrivial && cuts.len() >= 2 && ordinal >= 5 {
            res.sample = Some(case_json(p, &job.msgs, n, cuts, empty_at, ordinal, job.mode));
        }
        let (class, at, site, what) = match run_one(p, &job.msgs, &stream, cuts, empty_at, flip) {
            Ok(None) => {
                res.msgs_ok += job.msgs.len() as u64;
                return;
            }
            Ok(Some(v)) => (v.class.to_string(), v.at, None, v.detail),
            Err(pn) => ("panic".to_string(), String::new(), Some(pn.site()), format!("panicked: {} at {}", pn.message, pn.location)),
        };
        // a failure of the empty-segment case is attributed to the empty
        // segment only if the same cuts without it pass
        let (class, at, what) = if empty_at.is_some() && matches!(run_one(p, &job.msgs, &stream, cuts, None, flip), Ok(None)) {
            ("empty-segment".to_string(), String::new(), format!("a zero-length segment between two segments breaks reassembly ({class} at {at}): {what}"))
        } else {
            (class, at, what)
        };
        let key = (n, cuts.len() + empty_at.is_some() as usize);
        if let Some(f) = res.found.iter_mut().find(|f| f.class == class && f.at == at && f.panic_site == site) {
            f.count += 1;
            if key < f.key {
                f.key = key;
                f.what = what;
                f.case = case_json(p, &job.msgs, n, cuts, empty_at, ordinal, job.mode);
            }
        } else {
            res.found.push(Found { class, at, panic_site: site, what, case: case_json(p, &job.msgs, n, cuts, empty_at, ordinal, job.mode), key, count: 1 });
        }
    });
    res
}

fn est_cost(n: usize, mode: Mode, lim: &Limits) -> u64 {
    let n64 = n as u64;
    if mode == Mode::Edge {
        return 400 * (n64 / 64);
    }
    let light = mode == Mode::Light;
    if n <= lim.full_n {
        (1u64 << (n - 1)) * n64
    } else if n <= DENSE_N {
        let pairs = if !light && n <= lim.pair_n { n64 * n64 / 2 } else { 2000 };
        (n64 + pairs) * (n64 / 64 + 2) + n64 * 4
    } else {
        (800 + if light { 0 } else { 3000 }) * (n64 / 64) + n64 * 6
    }
}

fn jobs(protos: &[Proto], lim: &Limits, thorough: bool) -> Vec<Job> {
    let mut v = vec![];
    for (pi, p) in protos.iter().enumerate() {
        let a = p.small.len();
        let mut push = |msgs: Vec<Msg>, mode: Mode, kind: &'static str| {
            let n: usize = msgs.iter().map(|m| m.bytes.len()).sum();
            v.push(Job { proto: pi, msgs, mode, kind, cost: est_cost(n, mode, lim) });
        };
        for i in 0..a {
            push(vec![p.small[i].clone()], Mode::Full, "sequence");
            for j in 0..a {
                push(vec![p.small[i].clone(), p.small[j].clone()], Mode::Full, "sequence");
                for k in 0..a {
                    push(vec![p.small[i].clone(), p.small[j].clone(), p.small[k].clone()], Mode::Full, "sequence");
                }
            }
        }
        if let Some(b) = &p.big {
            let (s1, s2) = (p.small[1 % a].clone(), p.small[2 % a].clone());
            push(vec![b.clone()], Mode::Full, "big");
            push(vec![s1.clone(), b.clone(), s2.clone()], Mode::Full, "big");
            if thorough {
                push(vec![s1.clone(), b.clone()], Mode::Full, "big");
                push(vec![b.clone(), s2.clone()], Mode::Full, "big");
                push(vec![b.clone(), b.clone()], Mode::Full, "big");
            }
        }
        for m in &p.extended {
            push(vec![m.clone()], if thorough { Mode::Full } else { Mode::Light }, "single-message");
        }
        for e in &p.edges {
            push(e.clone(), Mode::Edge, "segment-edge");
        }
    }
    v
}

// --------------------------------------------------------------------- run

fn replay(ctx: &Ctx, protos: &[Proto], lim: &Limits, path: &std::path::Path) -> ! {
    let v: Value = std::fs::read_to_string(path).ok().and_then(|s| serde_json::from_str(&s).ok()).unwrap_or_else(|| mc_core::report::machinery_failure("C21: unreadable replay file"));
    let c = &v["case"];
    let g = |k: &str| c[k].as_str().unwrap_or("").to_string();
    let Some(p) = protos.iter().find(|p| p.stack == g("stack") && p.path == g("path") && p.protocol == g("protocol")) else {
        mc_core::report::machinery_failure("C21: replay names an unknown stack/path/protocol");
    };
    let mut msgs = vec![];
    for name in c["messages"].as_array().cloned().unwrap_or_default() {
        let name = name.as_str().unwrap_or("");
        let m = p.small.iter().chain(p.big.iter()).chain(p.extended.iter()).chain(p.edges.iter().flatten()).find(|m| m.name == name);
        match m {
            Some(m) => msgs.push(m.clone()),
            None => mc_core::report::machinery_failure(&format!("C21: replay message {name} not in the alphabet of this tier (try --tier thorough)")),
        }
    }
    let stream: Vec<u8> = msgs.iter().flat_map(|m| m.bytes.iter().cloned()).collect();
    let cuts: Vec<u32> = match &c["cuts"] {
        Value::Array(a) => a.iter().filter_map(|x| x.as_u64().map(|x| x as u32)).collect(),
        _ => {
            // abbreviated: re-enumerate the stream's segmentations and take the recorded one
            let want = c["segmentation_ordinal"].as_u64().unwrap_or(0);
            let mode = Mode::parse(c["mode"].as_str().unwrap_or("full"));
            let mut bounds = vec![];
            let mut at = 0;
            for m in &msgs {
                at += m.bytes.len();
                bounds.push(at);
            }
            let mut found: Option<Vec<u32>> = None;
            let mut ordinal = 0u64;
            for_each_seg(stream.len(), &bounds, lim, mode, &mut |cuts, _| {
                ordinal += 1;
                if ordinal == want {
                    found = Some(cuts.to_vec());
                }
            });
            found.unwrap_or_else(|| mc_core::report::machinery_failure("C21: recorded segmentation ordinal not found (run the replay with the tier that produced it)"))
        }
    };
    let empty_at = c["empty_segment_at"].as_u64().map(|x| x as u32);
    println!("replay C21 {} {} {}: {} messages, {} bytes, {} cuts, tier {}", p.stack, p.path, p.protocol, msgs.len(), stream.len(), cuts.len(), ctx.tier());
    for flip in [false, true] {
        match run_one(p, &msgs, &stream, &cuts, empty_at, flip) {
            Ok(None) => println!("  flip={flip}: all messages reassembled, nothing left over"),
            Ok(Some(v)) => println!("  flip={flip}: {} at {}: {}", v.class, v.at, v.detail),
            Err(pn) => println!("  flip={flip}: panic {} at {}", pn.message, pn.location),
        }
    }
    std::process::exit(0)
}

pub fn run(ctx: Ctx) -> ! {
    let thorough = ctx.thorough;
    let lim = if thorough { Limits { full_n: 18, pair_n: 300, pair_window: 16 } } else { Limits { full_n: 14, pair_n: 120, pair_window: 6 } };
    let (protos, excluded) = load(thorough);
    if let Some(p) = &ctx.replay {
        replay(&ctx, &protos, &lim, p);
    }
    let mut js = jobs(&protos, &lim, thorough);
    // heavy jobs first (stable order => deterministic job indices)
    js.sort_by(|a, b| b.cost.cmp(&a.cost));
    let profile = std::env::var("VERIF_C21_PROFILE").is_ok();
    let t0 = std::time::Instant::now();
    let results: Vec<JobRes> = js
        .par_iter()
        .enumerate()
        .with_max_len(1)
        .map(|(i, j)| {
            let t = std::time::Instant::now();
            let r = run_job(&protos, j, i, &lim);
            if profile && t.elapsed().as_secs_f64() > 0.5 {
                // diagnostics only (never part of the verdict or the evidence)
                eprintln!("profile: job {i} {} {} {:?} n={} evals={} took {:.2}s (started at {:.2}s) est={}", protos[j.proto].path, protos[j.proto].protocol, j.msgs.iter().map(|m| m.name.as_str()).collect::<Vec<_>>(), j.msgs.iter().map(|m| m.bytes.len()).sum::<usize>(), r.evals, t.elapsed().as_secs_f64(), (t0.elapsed() - t.elapsed()).as_secs_f64(), j.cost);
            }
            r
        })
        .collect();

    // ---- aggregate (in job order: deterministic)
    #[derive(Default)]
    struct PerProto {
        streams: u64,
        evals: u64,
        nontrivial: u64,
        msgs_ok: u64,
        full_enum_streams: u64,
        big_streams: u64,
        edge_streams: u64,
        ends_on_full_segment: u64,
    }
    let mut per: BTreeMap<String, PerProto> = BTreeMap::new();
    let (mut evals, mut distinct, mut msgs_ok) = (0u64, 0u64, 0u64);
    let mut samples: Vec<Value> = vec![];
    let mut sampled: BTreeSet<String> = BTreeSet::new();
    // (stack, class, protocol, at, site) -> merged finding
    let mut merged: BTreeMap<(String, String, String, String, Option<String>), Found> = BTreeMap::new();
    for (j, r) in js.iter().zip(results) {
        let p = &protos[j.proto];
        let key = format!("{}/{}/{}", p.stack, p.path, p.protocol);
        let e = per.entry(key.clone()).or_default();
        e.streams += 1;
        e.evals += r.evals;
        e.msgs_ok += r.msgs_ok;
        e.full_enum_streams += r.full_enum as u64;
        e.big_streams += (j.kind == "big") as u64;
        e.edge_streams += (j.kind == "segment-edge") as u64;
        e.ends_on_full_segment += r.ends_on_full_segment;
        evals += r.evals;
        msgs_ok += r.msgs_ok;
        if p.counts_distinct {
            e.nontrivial += r.nontrivial;
            distinct += r.nontrivial;
        }
        if let Some(s) = r.sample {
            let tag = format!("{}/{}", p.stack, j.kind);
            if samples.len() < 12 && sampled.insert(tag) {
                samples.push(s);
            }
        }
        for f in r.found {
            let k = (p.stack.to_string(), f.class.clone(), p.protocol.to_string(), f.at.clone(), f.panic_site.clone());
            match merged.get_mut(&k) {
                Some(m) => {
                    m.count += f.count;
                    if f.key < m.key {
                        m.key = f.key;
                        m.what = f.what;
                        m.case = f.case;
                    }
                }
                None => {
                    merged.insert(k, f);
                }
            }
        }
    }

    // ---- fingerprints: a class seen in most protocols of a stack is one
    // stack-level defect, otherwise it is named by protocol and message
    let mut protos_of_class: BTreeMap<(String, String), BTreeSet<String>> = BTreeMap::new();
    for (stack, class, proto, _, site) in merged.keys() {
        if site.is_none() {
            protos_of_class.entry((stack.clone(), class.clone())).or_default().insert(proto.clone());
        }
    }
    for ((stack, class, proto, at, site), f) in &merged {
        let n_stack = protos.iter().filter(|p| p.stack == stack && p.counts_distinct).count();
        let fp = if let Some(s) = site {
            s.clone()
        } else if protos_of_class[&(stack.clone(), class.clone())].len() * 2 > n_stack {
            format!("reassembly:{stack}:{class}")
        } else {
            if at.is_empty() {
                format!("reassembly:{stack}:{class}:{proto}")
            } else {
                format!("reassembly:{stack}:{class}:{proto}::{at}")
            }
        };
        ctx.violation(fp.clone(), format!("{stack} {proto}: {}", f.what), f.case.clone());
        for _ in 1..f.count.min(1_000_000) {
            ctx.violation(fp.clone(), "", Value::Null);
        }
    }

    // ---- vacuity guards
    if ctx.violation_count() == 0 {
        for p in &protos {
            let key = format!("{}/{}/{}", p.stack, p.path, p.protocol);
            let e = per.get(&key).unwrap_or_else(|| mc_core::report::machinery_failure(&format!("C21: no stream for {key}")));
            if e.evals == 0 || e.msgs_ok == 0 || (p.counts_distinct && e.nontrivial == 0) {
                mc_core::report::machinery_failure(&format!("C21: {key} was not exercised (vacuous)"));
            }
            if p.big.is_some() && e.big_streams == 0 {
                mc_core::report::machinery_failure(&format!("C21: {key}: no stream with the 70 kB body"));
            }
            if p.big.is_some() && (e.edge_streams < 6 || e.ends_on_full_segment < 6) {
                mc_core::report::machinery_failure(&format!("C21: {key}: no segmentation in which a message ends exactly where a 65535-byte segment ends"));
            }
        }
        if per.values().all(|e| e.full_enum_streams == 0) {
            mc_core::report::machinery_failure("C21: no stream short enough for the complete 2^(n-1) enumeration");
        }
    }

    let per_json: BTreeMap<String, Value> = per
        .iter()
        .map(|(k, e)| {
            (
                k.clone(),
                json!({"streams": e.streams, "segmentations_executed": e.evals, "with_a_split_message": e.nontrivial, "messages_received_intact": e.msgs_ok,
                       "streams_with_all_2^(n-1)_segmentations": e.full_enum_streams, "streams_with_70kB_body": e.big_streams,
                       "streams_ending_on_a_65535_multiple": e.edge_streams, "segmentations_with_a_message_ending_on_a_full_size_segment": e.ends_on_full_segment}),
            )
        })
        .collect();
    let alphabets: BTreeMap<String, Value> = protos
        .iter()
        .filter(|p| p.counts_distinct)
        .map(|p| {
            (
                format!("{}/{}", p.stack, p.protocol),
                json!({"sequence_alphabet": p.small.iter().map(|m| format!("{} [{} B]", m.name, m.bytes.len())).collect::<Vec<_>>(),
                       "big": p.big.as_ref().map(|m| format!("{} [{} B]", m.name, m.bytes.len())),
                       "segment_edge_streams": p.edges.iter().map(|e| e.iter().map(|m| format!("{} [{} B]", m.name, m.bytes.len())).collect::<Vec<_>>()).collect::<Vec<_>>(),
                       "single_message_sweep": p.extended.len()}),
            )
        })
        .collect();
    let rule = format!(
        "evaluation = one (stream, segmentation) executed on one real receive path (pallas-network: enqueue_chunk -> Muxer -> pipe -> Demuxer -> ChannelBuffer::recv_full_msg::<protocol message type>, then a complete sentinel message; pallas-network2: write_segment -> pipe -> read_full_msgs::<AnyMessage> once per segment, partial_chunks empty at the end; AnyMessage::from_payload fed the same segments directly; and write_segment -> pipe -> the real TcpInterface event loop (hook H6; its recv future is re-queued by on_recv with the partial-chunk buffer), Recv events collected, then a complete sentinel message that must come out intact). \
         Streams per protocol: (a) every sequence of 1..3 messages over the protocol's reduced alphabet (first {QUICK_ALPHA} entries in quick, all 7 in thorough; listed under `alphabets`), (b) streams with one crafted message carrying a {BIG_BODY}-byte body where the protocol has a body field ([B], [s,B,s'] in quick; also [s,B], [B,s'], [B,B] in thorough), (b') where the protocol has a body field, six streams whose large message can end exactly where a full-size segment ends: [B] with |B| = 65535, = 131070 and = 197605 bytes, [s,B] with |s|+|B| = those sizes, and [s,B] with |B| = those sizes (body length chosen from the target), run with no cut (= the sender's 65535-byte chunking = uniform 65535), uniform 4096 / 12288 / 40000-byte segments and every single cut within {SINGLE_WINDOW} bytes of a message start/end or 2 of a 65535 multiple; the receiver has to yield every stream message BEFORE the sentinel is enqueued (a receiver that waits for more data is reported as stalled), (c) every other mc-proto message of the protocol that passes C22 and is <= 4096 bytes, as a single-message stream. \
         Segmentations of a stream of n bytes: n <= {} : all 2^(n-1) cut sets; otherwise: no cut, every single cut (n <= {DENSE_N}: every position; longer: every position within {SINGLE_WINDOW} bytes of a message start/end, within 2 of a multiple of 65535, and every {STRIDE}th byte), every pair of cuts (n <= {}: all positions; longer streams: positions within {} bytes of a message boundary / 65535 multiple; not for (c) in quick), the all-1-byte segmentation, uniform k-byte segmentations k in {{2,3,7,255,65535}}, and segmentations with an EMPTY segment (one in the middle of the stream, and, for streams of >= 2 messages, one exactly between the first two messages). Segments longer than 65535 bytes are further cut at 65535-byte steps. Odd job indices run server->client / with the server bit set. \
         distinct_nontrivial = number of distinct (stack, protocol, stream, cut set) in which at least one cut lies strictly inside a message (counted once for the three pallas-network2 paths; the empty-segment case is not counted).",
        lim.full_n, lim.pair_n, lim.pair_window
    );
    let cov = cov! {
        "evaluations" => evals,
        "distinct_nontrivial" => distinct,
        "rule" => rule,
        "samples" => samples,
        "per_protocol" => per_json,
        "alphabets" => alphabets,
        "streams" => js.len(),
        "messages_received_intact" => msgs_ok,
        "excluded_from_alphabet" => excluded,
        "limits" => json!({"all_segmentations_up_to_n": lim.full_n, "all_pairs_up_to_n": lim.pair_n, "max_messages_per_stream": 3}),
    };
    ctx.finish(
        Level::FaultEnumeration,
        cov,
        &[
            "message sequences ignore the protocol state machine (the channel layer is state-agnostic)",
            "alphabet messages are those whose pallas encoding is one well-formed CBOR item that re-encodes to itself (checked with the strict reference parser and ciborium); C22's findings are excluded",
            "pallas-network2 is exercised on the eight channels AnyMessage knows (handshake n2n, chainsync n2n, blockfetch, txsubmission, keepalive, peersharing, leiosnotify, leiosfetch); it has no message type for the node-to-client protocols",
            "default deterministic schedule of the plexer loops (the quantifier is over inputs; schedules are C20's)",
            "streams longer than 4096 bytes: cut positions reduced to boundary windows + stride; segments > 65535 bytes cannot exist on the wire",
        ],
    )
}
