fn main() {
    let ctx = mc_core::Ctx::from_args();
    match ctx.prop.as_str() {
        "LIST" => {
            for c in mc_proto::msgs::all_cases(false) {
                let o = (c.run)();
                println!("{}\t{}\t{}/{}\t{}\t{}\t{}", c.stack, c.protocol, c.variant, c.shape, o.bytes.as_ref().map(|b| b.len() as i64).unwrap_or(-1), o.failure.as_ref().map(|f| f.kind).unwrap_or("ok"), o.bytes.as_ref().map(|b| hex::encode(&b[..b.len().min(24)])).unwrap_or_default());
            }
        }
        p => mc_core::report::machinery_failure(&format!("mc-seg does not serve {p} yet")),
    }
}
