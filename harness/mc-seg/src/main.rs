mod c21;

fn main() {
    let ctx = mc_core::Ctx::from_args();
    match ctx.prop.as_str() {
        "C21" => c21::run(ctx),
        p => mc_core::report::machinery_failure(&format!("mc-seg does not serve {p}")),
    }
}
