//! Evaluation core shared by the worker subprocesses (batches) and the parent
//! (witness reconstruction, shrinking, replay).

use crate::entries::{self, Entry, Res};
use crate::faults::{self, Fault, Plan, Tuning};
use crate::seeds::{self, Seed};
use mc_core::{json, Value};
use std::collections::{BTreeMap, BTreeSet};

#[derive(Clone, Copy, Debug, PartialEq, Eq, PartialOrd, Ord)]
pub enum Unit {
    Single(usize),
    Splice(usize, usize),
    Short(usize),
}

impl Unit {
    pub fn to_line(&self, lo: u64, hi: u64) -> String {
        match self {
            Unit::Single(s) => format!("S {s} {lo} {hi}"),
            Unit::Splice(a, b) => format!("P {a} {b} {lo} {hi}"),
            Unit::Short(e) => format!("H {e} {lo} {hi}"),
        }
    }
    pub fn parse(line: &str) -> Option<(Unit, u64, u64)> {
        let p: Vec<&str> = line.split_whitespace().collect();
        let n = |i: usize| p.get(i).and_then(|x| x.parse::<u64>().ok());
        match *p.first()? {
            "S" => Some((Unit::Single(n(1)? as usize), n(2)?, n(3)?)),
            "P" => Some((Unit::Splice(n(1)? as usize, n(2)? as usize), n(3)?, n(4)?)),
            "H" => Some((Unit::Short(n(1)? as usize), n(2)?, n(3)?)),
            _ => None,
        }
    }
}

pub struct World {
    pub cat: Vec<Entry>,
    pub seeds: Vec<Seed>,
    pub tuning: Tuning,
    /// Machinery validation only (env C09_INJECT_ABORT="<entry name>|<hex
    /// prefix>"): abort the process when that entry point is about to be called
    /// with an input starting with that prefix.
    pub inject: Option<(usize, Vec<u8>)>,
}

#[derive(Default, Clone, Debug)]
pub struct EntryStat {
    pub calls: u64,
    pub ok: u64,
    pub err: u64,
    pub panic: u64,
    pub skip: u64,
    pub nontrivial: u64,
}

#[derive(Clone, Debug)]
pub struct Finding {
    pub count: u64,
    /// First (smallest call index) witness of this batch.
    pub call: u64,
    pub entry: usize,
    pub message: String,
    pub location: String,
}

#[derive(Default, Clone, Debug)]
pub struct BatchResult {
    pub evaluated: u64,
    pub noop: u64,
    pub per_entry: BTreeMap<usize, EntryStat>,
    pub err_classes: BTreeMap<usize, BTreeSet<String>>,
    pub by_class: BTreeMap<String, u64>,
    pub viol: BTreeMap<String, Finding>,
    pub diag: BTreeMap<String, Finding>,
    /// Entry points that returned a value for an unfaulted seed.
    pub base_ok: BTreeSet<usize>,
    /// Wall time of the batch in the worker (diagnostic only).
    pub micros: u64,
}

const MAX_CLASSES: usize = 48;

impl BatchResult {
    pub fn to_json(&self) -> Value {
        let f = |m: &BTreeMap<String, Finding>| -> Value { Value::Object(m.iter().map(|(k, v)| (k.clone(), json!([v.count, v.call, v.entry, v.message, v.location]))).collect()) };
        json!({
            "ev": self.evaluated,
            "noop": self.noop,
            "pe": Value::Object(self.per_entry.iter().map(|(k, s)| (k.to_string(), json!([s.calls, s.ok, s.err, s.panic, s.skip, s.nontrivial]))).collect()),
            "ec": Value::Object(self.err_classes.iter().map(|(k, s)| (k.to_string(), json!(s.iter().collect::<Vec<_>>()))).collect()),
            "bc": self.by_class,
            "viol": f(&self.viol),
            "diag": f(&self.diag),
            "us": self.micros,
            "bok": self.base_ok.iter().collect::<Vec<_>>(),
        })
    }
    pub fn from_json(v: &Value) -> Option<BatchResult> {
        let mut r = BatchResult { evaluated: v.get("ev")?.as_u64()?, noop: v.get("noop")?.as_u64()?, micros: v.get("us")?.as_u64()?, ..Default::default() };
        for (k, s) in v.get("pe")?.as_object()? {
            let a: Vec<u64> = s.as_array()?.iter().filter_map(|x| x.as_u64()).collect();
            if a.len() != 6 {
                return None;
            }
            r.per_entry.insert(k.parse().ok()?, EntryStat { calls: a[0], ok: a[1], err: a[2], panic: a[3], skip: a[4], nontrivial: a[5] });
        }
        for (k, s) in v.get("ec")?.as_object()? {
            r.err_classes.insert(k.parse().ok()?, s.as_array()?.iter().filter_map(|x| x.as_str().map(String::from)).collect());
        }
        r.base_ok = v.get("bok")?.as_array()?.iter().filter_map(|x| x.as_u64().map(|x| x as usize)).collect();
        for (k, n) in v.get("bc")?.as_object()? {
            r.by_class.insert(k.clone(), n.as_u64()?);
        }
        for (name, dst) in [("viol", &mut r.viol), ("diag", &mut r.diag)] {
            for (k, f) in v.get(name)?.as_object()? {
                let a = f.as_array()?;
                dst.insert(
                    k.clone(),
                    Finding { count: a.first()?.as_u64()?, call: a.get(1)?.as_u64()?, entry: a.get(2)?.as_u64()? as usize, message: a.get(3)?.as_str()?.to_string(), location: a.get(4)?.as_str()?.to_string() },
                );
            }
        }
        Some(r)
    }
}

pub struct Materialised {
    pub bytes: Vec<u8>,
    pub entry: usize,
    pub desc: String,
}

impl World {
    pub fn new(tuning: Tuning) -> World {
        let cat = entries::catalogue();
        let seeds = seeds::build(&cat);
        let inject = std::env::var("C09_INJECT_ABORT").ok().and_then(|v| {
            let (name, hexp) = v.split_once('|')?;
            Some((entries::find(&cat, name), hex::decode(hexp).ok()?))
        });
        World { cat, seeds, tuning, inject }
    }

    /// Catalogue only (probe workers: replay, shrinking, samples).
    pub fn probe_only(tuning: Tuning) -> World {
        World { cat: entries::catalogue(), seeds: vec![], tuning, inject: None }
    }

    #[inline]
    fn call(&self, id: usize, input: &[u8], cheap: bool) -> entries::CallOut {
        if let Some((e, prefix)) = &self.inject {
            if *e == id && input.starts_with(prefix) {
                std::process::abort();
            }
        }
        (self.cat[id].call)(input, cheap)
    }

    pub fn cheap(seed: &Seed) -> bool {
        seed.bytes.len() > faults::FULL_LIMIT
    }

    pub fn splice_cuts(&self, s: usize) -> Vec<usize> {
        let seed = &self.seeds[s];
        seeds::cut_points(seed, self.tuning.splice_depth(&seed.family))
    }

    pub fn unit_calls(&self, u: &Unit) -> u64 {
        match u {
            Unit::Single(s) => self.tuning.plan(&self.seeds[*s]).calls(),
            Unit::Splice(a, b) => (self.splice_cuts(*a).len() * self.splice_cuts(*b).len() * self.seeds[*a].entries.len()) as u64,
            Unit::Short(_) => faults::SHORT_COUNT,
        }
    }

    pub fn describe_unit(&self, u: &Unit) -> String {
        match u {
            Unit::Single(s) => format!("{}:{}", self.seeds[*s].family, self.seeds[*s].name),
            Unit::Splice(a, b) => format!("{}: splice {} ++ {}", self.seeds[*a].family, self.seeds[*a].name, self.seeds[*b].name),
            Unit::Short(e) => format!("short strings -> {}", self.cat[*e].name),
        }
    }

    /// Input bytes and entry point of one call (None for a no-op slot).
    pub fn materialise(&self, u: &Unit, call: u64) -> Option<Materialised> {
        match u {
            Unit::Single(s) => {
                let seed = &self.seeds[*s];
                let plan = self.tuning.plan(seed);
                let e = seed.entries.len() as u64;
                let f = call / e;
                let (oi, slot) = ((f / plan.slots() as u64) as usize, (f % plan.slots() as u64) as usize);
                let fault = plan.faults_at(&seed.bytes, oi)[slot].clone()?;
                Some(Materialised { bytes: fault.apply(&seed.bytes), entry: seed.entries[(call % e) as usize], desc: fault.describe() })
            }
            Unit::Splice(a, b) => {
                let (ca, cb) = (self.splice_cuts(*a), self.splice_cuts(*b));
                let e = self.seeds[*a].entries.len() as u64;
                let p = call / e;
                let (i, j) = (ca[(p / cb.len() as u64) as usize], cb[(p % cb.len() as u64) as usize]);
                let mut bytes = self.seeds[*a].bytes[..i].to_vec();
                bytes.extend_from_slice(&self.seeds[*b].bytes[j..]);
                Some(Materialised { bytes, entry: self.seeds[*a].entries[(call % e) as usize], desc: format!("first {i} bytes of A ++ B from byte {j}") })
            }
            Unit::Short(e) => Some(Materialised { bytes: faults::short_string(call), entry: *e, desc: "short string".into() }),
        }
    }

    /// `cheap`: the value digest was not computed for this call, so a returned
    /// value cannot be compared with the unfaulted one; it is then counted as
    /// "differs" only if the unfaulted outcome was not a value.
    #[allow(clippy::too_many_arguments)]
    fn record(&self, r: &mut BatchResult, call: u64, entry: usize, out: entries::CallOut, baselines: &[&Res], class: &str, cheap: bool) {
        let st = r.per_entry.entry(entry).or_default();
        if out.res == Res::Skip {
            st.skip += 1;
            return;
        }
        r.evaluated += 1;
        match r.by_class.get_mut(class) {
            Some(n) => *n += 1,
            None => {
                r.by_class.insert(class.to_string(), 1);
            }
        }
        st.calls += 1;
        let same = |b: &&Res| if cheap && matches!(out.res, Res::Ok(_)) { matches!(b, Res::Ok(_)) } else { b.key() == out.res.key() };
        if !baselines.iter().any(same) {
            st.nontrivial += 1;
        }
        match &out.res {
            Res::Ok(_) => st.ok += 1,
            Res::Err(_, class) => {
                st.err += 1;
                let set = r.err_classes.entry(entry).or_default();
                if set.len() < MAX_CLASSES {
                    set.insert(class.clone());
                }
            }
            Res::Panic(p) => {
                st.panic += 1;
                // keyed by site AND line: the parent turns the line into the
                // enclosing item, so that two defects in one file stay apart
                let f = r.viol.entry(format!("{entry}|{} @{}", p.site, p.location)).or_insert_with(|| Finding { count: 0, call, entry, message: p.message.clone(), location: p.location.clone() });
                f.count += 1;
            }
            Res::Skip => {}
        }
        if let Some(p) = out.accessor_panic {
            let f = r.diag.entry(format!("{} @{}", p.site, p.location)).or_insert_with(|| Finding { count: 0, call, entry, message: p.message.clone(), location: p.location.clone() });
            f.count += 1;
        }
    }

    /// Evaluate calls `lo..hi` of a unit. `journal(call)` is invoked before
    /// every call into pallas.
    pub fn run_batch(&self, u: &Unit, lo: u64, hi: u64, journal: &mut dyn FnMut(u64)) -> BatchResult {
        let t0 = std::time::Instant::now();
        let mut r = self.run_batch_inner(u, lo, hi, journal);
        r.micros = t0.elapsed().as_micros() as u64;
        r
    }

    fn run_batch_inner(&self, u: &Unit, lo: u64, hi: u64, journal: &mut dyn FnMut(u64)) -> BatchResult {
        let mut r = BatchResult::default();
        match u {
            Unit::Single(s) => {
                let seed = &self.seeds[*s];
                let plan: Plan = self.tuning.plan(seed);
                if plan.offsets.is_empty() {
                    return r;
                }
                let mut cheap = false;
                let e = seed.entries.len() as u64;
                let slots = plan.slots() as u64;
                journal(u64::MAX - 2);
                let base: Vec<Res> = seed.entries.iter().map(|&id| (self.cat[id].call)(&seed.bytes, false).res).collect();
                for (k, b) in base.iter().enumerate() {
                    if matches!(b, Res::Ok(_)) {
                        r.base_ok.insert(seed.entries[k]);
                    }
                }
                let mut cur_oi = usize::MAX;
                let mut fl: Vec<Option<Fault>> = vec![];
                let mut cur_f = u64::MAX;
                let mut input: Option<Vec<u8>> = None;
                let mut class = "";
                for c in lo..hi {
                    let f = c / e;
                    if f != cur_f {
                        cur_f = f;
                        let oi = (f / slots) as usize;
                        if oi != cur_oi {
                            cur_oi = oi;
                            fl = plan.faults_at(&seed.bytes, oi);
                            cheap = !plan.digest[oi];
                        }
                        let fault = &fl[(f % slots) as usize];
                        input = fault.as_ref().map(|x| x.apply(&seed.bytes));
                        class = match fault {
                            Some(Fault::Trunc(_)) => "truncation",
                            Some(Fault::Replace(..)) => {
                                if (f % slots) <= 8 {
                                    "bit-flip"
                                } else {
                                    "substitution"
                                }
                            }
                            Some(Fault::Delete(_)) => "deletion",
                            Some(Fault::Dup(_)) => "duplication",
                            None => "",
                        };
                    }
                    let Some(inp) = &input else {
                        r.noop += 1;
                        continue;
                    };
                    let ei = (c % e) as usize;
                    let id = seed.entries[ei];
                    journal(c);
                    let out = self.call(id, inp, cheap);
                    self.record(&mut r, c, id, out, &[&base[ei]], class, cheap);
                }
            }
            Unit::Splice(a, b) => {
                let (sa, sb) = (&self.seeds[*a], &self.seeds[*b]);
                // Debug rendering of a > 4 KiB message per splice would dominate
                let cheap = sa.family.starts_with("msg:") && (Self::cheap(sa) || Self::cheap(sb));
                let (ca, cb) = (self.splice_cuts(*a), self.splice_cuts(*b));
                let e = sa.entries.len() as u64;
                journal(u64::MAX - 2);
                let base_a: Vec<Res> = sa.entries.iter().map(|&id| (self.cat[id].call)(&sa.bytes, cheap).res).collect();
                let base_b: Vec<Res> = sa.entries.iter().map(|&id| (self.cat[id].call)(&sb.bytes, cheap).res).collect();
                let mut cur_p = u64::MAX;
                let mut input: Vec<u8> = vec![];
                for c in lo..hi {
                    let p = c / e;
                    if p != cur_p {
                        cur_p = p;
                        let (i, j) = (ca[(p / cb.len() as u64) as usize], cb[(p % cb.len() as u64) as usize]);
                        input.clear();
                        input.extend_from_slice(&sa.bytes[..i]);
                        input.extend_from_slice(&sb.bytes[j..]);
                    }
                    let ei = (c % e) as usize;
                    let id = sa.entries[ei];
                    journal(c);
                    let out = self.call(id, &input, cheap);
                    self.record(&mut r, c, id, out, &[&base_a[ei], &base_b[ei]], "splice", cheap);
                }
            }
            Unit::Short(id) => {
                journal(u64::MAX - 2);
                let base = (self.cat[*id].call)(&[], false).res;
                for c in lo..hi {
                    let inp = faults::short_string(c);
                    journal(c);
                    let out = self.call(*id, &inp, false);
                    self.record(&mut r, c, *id, out, &[&base], "short-string", false);
                }
            }
        }
        r
    }

    /// One call (worker side of a probe request; the parent never calls a
    /// decoder on a faulted input in its own process).
    pub fn probe(&self, entry: usize, input: &[u8], full_digest: bool) -> Res {
        (self.cat[entry].call)(input, !full_digest).res
    }
}
