//! Seed artefacts of the C09 sweep, built deterministically (the parent and
//! every worker rebuild the same list; a digest is compared).
//!
//! Families:
//! * `block`   — every `test_data/*.block` + every block of every `*.chunk`
//! * `tx`      — every `test_data/*.tx`
//! * `header`  — `test_data/*.header` + the header item of every `*.block`
//! * `output`  — every distinct transaction output of every `*.tx`
//! * `addr`    — address bytes: crate test vectors + every distinct address
//!   found in the outputs / withdrawals of every `*.tx`
//! * `addr-text` — hex / bech32 / base58 renderings of the test vectors and of
//!   one harvested address per distinct header byte
//! * `msg:<stack>/<protocol>` — `mc_proto::msgs::all_messages()`
//! * `msg:pallas-network/localstate:<T>` — typed payloads carried inside
//!   local-state-query `Query` / `Result` messages

use crate::artefacts;
use crate::entries::{self, Entry};
use mc_core::refcbor::{self, Kind, Node};
use std::collections::BTreeSet;

pub struct Seed {
    pub family: String,
    pub name: String,
    pub bytes: Vec<u8>,
    /// Global entry ids this seed is fed to.
    pub entries: Vec<usize>,
    /// Text seed: per-offset substitution alphabet additionally contains every
    /// printable ASCII byte; splice cut points are all byte offsets.
    pub text: bool,
    /// Splice cut points are all byte offsets (non-CBOR artefacts).
    pub cut_every_byte: bool,
}

/// One CBOR item of an artefact: span, head length, nesting depth.
#[derive(Clone, Copy, Debug)]
pub struct Item {
    pub start: usize,
    pub head: usize,
    pub end: usize,
    pub depth: u32,
    pub string: bool,
    pub indef: bool,
}

fn head_len(n: &Node) -> (usize, bool, bool) {
    match &n.kind {
        Kind::UInt(_, w) | Kind::NInt(_, w) => (1 + *w as usize, false, false),
        Kind::Bytes(_, w) | Kind::Text(_, w) => (1 + *w as usize, true, false),
        Kind::BytesIndef(_) | Kind::TextIndef(_) => (1, true, true),
        Kind::Array(_, Some(w)) | Kind::Map(_, Some(w)) => (1 + *w as usize, false, false),
        Kind::Array(_, None) | Kind::Map(_, None) => (1, false, true),
        Kind::Tag(_, w, _) => (1 + *w as usize, false, false),
        Kind::Simple(_, w) => (1 + *w as usize, false, false),
        Kind::Float(w, _) => (1 + *w as usize, false, false),
    }
}

fn collect_items(n: &Node, depth: u32, out: &mut Vec<Item>) {
    let (head, string, indef) = head_len(n);
    out.push(Item { start: n.start, head, end: n.end, depth, string, indef });
    match &n.kind {
        Kind::Array(v, _) => v.iter().for_each(|c| collect_items(c, depth + 1, out)),
        Kind::Map(v, _) => v.iter().for_each(|(k, x)| {
            collect_items(k, depth + 1, out);
            collect_items(x, depth + 1, out)
        }),
        Kind::Tag(_, _, inner) => collect_items(inner, depth + 1, out),
        _ => {}
    }
}

/// Items of an artefact in pre-order (empty if it is not a sequence of
/// well-formed CBOR items).
pub fn items(bytes: &[u8]) -> Vec<Item> {
    let mut out = vec![];
    if let Ok(nodes) = refcbor::parse_seq(bytes) {
        for n in &nodes {
            collect_items(n, 0, &mut out);
        }
    }
    out
}

/// "Item boundary" offsets of an artefact: every byte of every item head, the
/// first and last payload byte of every string, the break byte of every
/// indefinite item, and the last byte of the artefact. Sorted, distinct.
pub fn boundary_offsets(bytes: &[u8]) -> Vec<usize> {
    let mut s = BTreeSet::new();
    for it in items(bytes) {
        for o in it.start..(it.start + it.head).min(bytes.len()) {
            s.insert(o);
        }
        if it.string && it.end > it.start + it.head {
            s.insert(it.start + it.head);
            s.insert(it.end - 1);
        }
        if it.indef {
            s.insert(it.end - 1);
        }
    }
    if !bytes.is_empty() {
        s.insert(0);
        s.insert(bytes.len() - 1);
    }
    s.into_iter().collect()
}

/// Splice cut points: start offset of every item of depth <= `max_depth`, plus
/// the end of the artefact. For non-CBOR seeds: every byte offset.
pub fn cut_points(seed: &Seed, max_depth: u32) -> Vec<usize> {
    if seed.text || seed.cut_every_byte {
        return (0..=seed.bytes.len()).collect();
    }
    let mut s = BTreeSet::new();
    for it in items(&seed.bytes) {
        if it.depth <= max_depth {
            s.insert(it.start);
            s.insert(it.end);
        }
    }
    s.insert(0);
    s.insert(seed.bytes.len());
    s.into_iter().collect()
}

// ------------------------------------------------------------------ bech32

const B32: &[u8; 32] = b"qpzry9x8gf2tvdw0s3jn54khce6mua7l";
fn polymod(values: &[u8]) -> u32 {
    const GEN: [u32; 5] = [0x3b6a57b2, 0x26508e6d, 0x1ea119fa, 0x3d4233dd, 0x2a1462b3];
    let mut chk: u32 = 1;
    for &v in values {
        let b = chk >> 25;
        chk = ((chk & 0x1ff_ffff) << 5) ^ v as u32;
        for (i, g) in GEN.iter().enumerate() {
            if (b >> i) & 1 != 0 {
                chk ^= g;
            }
        }
    }
    chk
}
pub fn bech32_encode(hrp: &str, data: &[u8]) -> String {
    let mut five = vec![];
    let (mut acc, mut bits) = (0u32, 0u32);
    for &b in data {
        acc = (acc << 8) | b as u32;
        bits += 8;
        while bits >= 5 {
            bits -= 5;
            five.push(((acc >> bits) & 31) as u8);
        }
    }
    if bits > 0 {
        five.push(((acc << (5 - bits)) & 31) as u8);
    }
    let mut v: Vec<u8> = hrp.bytes().map(|c| c >> 5).collect();
    v.push(0);
    v.extend(hrp.bytes().map(|c| c & 31));
    v.extend(&five);
    v.extend([0u8; 6]);
    let pm = polymod(&v) ^ 1;
    let mut s = format!("{hrp}1");
    for d in &five {
        s.push(B32[*d as usize] as char);
    }
    for i in 0..6 {
        s.push(B32[((pm >> (5 * (5 - i))) & 31) as usize] as char);
    }
    s
}

// ------------------------------------------------------------ extraction

fn header_of_block(block: &[u8]) -> Option<Vec<u8>> {
    let n = refcbor::parse_one(block).ok()?;
    let outer = n.as_array()?;
    let inner = outer.get(1)?.as_array()?;
    let h = inner.first()?;
    Some(block[h.start..h.end].to_vec())
}

/// (outputs as CBOR spans, address byte strings) of a transaction artefact.
fn harvest_tx(tx: &[u8], outputs: &mut Vec<Vec<u8>>, addrs: &mut Vec<Vec<u8>>) {
    let Ok(n) = refcbor::parse_one(tx) else { return };
    let Some(top) = n.as_array() else { return };
    let Some(body) = top.first() else { return };
    let mut outs: Vec<&Node> = vec![];
    match &body.kind {
        Kind::Map(..) => {
            if let Some(a) = body.map_get(1).and_then(|x| x.untagged().as_array()) {
                outs.extend(a.iter());
            }
            if let Some(o) = body.map_get(16) {
                outs.push(o);
            }
            // withdrawals: reward accounts
            if let Some(w) = body.map_get(5).and_then(|x| x.as_map()) {
                for (k, _) in w {
                    if let Some(b) = k.as_bytes() {
                        addrs.push(b);
                    }
                }
            }
        }
        Kind::Array(..) => {
            // Byron: [inputs, outputs, attributes]
            if let Some(a) = body.as_array().and_then(|b| b.get(1)).and_then(|x| x.as_array()) {
                outs.extend(a.iter());
            }
        }
        _ => {}
    }
    for o in outs {
        outputs.push(tx[o.start..o.end].to_vec());
        match &o.kind {
            Kind::Array(v, _) => {
                if let Some(a) = v.first() {
                    match a.as_bytes() {
                        Some(b) => addrs.push(b),
                        // Byron output: the address is a CBOR item itself
                        None => addrs.push(tx[a.start..a.end].to_vec()),
                    }
                }
            }
            Kind::Map(..) => {
                if let Some(b) = o.map_get(0).and_then(|a| a.as_bytes()) {
                    addrs.push(b);
                }
            }
            _ => {}
        }
    }
}

const ADDRESS_VECTORS: [&str; 13] = [
    "addr1qx2fxv2umyhttkxyxp8x0dlpdt3k6cwng5pxj3jhsydzer3n0d3vllmyqwsx5wktcd8cc3sq835lu7drv2xwl2wywfgse35a3x",
    "addr1z8phkx6acpnf78fuvxn0mkew3l0fd058hzquvz7w36x4gten0d3vllmyqwsx5wktcd8cc3sq835lu7drv2xwl2wywfgs9yc0hh",
    "addr1yx2fxv2umyhttkxyxp8x0dlpdt3k6cwng5pxj3jhsydzerkr0vd4msrxnuwnccdxlhdjar77j6lg0wypcc9uar5d2shs2z78ve",
    "addr1x8phkx6acpnf78fuvxn0mkew3l0fd058hzquvz7w36x4gt7r0vd4msrxnuwnccdxlhdjar77j6lg0wypcc9uar5d2shskhj42g",
    "addr1gx2fxv2umyhttkxyxp8x0dlpdt3k6cwng5pxj3jhsydzer5pnz75xxcrzqf96k",
    "addr128phkx6acpnf78fuvxn0mkew3l0fd058hzquvz7w36x4gtupnz75xxcrtw79hu",
    "addr1vx2fxv2umyhttkxyxp8x0dlpdt3k6cwng5pxj3jhsydzers66hrl8",
    "addr1w8phkx6acpnf78fuvxn0mkew3l0fd058hzquvz7w36x4gtcyjy7wx",
    "stake1uyehkck0lajq8gr28t9uxnuvgcqrc6070x3k9r8048z8y5gh6ffgw",
    "stake178phkx6acpnf78fuvxn0mkew3l0fd058hzquvz7w36x4gtcccycj5",
    "37btjrVyb4KDXBNC4haBVPCrro8AQPHwvCMp3RFhhSVWwfFmZ6wwzSK6JK1hY6wHNmtrpTf1kdbva8TCneM2YsiXT7mrzT21EacHnPpz5YyUdj64na",
    "DdzFFzCqrht7PQiAhzrn6rNNoADJieTWBt8KeK9BZdUsGyX9ooYD9NpMCTGjQoUKcHN47g8JMXhvKogsGpQHtiQ65fZwiypjrC6d3a4Q",
    "Ae2tdPwUPEZLs4HtbuNey7tK4hTKrwNwYtGqp7bDfCy2WdR3P6735W5Yfpe",
];

fn vector_bytes(s: &str) -> Vec<u8> {
    if s.starts_with("addr") || s.starts_with("stake") {
        mc_core::misc::bech32_decode(s).map(|x| x.1).unwrap_or_else(|| mc_core::report::machinery_failure(&format!("address vector {s} is not bech32")))
    } else {
        mc_core::misc::base58_decode(s).unwrap_or_else(|| mc_core::report::machinery_failure(&format!("address vector {s} is not base58")))
    }
}

fn text_forms(bytes: &[u8]) -> Vec<(&'static str, String)> {
    let mut v = vec![("hex", hex::encode(bytes))];
    let Some(&h) = bytes.first() else { return v };
    let t = h >> 4;
    let testnet = h & 0x0f == 0;
    match t {
        8 => v.push(("base58", mc_core::misc::base58_encode(bytes))),
        14 | 15 => v.push(("bech32", bech32_encode(if testnet { "stake_test" } else { "stake" }, bytes))),
        _ => v.push(("bech32", bech32_encode(if testnet { "addr_test" } else { "addr" }, bytes))),
    }
    v
}

const H28: &str = "581c 11111111111111111111111111111111111111111111111111111111";
const H32: &str = "5820 2222222222222222222222222222222222222222222222222222222222222222";

/// (type, name, CBOR hex with `{28}` / `{32}` standing for a 28 / 32 byte string)
const EXTRA_RESULTS_SRC: [(&str, &str, &str); 7] = [
    // [ {cred => [hot_cred_auth_status, status, expiration, next_epoch_change]}, threshold, epoch ]
    (
        "queries_v16::CommitteeMembersState",
        "CommitteeMembersState",
        "83 a2 8200{28} 84 8200 8201{28} 00 8105 820407  8201{28} 84 8202 81 82 6161{32} 01 80 8102  81 d81e820102 1901f4",
    ),
    // [proposals, committee, constitution, cur_pparams, prev_pparams, future_pparams, drep_pulsing_state]
    ("queries_v16::GovState", "GovState/NoPParamsUpdate", "87 80 80 82 82 6161{32} f6 80 80 8100 80"),
    ("queries_v16::GovState", "GovState/Definite", "87 80 81 82 a1 8200{28} 05 d81e820203 82 82 6161{32} {28} 80 80 8201a0 80"),
    ("queries_v16::GovState", "GovState/Potential", "87 80 80 82 82 6161{32} f6 80 80 8202 81 a1 00 01 80"),
    // [enact_state, enacted, expired, delayed]
    (
        "queries_v16::RatifyState",
        "RatifyState",
        "84 87 80 82 82 6161{32} f6 80 80 00 a0 84 80 80 80 80  81 87 82{32}00 a0 a0 a0 84 00 581d e0 11111111111111111111111111111111111111111111111111111111 8106 82 6161{32} 01 02  d90102 81 82{32}01 f4",
    ),
    // [GovActionState]
    (
        "Vec<queries_v16::GovActionState>",
        "GovActionState/NoConfidence",
        "81 87 82{32}00 a1 8200{28} 01 a1 8201{28} 00 a1 {28} 02 84 1a000f4240 581d e0 11111111111111111111111111111111111111111111111111111111 8203 f6 82 6161{32} 01 02",
    ),
    ("BTreeMap<queries_v16::DRep, Coin>", "DRepStakeDistr", "a3 8200{28} 01 8102 02 8103 03"),
];

fn extra_results() -> Vec<(&'static str, &'static str, String)> {
    EXTRA_RESULTS_SRC.iter().map(|(t, n, h)| (*t, *n, h.replace("{28}", H28).replace("{32}", H32))).collect()
}

pub fn build(cat: &[Entry]) -> Vec<Seed> {
    let id = |n: &str| entries::find(cat, n);
    let mut seeds: Vec<Seed> = vec![];

    // ---- blocks
    let block_files = artefacts::load_hex("block");
    let e_block = vec![id("MultiEraBlock::decode")];
    for a in block_files.iter().cloned().chain(artefacts::chunk_blocks()) {
        seeds.push(Seed { family: "block".into(), name: a.name, bytes: a.bytes, entries: e_block.clone(), text: false, cut_every_byte: false });
    }
    // ---- txs
    let txs = artefacts::load_hex("tx");
    let e_tx: Vec<usize> = cat.iter().enumerate().filter(|(_, e)| e.name.starts_with("MultiEraTx::")).map(|x| x.0).collect();
    for a in &txs {
        seeds.push(Seed { family: "tx".into(), name: a.name.clone(), bytes: a.bytes.clone(), entries: e_tx.clone(), text: false, cut_every_byte: false });
    }
    // ---- headers
    let e_hdr: Vec<usize> = cat.iter().enumerate().filter(|(_, e)| e.name.starts_with("MultiEraHeader::")).map(|x| x.0).collect();
    let mut seen: BTreeSet<Vec<u8>> = BTreeSet::new();
    for a in artefacts::load_hex("header") {
        if seen.insert(a.bytes.clone()) {
            seeds.push(Seed { family: "header".into(), name: a.name, bytes: a.bytes, entries: e_hdr.clone(), text: false, cut_every_byte: false });
        }
    }
    for a in &block_files {
        match header_of_block(&a.bytes) {
            Some(h) => {
                if seen.insert(h.clone()) {
                    seeds.push(Seed { family: "header".into(), name: format!("{}:header", a.name), bytes: h, entries: e_hdr.clone(), text: false, cut_every_byte: false });
                }
            }
            None => mc_core::report::machinery_failure(&format!("cannot locate the header item of {}", a.name)),
        }
    }
    // ---- outputs and addresses
    let e_out: Vec<usize> = cat.iter().enumerate().filter(|(_, e)| e.name.starts_with("MultiEraOutput::")).map(|x| x.0).collect();
    let mut seen_out: BTreeSet<Vec<u8>> = BTreeSet::new();
    let mut addr_bytes: Vec<(String, Vec<u8>)> = vec![];
    let mut seen_addr: BTreeSet<Vec<u8>> = BTreeSet::new();
    for v in ADDRESS_VECTORS {
        let b = vector_bytes(v);
        if seen_addr.insert(b.clone()) {
            addr_bytes.push((format!("vector:{}", &v[..v.len().min(24)]), b));
        }
    }
    // testnet twins (network nibble 0) of a payment and a stake vector: other HRPs
    for i in [0usize, 8] {
        let mut b = addr_bytes[i].1.clone();
        b[0] &= 0xf0;
        if seen_addr.insert(b.clone()) {
            addr_bytes.push((format!("{}:testnet", addr_bytes[i].0), b));
        }
    }
    let n_vectors = addr_bytes.len();
    for a in &txs {
        let (mut outs, mut addrs) = (vec![], vec![]);
        harvest_tx(&a.bytes, &mut outs, &mut addrs);
        for (i, o) in outs.into_iter().enumerate() {
            if seen_out.insert(o.clone()) {
                seeds.push(Seed { family: "output".into(), name: format!("{}:output{}", a.name, i), bytes: o, entries: e_out.clone(), text: false, cut_every_byte: false });
            }
        }
        for (i, b) in addrs.into_iter().enumerate() {
            if seen_addr.insert(b.clone()) {
                addr_bytes.push((format!("{}:addr{}", a.name, i), b));
            }
        }
    }
    let e_addr = vec![id("Address::from_bytes"), id("ByronAddress::from_bytes"), id("Address::from_hex(hex(bytes))")];
    for (n, b) in &addr_bytes {
        seeds.push(Seed { family: "addr".into(), name: n.clone(), bytes: b.clone(), entries: e_addr.clone(), text: false, cut_every_byte: true });
    }
    let e_text = vec![id("Address::from_hex"), id("Address::from_bech32"), id("Address::from_str"), id("ByronAddress::from_base58")];
    let mut seen_hdr: BTreeSet<u8> = BTreeSet::new();
    for (i, (n, b)) in addr_bytes.iter().enumerate() {
        let first = b.first().copied().unwrap_or(0);
        let fresh = seen_hdr.insert(first);
        if i < n_vectors || fresh {
            for (form, t) in text_forms(b) {
                seeds.push(Seed { family: "addr-text".into(), name: format!("{n}:{form}"), bytes: t.into_bytes(), entries: e_text.clone(), text: true, cut_every_byte: true });
            }
        }
    }

    // ---- messages
    let mut typed: Vec<(String, String, Vec<u8>)> = vec![];
    for (stack, proto, variant, bytes) in mc_proto::msgs::all_messages() {
        let fam = format!("{stack}/{proto}");
        let mut es = vec![id(&fam)];
        if stack == "pallas-network2" {
            if let Some((i, _)) = cat.iter().enumerate().find(|(_, e)| e.name.starts_with("pallas-network2/AnyMessage::from_payload(") && e.name.ends_with(&format!(":{proto})"))) {
                es.push(i);
            }
        }
        if stack == "pallas-network" && proto == "localstate" {
            // [3, <query>] / [4, <result>]: the payload item follows the 2-byte prefix
            let ty = if variant.starts_with("Query/typed:") {
                Some("queries_v16::Request")
            } else if variant.starts_with("Result/typed:SystemStart") {
                Some("queries_v16::SystemStart")
            } else if variant.starts_with("Result/typed:ChainBlockNumber") {
                Some("queries_v16::ChainBlockNumber")
            } else if variant.starts_with("Result/typed:Point") {
                Some("Point")
            } else if variant.starts_with("Result/typed:UTxOByAddress") {
                Some("queries_v16::UTxOByAddress")
            } else if variant.starts_with("Result/typed:Constitution") {
                Some("queries_v16::Constitution")
            } else {
                None
            };
            if let Some(ty) = ty {
                if let Ok(n) = refcbor::parse_one(&bytes) {
                    if let Some(inner) = n.as_array().and_then(|a| a.get(1)) {
                        typed.push((format!("pallas-network/localstate:{ty}"), variant.clone(), bytes[inner.start..inner.end].to_vec()));
                    }
                }
            }
        }
        seeds.push(Seed { family: format!("msg:{fam}"), name: variant, bytes, entries: es, text: false, cut_every_byte: false });
    }
    // hand-written results of the typed local-state queries that the message
    // enumerator has no case for; each must decode (checked below)
    for (ty, name, hexs) in extra_results() {
        let fam = format!("pallas-network/localstate:{ty}");
        let bytes = hex::decode(hexs.replace(' ', "")).unwrap_or_else(|_| mc_core::report::machinery_failure(&format!("extra seed {name} is not hex")));
        let e = id(&fam);
        match (cat[e].call)(&bytes, false).res {
            entries::Res::Ok(_) => {}
            other => mc_core::report::machinery_failure(&format!("hand-written seed {name} does not decode as {ty}: {other:?}")),
        }
        typed.push((fam, format!("hand-written:{name}"), bytes));
    }
    for (fam, variant, bytes) in typed {
        seeds.push(Seed { family: format!("msg:{fam}"), name: format!("{variant}:payload"), bytes, entries: vec![id(&fam)], text: false, cut_every_byte: false });
    }
    seeds
}

pub fn digest(seeds: &[Seed]) -> u64 {
    let mut h = entries::Fnv::new();
    for s in seeds {
        h.bytes(s.family.as_bytes());
        h.bytes(s.name.as_bytes());
        h.u64(s.bytes.len() as u64);
        h.bytes(&s.bytes);
        for e in &s.entries {
            h.u64(*e as u64);
        }
    }
    h.0
}
