//! The decoding entry points under test (C09) and the per-call outcome.
//!
//! Every call into pallas goes through `mc_core::catch`. The *decode* call and
//! the follow-up accessor pass are caught separately: only a panic inside the
//! decode call is a violation of C09 (the property text covers "decoding ...
//! returns a value or an error and never panics"); a panic in an accessor of a
//! successfully decoded value is recorded as a diagnostic.

use mc_core::panics::PanicInfo;
use mc_core::catch;
use pallas_addresses::{Address, ByronAddress};
use pallas_codec::minicbor;
use pallas_traverse::{Era, MultiEraBlock, MultiEraHeader, MultiEraOutput, MultiEraTx};
use std::fmt::{Debug, Write};
use std::str::FromStr;

/// FNV-1a 64 that can be written to with `write!` (hashes `Debug` output
/// without allocating).
#[derive(Clone, Copy)]
pub struct Fnv(pub u64);
impl Fnv {
    pub fn new() -> Fnv {
        Fnv(0xcbf2_9ce4_8422_2325)
    }
    pub fn bytes(&mut self, b: &[u8]) {
        for &x in b {
            self.0 ^= x as u64;
            self.0 = self.0.wrapping_mul(0x0000_0100_0000_01b3);
        }
    }
    pub fn u64(&mut self, v: u64) {
        self.bytes(&v.to_le_bytes());
    }
}
impl Write for Fnv {
    fn write_str(&mut self, s: &str) -> std::fmt::Result {
        self.bytes(s.as_bytes());
        Ok(())
    }
}
pub fn fnv(b: &[u8]) -> u64 {
    let mut h = Fnv::new();
    h.bytes(b);
    h.0
}
fn debug_hash<T: Debug>(v: &T) -> u64 {
    let mut h = Fnv::new();
    let _ = write!(h, "{v:?}");
    h.0
}

#[derive(Clone, Debug, PartialEq)]
pub enum Res {
    /// Decoded; digest of the observable content (see `digest` rules).
    Ok(u64),
    /// Error returned; (hash of the full message, class = message with digit
    /// runs collapsed, cut at 60 chars).
    Err(u64, String),
    /// Panic inside the decode call.
    Panic(PanicInfo2),
    /// The entry point cannot be called with this input (text entry point,
    /// bytes not UTF-8).
    Skip,
}

#[derive(Clone, Debug, PartialEq)]
pub struct PanicInfo2 {
    pub site: String,
    pub message: String,
    pub location: String,
}
impl From<PanicInfo> for PanicInfo2 {
    fn from(p: PanicInfo) -> Self {
        PanicInfo2 { site: p.site(), message: p.message, location: p.location }
    }
}

pub struct CallOut {
    pub res: Res,
    /// Panic in the accessor / Debug pass over an `Ok` value (diagnostic).
    pub accessor_panic: Option<PanicInfo2>,
}

impl Res {
    /// Comparable summary (panic => site only).
    pub fn key(&self) -> (u8, u64) {
        match self {
            Res::Ok(d) => (0, *d),
            Res::Err(h, _) => (1, *h),
            Res::Panic(p) => (2, fnv(p.site.as_bytes())),
            Res::Skip => (3, 0),
        }
    }
}

fn err_res(msg: String) -> Res {
    let h = fnv(msg.as_bytes());
    let mut class = String::new();
    let mut last_digit = false;
    for c in msg.chars() {
        if c.is_ascii_digit() {
            if !last_digit {
                class.push('#');
            }
            last_digit = true;
        } else {
            class.push(c);
            last_digit = false;
        }
        if class.len() >= 60 {
            break;
        }
    }
    Res::Err(h, class)
}

type CallFn = Box<dyn Fn(&[u8], bool) -> CallOut + Send + Sync>;

pub struct Entry {
    pub name: String,
    /// `(input, cheap)`: `cheap` = do not render Debug of the value (used for
    /// seeds > 4 KiB whose Debug rendering would dominate the run time).
    pub call: CallFn,
}

/// decode + digest, both caught separately.
fn run2<'a, T, E: std::fmt::Display>(input: &'a [u8], decode: impl FnOnce(&'a [u8]) -> Result<T, E>, digest: impl FnOnce(&T) -> u64) -> CallOut {
    match catch(|| decode(input)) {
        Err(p) => CallOut { res: Res::Panic(p.into()), accessor_panic: None },
        Ok(Err(e)) => CallOut { res: err_res(e.to_string()), accessor_panic: None },
        Ok(Ok(v)) => match catch(|| digest(&v)) {
            Ok(d) => CallOut { res: Res::Ok(d), accessor_panic: None },
            Err(p) => CallOut { res: Res::Ok(u64::MAX), accessor_panic: Some(p.into()) },
        },
    }
}

// ------------------------------------------------------------ ledger digests
// "cheap accessors a caller would immediately use"

fn output_digest(o: &MultiEraOutput, h: &mut Fnv) {
    match o.address() {
        Ok(a) => h.bytes(&a.to_vec()),
        Err(e) => {
            let _ = write!(h, "E{e}");
        }
    }
    h.u64(o.value().coin());
    for pa in o.value().assets() {
        h.bytes(pa.policy().as_ref());
        for a in pa.assets() {
            h.bytes(a.name());
            h.u64(a.any_coin() as u64);
        }
    }
    h.u64(o.datum().is_some() as u64);
    h.u64(o.script_ref().is_some() as u64);
}

fn tx_digest(tx: &MultiEraTx, h: &mut Fnv) {
    h.bytes(tx.hash().as_ref());
    for i in tx.inputs() {
        h.bytes(i.hash().as_ref());
        h.u64(i.index());
    }
    for o in tx.outputs() {
        output_digest(&o, h);
    }
    for pa in tx.mints() {
        h.bytes(pa.policy().as_ref());
        for a in pa.assets() {
            h.bytes(a.name());
            h.u64(a.any_coin() as u64);
        }
    }
    h.u64(tx.fee().map(|x| x.wrapping_add(1)).unwrap_or(0));
    h.u64(tx.is_valid() as u64);
}

fn block_digest(b: &MultiEraBlock) -> u64 {
    let mut h = Fnv::new();
    h.bytes(b.hash().as_ref());
    h.u64(b.slot());
    h.u64(b.number());
    h.u64(b.era() as u64);
    let txs = b.txs();
    h.u64(txs.len() as u64);
    for tx in &txs {
        tx_digest(tx, &mut h);
    }
    h.0
}

fn header_digest(x: &MultiEraHeader) -> u64 {
    let mut h = Fnv::new();
    h.bytes(x.hash().as_ref());
    h.u64(x.slot());
    h.u64(x.number());
    if let Some(p) = x.previous_hash() {
        h.bytes(p.as_ref());
    }
    h.0
}

pub const ERAS: [(Era, &str); 7] = [
    (Era::Byron, "Byron"),
    (Era::Shelley, "Shelley"),
    (Era::Allegra, "Allegra"),
    (Era::Mary, "Mary"),
    (Era::Alonzo, "Alonzo"),
    (Era::Babbage, "Babbage"),
    (Era::Conway, "Conway"),
];

fn text_entry(name: &str, f: impl Fn(&str) -> CallOut + Send + Sync + 'static) -> Entry {
    Entry {
        name: name.to_string(),
        call: Box::new(move |i, _| match std::str::from_utf8(i) {
            Ok(s) => f(s),
            Err(_) => CallOut { res: Res::Skip, accessor_panic: None },
        }),
    }
}

fn addr_digest(a: &Address) -> u64 {
    let mut h = Fnv::new();
    let _ = write!(h, "{a:?}");
    h.bytes(&a.to_vec());
    h.0
}
fn byron_digest(a: &ByronAddress) -> u64 {
    let mut h = Fnv::new();
    let _ = write!(h, "{a:?}");
    h.bytes(&a.to_vec());
    h.0
}

fn msg<T>(name: &str) -> Entry
where
    T: for<'b> minicbor::Decode<'b, ()> + Debug + 'static,
{
    Entry {
        name: name.to_string(),
        call: Box::new(|i, cheap| run2(i, |i| minicbor::decode::<T>(i), |v| if cheap { 1 } else { debug_hash(v) })),
    }
}

fn msg_with<T>(name: &str, digest: fn(&T) -> u64) -> Entry
where
    T: for<'b> minicbor::Decode<'b, ()> + 'static,
{
    Entry {
        name: name.to_string(),
        call: Box::new(move |i, cheap| run2(i, |i| minicbor::decode::<T>(i), |v| if cheap { 1 } else { digest(v) })),
    }
}

/// Handshake version tables are `HashMap`s: their Debug order is random per
/// map instance, so they are rendered sorted (determinism of the digests).
macro_rules! hs_digest {
    ($name:ident, $($hs:tt)+) => {
        fn $name<D: Debug + Clone>(m: &$($hs)+::Message<D>) -> u64 {
            use $($hs)+ as hs;
            let mut h = Fnv::new();
            match m {
                hs::Message::Propose(t) | hs::Message::QueryReply(t) => {
                    let _ = write!(h, "{}", if matches!(m, hs::Message::Propose(_)) { "Propose" } else { "QueryReply" });
                    let mut v: Vec<(&u64, &D)> = t.values.iter().collect();
                    v.sort_by_key(|x| *x.0);
                    let _ = write!(h, "{v:?}");
                }
                other => {
                    let _ = write!(h, "{other:?}");
                }
            }
            h.0
        }
    };
}
hs_digest!(hs1_digest, pallas_network::miniprotocols::handshake);
hs_digest!(hs2_digest, pallas_network2::protocol::handshake);

fn from_payload(name: &str, channel: u16) -> Entry {
    use pallas_network2::behavior::AnyMessage;
    use pallas_network2::Message;
    Entry {
        name: name.to_string(),
        call: Box::new(move |i, cheap| {
            let mut payload = i.to_vec();
            match catch(|| AnyMessage::from_payload(channel, &mut payload)) {
                Err(p) => CallOut { res: Res::Panic(p.into()), accessor_panic: None },
                Ok(None) => CallOut { res: err_res(format!("None, {} bytes left", payload.len())), accessor_panic: None },
                Ok(Some(m)) => match catch(|| match &m {
                    _ if cheap => 1,
                    AnyMessage::Handshake(x) => hs2_digest(x),
                    other => debug_hash(other),
                }) {
                    Ok(d) => CallOut { res: Res::Ok(d ^ (payload.len() as u64).wrapping_mul(0x9e37_79b9_7f4a_7c15)), accessor_panic: None },
                    Err(p) => CallOut { res: Res::Ok(u64::MAX), accessor_panic: Some(p.into()) },
                },
            }
        }),
    }
}

/// The catalogue. The index of an entry in this vector is its global id.
pub fn catalogue() -> Vec<Entry> {
    let mut v: Vec<Entry> = vec![];
    // ---- ledger
    v.push(Entry { name: "MultiEraBlock::decode".into(), call: Box::new(|i, cheap| run2(i, MultiEraBlock::decode, |b| if cheap { 1 } else { block_digest(b) })) });
    v.push(Entry {
        name: "MultiEraTx::decode".into(),
        call: Box::new(|i, cheap| {
            run2(i, MultiEraTx::decode, |t| {
                if cheap {
                    return 1;
                }
                let mut h = Fnv::new();
                h.u64(t.era() as u64);
                tx_digest(t, &mut h);
                h.0
            })
        }),
    });
    for (era, n) in ERAS {
        v.push(Entry {
            name: format!("MultiEraTx::decode_for_era({n})"),
            call: Box::new(move |i, cheap| {
                run2(i, |i| MultiEraTx::decode_for_era(era, i), |t| {
                    if cheap {
                        return 1;
                    }
                    let mut h = Fnv::new();
                    tx_digest(t, &mut h);
                    h.0
                })
            }),
        });
    }
    for (tag, sub, n) in [(0u8, Some(0u8), "0,Some(0):EpochBoundary"), (0, Some(1), "0,Some(1):Byron"), (1, None, "1,None:ShelleyCompatible"), (5, None, "5,None:BabbageCompatible")] {
        v.push(Entry { name: format!("MultiEraHeader::decode({n})"), call: Box::new(move |i, _| run2(i, |i| MultiEraHeader::decode(tag, sub, i), header_digest)) });
    }
    for (era, n) in ERAS {
        v.push(Entry {
            name: format!("MultiEraOutput::decode({n})"),
            call: Box::new(move |i, _| {
                run2(i, |i| MultiEraOutput::decode(era, i), |o| {
                    let mut h = Fnv::new();
                    output_digest(o, &mut h);
                    h.0
                })
            }),
        });
    }
    // ---- addresses
    v.push(Entry { name: "Address::from_bytes".into(), call: Box::new(|i, _| run2(i, Address::from_bytes, addr_digest)) });
    v.push(Entry { name: "ByronAddress::from_bytes".into(), call: Box::new(|i, _| run2(i, ByronAddress::from_bytes, byron_digest)) });
    v.push(Entry {
        name: "Address::from_hex(hex(bytes))".into(),
        call: Box::new(|i, _| {
            let s = hex::encode(i);
            match catch(|| Address::from_hex(&s)) {
                Err(p) => CallOut { res: Res::Panic(p.into()), accessor_panic: None },
                Ok(Err(e)) => CallOut { res: err_res(e.to_string()), accessor_panic: None },
                Ok(Ok(a)) => match catch(|| addr_digest(&a)) {
                    Ok(d) => CallOut { res: Res::Ok(d), accessor_panic: None },
                    Err(p) => CallOut { res: Res::Ok(u64::MAX), accessor_panic: Some(p.into()) },
                },
            }
        }),
    });
    fn text_call<T, E: std::fmt::Display>(s: &str, f: impl FnOnce(&str) -> Result<T, E>, d: impl FnOnce(&T) -> u64) -> CallOut {
        match catch(|| f(s)) {
            Err(p) => CallOut { res: Res::Panic(p.into()), accessor_panic: None },
            Ok(Err(e)) => CallOut { res: err_res(e.to_string()), accessor_panic: None },
            Ok(Ok(a)) => match catch(|| d(&a)) {
                Ok(d) => CallOut { res: Res::Ok(d), accessor_panic: None },
                Err(p) => CallOut { res: Res::Ok(u64::MAX), accessor_panic: Some(p.into()) },
            },
        }
    }
    v.push(text_entry("Address::from_hex", |s| text_call(s, Address::from_hex, addr_digest)));
    v.push(text_entry("Address::from_bech32", |s| text_call(s, Address::from_bech32, addr_digest)));
    v.push(text_entry("Address::from_str", |s| text_call(s, Address::from_str, addr_digest)));
    v.push(text_entry("ByronAddress::from_base58", |s| text_call(s, ByronAddress::from_base58, byron_digest)));

    // ---- pallas-network messages
    {
        use pallas_network::miniprotocols::localstate::queries_v16 as q16;
        use pallas_network::miniprotocols::{
            blockfetch as bf, chainsync as cs, handshake as hs, keepalive as ka, localmsgnotification as lmn, localmsgsubmission as lms, localstate as ls, localtxsubmission as ltx, peersharing as ps, txmonitor as tm,
            txsubmission as txs, Point,
        };
        const S: &str = "pallas-network";
        v.push(msg_with::<hs::Message<hs::n2n::VersionData>>(&format!("{S}/handshake-n2n"), hs1_digest));
        v.push(msg_with::<hs::Message<hs::n2c::VersionData>>(&format!("{S}/handshake-n2c"), hs1_digest));
        v.push(msg::<cs::Message<cs::HeaderContent>>(&format!("{S}/chainsync-n2n")));
        v.push(msg::<cs::Message<cs::BlockContent>>(&format!("{S}/chainsync-n2c")));
        v.push(msg::<cs::Message<cs::SkippedContent>>(&format!("{S}/chainsync-skip")));
        v.push(msg::<ka::Message>(&format!("{S}/keepalive")));
        v.push(msg::<ps::Message>(&format!("{S}/peersharing")));
        v.push(msg::<txs::Message<txs::EraTxId, txs::EraTxBody>>(&format!("{S}/txsubmission")));
        v.push(msg::<bf::Message>(&format!("{S}/blockfetch")));
        v.push(msg::<tm::Message>(&format!("{S}/txmonitor")));
        v.push(msg::<ls::Message>(&format!("{S}/localstate")));
        v.push(msg::<lmn::Message>(&format!("{S}/localmsgnotification")));
        v.push(msg::<ltx::Message<lms::DmqMsg, lms::DmqMsgValidationError>>(&format!("{S}/localmsgsubmission")));
        v.push(msg::<ltx::Message<ltx::EraTx, ltx::TxValidationError>>(&format!("{S}/localtxsubmission")));
        // typed payloads carried opaquely by local-state-query messages
        v.push(msg::<q16::Request>(&format!("{S}/localstate:queries_v16::Request")));
        v.push(msg::<q16::SystemStart>(&format!("{S}/localstate:queries_v16::SystemStart")));
        v.push(msg::<q16::ChainBlockNumber>(&format!("{S}/localstate:queries_v16::ChainBlockNumber")));
        v.push(msg::<Point>(&format!("{S}/localstate:Point")));
        v.push(msg::<q16::UTxOByAddress>(&format!("{S}/localstate:queries_v16::UTxOByAddress")));
        v.push(msg::<q16::Constitution>(&format!("{S}/localstate:queries_v16::Constitution")));
        // every other typed result of the queries_v16 client helpers (`get_*`)
        use pallas_codec::utils::{AnyCbor, Bytes, TagWrap};
        use pallas_network::miniprotocols::localtxsubmission::SMaybe;
        use std::collections::BTreeMap;
        v.push(msg::<q16::StakeSnapshots>(&format!("{S}/localstate:queries_v16::StakeSnapshots")));
        v.push(msg::<BTreeMap<Bytes, q16::PoolParams>>(&format!("{S}/localstate:BTreeMap<Bytes, queries_v16::PoolParams>")));
        v.push(msg::<q16::PState>(&format!("{S}/localstate:queries_v16::PState")));
        v.push(msg::<q16::PoolDistr>(&format!("{S}/localstate:queries_v16::PoolDistr")));
        v.push(msg::<q16::NonMyopicMemberRewards>(&format!("{S}/localstate:queries_v16::NonMyopicMemberRewards")));
        v.push(msg::<q16::FilteredDelegsRewards>(&format!("{S}/localstate:queries_v16::FilteredDelegsRewards")));
        v.push(msg::<q16::UTxOByTxin>(&format!("{S}/localstate:queries_v16::UTxOByTxin")));
        v.push(msg::<BTreeMap<q16::StakeAddr, q16::Coin>>(&format!("{S}/localstate:BTreeMap<StakeAddr, Coin>")));
        v.push(msg::<BTreeMap<q16::StakeAddr, q16::DRepState>>(&format!("{S}/localstate:BTreeMap<StakeAddr, queries_v16::DRepState>")));
        v.push(msg::<BTreeMap<q16::DRep, q16::Coin>>(&format!("{S}/localstate:BTreeMap<queries_v16::DRep, Coin>")));
        v.push(msg::<BTreeMap<q16::StakeAddr, q16::DRep>>(&format!("{S}/localstate:BTreeMap<StakeAddr, queries_v16::DRep>")));
        v.push(msg::<BTreeMap<q16::Addr, q16::Coin>>(&format!("{S}/localstate:BTreeMap<Addr, Coin>")));
        v.push(msg::<Vec<q16::GovActionState>>(&format!("{S}/localstate:Vec<queries_v16::GovActionState>")));
        v.push(msg::<q16::CommitteeMembersState>(&format!("{S}/localstate:queries_v16::CommitteeMembersState")));
        v.push(msg::<q16::ProtocolParam>(&format!("{S}/localstate:queries_v16::ProtocolParam")));
        v.push(msg::<u32>(&format!("{S}/localstate:u32")));
        v.push(msg::<q16::StakeDistribution>(&format!("{S}/localstate:queries_v16::StakeDistribution")));
        v.push(msg::<q16::GenesisConfig>(&format!("{S}/localstate:queries_v16::GenesisConfig")));
        v.push(msg::<q16::UTxOWhole>(&format!("{S}/localstate:queries_v16::UTxOWhole")));
        v.push(msg::<q16::GovState>(&format!("{S}/localstate:queries_v16::GovState")));
        v.push(msg::<q16::AccountState>(&format!("{S}/localstate:queries_v16::AccountState")));
        v.push(msg::<SMaybe<q16::ProtocolParam>>(&format!("{S}/localstate:SMaybe<queries_v16::ProtocolParam>")));
        v.push(msg::<q16::RatifyState>(&format!("{S}/localstate:queries_v16::RatifyState")));
        v.push(msg::<q16::ProposedPPUpdates>(&format!("{S}/localstate:queries_v16::ProposedPPUpdates")));
        v.push(msg::<Vec<TagWrap<Bytes, 24>>>(&format!("{S}/localstate:Vec<TagWrap<Bytes, 24>>")));
        v.push(msg::<AnyCbor>(&format!("{S}/localstate:AnyCbor")));
    }
    // ---- pallas-network2 messages
    {
        use pallas_network2::protocol::{blockfetch as bf, chainsync as cs, handshake as hs, keepalive as ka, leiosfetch as lf, leiosnotify as ln, peersharing as ps, txsubmission as txs};
        const S: &str = "pallas-network2";
        v.push(msg_with::<hs::Message<hs::n2n::VersionData>>(&format!("{S}/handshake-n2n"), hs2_digest));
        v.push(msg_with::<hs::Message<hs::n2c::VersionData>>(&format!("{S}/handshake-n2c"), hs2_digest));
        v.push(msg::<cs::Message<cs::HeaderContent>>(&format!("{S}/chainsync-n2n")));
        v.push(msg::<cs::Message<cs::BlockContent>>(&format!("{S}/chainsync-n2c")));
        v.push(msg::<cs::Message<cs::SkippedContent>>(&format!("{S}/chainsync-skip")));
        v.push(msg::<ka::Message>(&format!("{S}/keepalive")));
        v.push(msg::<ps::Message>(&format!("{S}/peersharing")));
        v.push(msg::<txs::Message>(&format!("{S}/txsubmission")));
        v.push(msg::<bf::Message>(&format!("{S}/blockfetch")));
        v.push(msg::<ln::Message>(&format!("{S}/leiosnotify")));
        v.push(msg::<lf::Message>(&format!("{S}/leiosfetch")));
        for (p, ch) in [
            ("handshake-n2n", hs::CHANNEL_ID),
            ("chainsync-n2n", cs::CHANNEL_ID),
            ("blockfetch", bf::CHANNEL_ID),
            ("txsubmission", txs::CHANNEL_ID),
            ("keepalive", ka::CHANNEL_ID),
            ("peersharing", ps::CHANNEL_ID),
            ("leiosnotify", ln::CHANNEL_ID),
            ("leiosfetch", lf::CHANNEL_ID),
        ] {
            v.push(from_payload(&format!("{S}/AnyMessage::from_payload({ch}:{p})"), ch));
        }
        v.push(from_payload(&format!("{S}/AnyMessage::from_payload(1:unsupported)"), 1));
    }
    v
}

pub fn find(cat: &[Entry], name: &str) -> usize {
    cat.iter().position(|e| e.name == name).unwrap_or_else(|| mc_core::report::machinery_failure(&format!("no entry point named {name}")))
}
