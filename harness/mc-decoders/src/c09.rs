//! C09 — ledger and network decoders never panic on untrusted bytes.
//!
//! Parent process: builds the seed list and the fault space (`faults.rs`),
//! cuts it into batches, and has one worker SUBPROCESS per core evaluate them
//! (`worker.rs`), because an abort (stack overflow, failed giant allocation)
//! cannot be caught in-process. A dead worker is attributed to the call index
//! found in its journal; the rest of its batch continues in a fresh worker.
//!
//! Oracle (exactly the property text): every decoding entry point returns a
//! value or an error. A panic inside the decode call => violation, fingerprint
//! = panic site. A dead worker => violation `abort:<signal>:<entry point>`.
//! Panics in accessors of successfully decoded values are diagnostics only.

use crate::entries::Res;
use crate::faults::{self, Tuning};
use crate::seeds;
use crate::worker::{J_BASELINE, J_IDLE, J_PROBE};
use crate::world::{BatchResult, EntryStat, Unit, World};
use mc_core::{json, Ctx, Level, Value};
use std::collections::{BTreeMap, BTreeSet, VecDeque};
use std::io::{BufRead, BufReader, Write};
use std::os::unix::process::ExitStatusExt;
use std::path::{Path, PathBuf};
use std::process::{Child, ChildStdin, ChildStdout, Command, Stdio};
use std::sync::atomic::{AtomicBool, AtomicI32, AtomicU64, Ordering};
use std::sync::{Arc, Mutex};
use std::time::Instant;

static SCRATCH: std::sync::OnceLock<PathBuf> = std::sync::OnceLock::new();

/// Machinery failure (exit 2) after removing the scratch directory.
fn die(msg: &str) -> ! {
    if let Some(s) = SCRATCH.get() {
        let _ = std::fs::remove_dir_all(s);
    }
    mc_core::report::machinery_failure(msg)
}

pub fn res_json(r: &Res) -> Value {
    match r {
        Res::Ok(d) => json!({"ok": format!("{d:016x}")}),
        Res::Err(_, c) => json!({"err": c}),
        Res::Panic(p) => json!({"panic": {"site": p.site, "message": p.message, "location": p.location}}),
        Res::Skip => json!({"skip": true}),
    }
}

// ------------------------------------------------------------------ workers

struct Proc {
    child: Child,
    stdin: ChildStdin,
    stdout: BufReader<ChildStdout>,
}

struct Spawner {
    exe: PathBuf,
    tier: &'static str,
    digest: u64,
}

impl Spawner {
    fn spawn(&self, journal: &Path) -> Proc {
        self.spawn_with(journal, false)
    }
    /// `quiet`: discard the worker's stderr (self-test workers die on purpose).
    fn spawn_with(&self, journal: &Path, quiet: bool) -> Proc {
        match self.try_spawn(journal, quiet, &self.digest.to_string()) {
            Ok((p, _)) => p,
            Err(e) => die(&format!("worker did not start: {e}")),
        }
    }
    /// A worker without the seed list (single probes only): starts in
    /// milliseconds, which matters when every successful probe kills it.
    fn spawn_probe_only(&self, journal: &Path) -> Proc {
        match self.try_spawn(journal, true, "0") {
            Ok((p, _)) => p,
            Err(e) => die(&format!("probe worker did not start: {e}")),
        }
    }
    /// `digest_arg`: the seed-list digest the worker must reproduce, `0` for a
    /// probe-only worker, `any` to have it build the list and report the
    /// digest. `Err` = how the worker ended before announcing READY.
    fn try_spawn(&self, journal: &Path, quiet: bool, digest_arg: &str) -> Result<(Proc, u64), String> {
        std::fs::write(journal, J_IDLE.to_le_bytes()).unwrap_or_else(|e| die(&format!("cannot write journal {journal:?}: {e}")));
        let mut child = Command::new(&self.exe)
            .arg("--c09-worker")
            .arg(self.tier)
            .arg(journal)
            .arg(digest_arg)
            // a dying worker must not spend seconds symbolising a backtrace
            .env("RUST_BACKTRACE", "0")
            .stdin(Stdio::piped())
            .stdout(Stdio::piped())
            .stderr(if quiet { Stdio::null() } else { Stdio::inherit() })
            .spawn()
            .unwrap_or_else(|e| die(&format!("cannot spawn worker: {e}")));
        let stdin = child.stdin.take().unwrap();
        let mut stdout = BufReader::new(child.stdout.take().unwrap());
        let mut line = String::new();
        let _ = stdout.read_line(&mut line);
        match line.trim().strip_prefix("READY ").and_then(|d| d.parse::<u64>().ok()) {
            Some(d) => Ok((Proc { child, stdin, stdout }, d)),
            None => {
                drop(stdin);
                let st = child.wait().map_err(|e| format!("wait: {e}"))?;
                Err(match (st.signal(), st.code()) {
                    (Some(s), _) => signal_name(s),
                    (None, Some(c)) => format!("exit{c} {line:?}"),
                    _ => "unknown".into(),
                })
            }
        }
    }
}

fn read_journal(p: &Path) -> u64 {
    let b = std::fs::read(p).unwrap_or_default();
    if b.len() < 8 {
        return J_IDLE;
    }
    u64::from_le_bytes(b[..8].try_into().unwrap())
}

fn signal_name(sig: i32) -> String {
    match sig {
        libc::SIGABRT => "SIGABRT".into(),
        libc::SIGSEGV => "SIGSEGV".into(),
        libc::SIGKILL => "SIGKILL".into(),
        libc::SIGBUS => "SIGBUS".into(),
        libc::SIGILL => "SIGILL".into(),
        libc::SIGFPE => "SIGFPE".into(),
        n => format!("signal{n}"),
    }
}

/// Send one request, wait for one reply line. `Err(death)` if the worker died.
fn request(p: &mut Proc, line: &str) -> Result<Value, String> {
    let sent = writeln!(p.stdin, "{line}").and_then(|_| p.stdin.flush());
    let mut reply = String::new();
    let got = if sent.is_ok() { p.stdout.read_line(&mut reply).unwrap_or(0) } else { 0 };
    if got == 0 {
        let st = p.child.wait().map_err(|e| format!("wait: {e}"))?;
        return Err(match (st.signal(), st.code()) {
            (Some(s), _) => signal_name(s),
            (None, Some(c)) => format!("exit{c}"),
            _ => "unknown".into(),
        });
    }
    serde_json::from_str(reply.trim()).map_err(|e| die(&format!("worker reply is not JSON ({e}): {reply}")))
}

// ------------------------------------------------------------------ aggregate

#[derive(Clone, Debug)]
struct GFinding {
    count: u64,
    first: (usize, u64), // (unit index, call)
    entry: usize,
    message: String,
    location: String,
}

#[derive(Default)]
struct Agg {
    evaluated: u64,
    noop: u64,
    per_entry: BTreeMap<usize, EntryStat>,
    err_classes: BTreeMap<usize, BTreeSet<String>>,
    by_class: BTreeMap<String, u64>,
    per_family: BTreeMap<String, (u64, u64, u64)>, // evaluated, nontrivial, worker micros
    viol: BTreeMap<String, GFinding>,
    diag: BTreeMap<String, GFinding>,
    deaths: u64,
    per_unit: BTreeMap<usize, (u64, u64)>,
    base_ok: BTreeSet<usize>,
    batches: u64,
    calls_done: u64,
}

impl Agg {
    fn merge(&mut self, unit_idx: usize, family: &str, span: u64, r: BatchResult) {
        self.batches += 1;
        self.calls_done += span;
        self.evaluated += r.evaluated;
        self.noop += r.noop;
        let mut nt = 0;
        for (k, s) in r.per_entry {
            let d = self.per_entry.entry(k).or_default();
            d.calls += s.calls;
            d.ok += s.ok;
            d.err += s.err;
            d.panic += s.panic;
            d.skip += s.skip;
            d.nontrivial += s.nontrivial;
            nt += s.nontrivial;
        }
        let f = self.per_family.entry(family.to_string()).or_default();
        f.0 += r.evaluated;
        f.1 += nt;
        f.2 += r.micros;
        self.base_ok.extend(r.base_ok.iter().copied());
        let pu = self.per_unit.entry(unit_idx).or_default();
        pu.0 += r.evaluated;
        pu.1 += r.micros;
        for (k, s) in r.err_classes {
            let d = self.err_classes.entry(k).or_default();
            for c in s {
                if d.len() < 200 {
                    d.insert(c);
                }
            }
        }
        for (k, n) in r.by_class {
            *self.by_class.entry(k).or_default() += n;
        }
        for (src, dst) in [(r.viol, &mut self.viol), (r.diag, &mut self.diag)] {
            for (fp, f) in src {
                Self::add(dst, fp, f.count, (unit_idx, f.call), f.entry, f.message, f.location);
            }
        }
    }
    fn add(dst: &mut BTreeMap<String, GFinding>, fp: String, count: u64, first: (usize, u64), entry: usize, message: String, location: String) {
        match dst.get_mut(&fp) {
            Some(g) => {
                g.count += count;
                if first < g.first {
                    g.first = first;
                    g.entry = entry;
                    g.message = message;
                    g.location = location;
                }
            }
            None => {
                dst.insert(fp, GFinding { count, first, entry, message, location });
            }
        }
    }
}

/// Name of the source item (`impl .. for T` / `fn f`) that encloses
/// `file:line` in the pallas tree; used to tell apart panic sites that share a
/// file and a message without depending on line numbers.
fn enclosing_item(location: &str) -> Option<String> {
    let (file, line) = location.rsplit_once(':')?;
    let line: usize = line.parse().ok()?;
    let path = if file.starts_with('/') { PathBuf::from(file) } else { crate::artefacts::repo_root().join(file) };
    let src = std::fs::read_to_string(path).ok()?;
    let lines: Vec<&str> = src.lines().collect();
    let mut func: Option<String> = None;
    for i in (0..line.min(lines.len())).rev() {
        let l = lines[i];
        let t = l.trim_start();
        let indent = l.len() - t.len();
        let t = t.trim_start_matches("pub(crate) ").trim_start_matches("pub ").trim_start_matches("const ").trim_start_matches("async ");
        if func.is_none() && t.starts_with("fn ") {
            func = Some(t[3..].split(['(', '<']).next().unwrap_or("").trim().to_string());
            if indent == 0 {
                return func;
            }
        }
        if indent == 0 && t.starts_with("impl") {
            let head = t.trim_end_matches('{').trim();
            let ty = head.rsplit(" for ").next().unwrap_or(head).split(" where").next().unwrap_or("").trim();
            let ty = if head.contains(" for ") { ty.to_string() } else { head.split_whitespace().last().unwrap_or("").to_string() };
            return Some(match func {
                Some(f) => format!("{ty}::{f}"),
                None => ty,
            });
        }
    }
    func
}

/// Final fingerprint of a panic finding keyed `"<site> @<file:line>"`.
fn defect_fingerprint(key: &str) -> String {
    match key.rsplit_once(" @") {
        Some((site, loc)) => match enclosing_item(loc) {
            Some(item) => format!("{site} [in {item}]"),
            None => site.to_string(),
        },
        None => key.to_string(),
    }
}

#[derive(Clone, Copy, Debug)]
struct Batch {
    unit: usize,
    lo: u64,
    hi: u64,
}

// ------------------------------------------------------------------ shrinking

/// Shrinks a failing input under a deterministic call budget: rounds of
/// (greedy chunk removal, ddmin flavour; rewriting every CBOR-looking head
/// with a 1/2/4/8-byte argument to its shortest form; zeroing bytes) until a
/// round changes nothing. The result still satisfies `pred`.
fn shrink(mut cur: Vec<u8>, pred: &mut dyn FnMut(&[u8]) -> bool, budget: &mut u32) -> Vec<u8> {
    loop {
        let before = cur.clone();
        cur = shrink_remove(cur, pred, budget);
        // shortest-form heads
        let mut i = 0;
        while i < cur.len() && *budget > 0 {
            let (major, ai) = (cur[i] & 0xe0, cur[i] & 0x1f);
            let w = match ai {
                24 => 1,
                25 => 2,
                26 => 4,
                27 => 8,
                _ => 0,
            };
            if w > 0 && major != 0xe0 && i + w < cur.len() {
                let v = cur[i + 1..=i + w].iter().fold(0u64, |a, b| (a << 8) | *b as u64);
                let mut head = vec![];
                if v < 24 {
                    head.push(major | v as u8);
                } else if v < 256 {
                    head.extend([major | 24, v as u8]);
                } else if v < 65536 {
                    head.extend([major | 25, (v >> 8) as u8, v as u8]);
                } else {
                    head.clear();
                }
                if !head.is_empty() && head.len() < 1 + w {
                    let mut cand = cur[..i].to_vec();
                    cand.extend(&head);
                    cand.extend(&cur[i + 1 + w..]);
                    *budget -= 1;
                    if pred(&cand) {
                        cur = cand;
                        continue;
                    }
                }
            }
            i += 1;
        }
        // prefer 0x00 where the failure persists
        for i in 0..cur.len() {
            if *budget == 0 {
                break;
            }
            if cur[i] != 0 {
                let old = cur[i];
                cur[i] = 0;
                *budget -= 1;
                if !pred(&cur) {
                    cur[i] = old;
                }
            }
        }
        if cur == before || *budget == 0 {
            return cur;
        }
    }
}

fn shrink_remove(mut cur: Vec<u8>, pred: &mut dyn FnMut(&[u8]) -> bool, budget: &mut u32) -> Vec<u8> {
    if cur.is_empty() {
        return cur;
    }
    let mut size = (cur.len().next_power_of_two() / 2).max(1);
    loop {
        let mut i = 0;
        let mut progressed = false;
        while i < cur.len() {
            if *budget == 0 {
                return cur;
            }
            let end = (i + size).min(cur.len());
            let mut cand = cur[..i].to_vec();
            cand.extend_from_slice(&cur[end..]);
            *budget -= 1;
            if pred(&cand) {
                cur = cand;
                progressed = true;
            } else {
                i += size;
            }
        }
        if size == 1 {
            if !progressed {
                break;
            }
        } else {
            size /= 2;
        }
    }
    cur
}

/// A worker used for single probes (replay, shrinking of abort witnesses).
struct Prober<'a> {
    sp: &'a Spawner,
    journal: PathBuf,
    proc: Option<Proc>,
}
impl Prober<'_> {
    /// `Ok(outcome json)` or `Err(signal)` when the probe killed the worker.
    fn probe(&mut self, entry: usize, input: &[u8]) -> Result<Value, String> {
        self.probe_with(entry, input, false)
    }
    /// `full`: compute the full value digest (samples) instead of the cheap one.
    fn probe_with(&mut self, entry: usize, input: &[u8], full: bool) -> Result<Value, String> {
        if self.proc.is_none() {
            self.proc = Some(self.sp.spawn_probe_only(&self.journal));
        }
        let r = request(self.proc.as_mut().unwrap(), &format!("X {entry} -{}{}", hex::encode(input), if full { " full" } else { "" }));
        match r {
            Ok(v) => Ok(v.get("probe").cloned().unwrap_or(Value::Null)),
            Err(sig) => {
                self.proc = None;
                if read_journal(&self.journal) != J_PROBE {
                    die(&format!("probe worker died ({sig}) outside a call"));
                }
                Err(sig)
            }
        }
    }
    fn close(&mut self) {
        if let Some(mut p) = self.proc.take() {
            let _ = writeln!(p.stdin, "Q");
            let _ = p.stdin.flush();
            let _ = p.child.wait();
        }
    }
}

// ------------------------------------------------------------------ run

const TIMEOUT_MS: u64 = 120_000;

pub fn run(ctx: Ctx) -> ! {
    let t0 = Instant::now();
    let tuning = Tuning { thorough: ctx.thorough };
    let exe = std::env::current_exe().unwrap_or_else(|e| die(&format!("current_exe: {e}")));
    let scratch = std::env::temp_dir().join(format!("mc-decoders-c09-{}", std::process::id()));
    std::fs::create_dir_all(&scratch).unwrap_or_else(|e| die(&format!("scratch dir: {e}")));
    let _ = SCRATCH.set(scratch.clone());
    // Pre-flight: building the seed list decodes unfaulted artefacts (message
    // round trips, validation of the hand-written seeds). A worker does it
    // first, so that a decoder that aborts on a GOOD input is reported instead
    // of taking this process down.
    let mut spawner = Spawner { exe, tier: ctx.tier(), digest: 0 };
    let pre_digest = match spawner.try_spawn(&scratch.join("journal-preflight"), false, "any") {
        Ok((mut p, d)) => {
            let _ = writeln!(p.stdin, "Q");
            let _ = p.stdin.flush();
            let _ = p.child.wait();
            d
        }
        Err(how) if how.starts_with("SIG") || how.starts_with("signal") => {
            let _ = std::fs::remove_dir_all(&scratch);
            ctx.violation(
                format!("abort:{how}:unfaulted-seeds"),
                format!("a worker was killed by {how} while building the seed list, i.e. while decoding unfaulted artefacts / round-tripping the enumerated messages"),
                json!({"phase": "seed-list construction in a worker subprocess"}),
            );
            ctx.finish(Level::FaultEnumeration, mc_core::cov! {"evaluations" => 0, "distinct_nontrivial" => 0, "rule" => "sweep not started", "samples" => Vec::<Value>::new()}, &[])
        }
        Err(how) => die(&format!("pre-flight worker failed: {how}")),
    };
    let world = Arc::new(World::new(tuning));
    let digest = seeds::digest(&world.seeds);
    if digest != pre_digest {
        die(&format!("seed list is not deterministic: {digest} here, {pre_digest} in the pre-flight worker"));
    }
    spawner.digest = digest;
    let spawner = spawner;

    if let Some(path) = ctx.replay.clone() {
        replay(&ctx, &world, &spawner, &scratch, &path);
    }

    if std::env::var("C09_STATS").is_ok() {
        let mut by: BTreeMap<String, Vec<usize>> = BTreeMap::new();
        for s in &world.seeds {
            let k = if s.name.contains(".chunk#") { format!("{}:{}", s.family, s.name.split('#').next().unwrap()) } else { s.family.clone() };
            by.entry(k).or_default().push(s.bytes.len());
        }
        for (k, mut v) in by {
            v.sort();
            let sq: f64 = v.iter().map(|&n| (n as f64) * (n as f64)).sum();
            eprintln!("{k}: n={} sum={} sumsq={:.3e} min={} med={} max={} >4k={}", v.len(), v.iter().sum::<usize>(), sq, v[0], v[v.len() / 2], v[v.len() - 1], v.iter().filter(|&&n| n > 4096).count());
        }
        let _ = std::fs::remove_dir_all(&scratch);
        std::process::exit(0);
    }

    // ---- machinery self-test: the three ways a decoder can take the process
    // down must be observed as a dead worker attributed to the journaled call
    let mut selftest = BTreeMap::new();
    for what in ["abort", "overflow", "alloc"] {
        let journal = scratch.join(format!("journal-selftest-{what}"));
        let mut p = spawner.spawn_with(&journal, true);
        match request(&mut p, &format!("T {what}")) {
            Err(sig) if !sig.starts_with("exit") && read_journal(&journal) == J_PROBE => {
                selftest.insert(what.to_string(), sig);
            }
            other => {
                let _ = std::fs::remove_dir_all(&scratch);
                die(&format!("self-test '{what}': the worker was expected to die inside a journaled call, got {other:?}"));
            }
        }
    }

    // ---- units
    let mut units: Vec<Unit> = vec![];
    for s in 0..world.seeds.len() {
        units.push(Unit::Single(s));
    }
    let mut families: BTreeMap<String, Vec<usize>> = BTreeMap::new();
    for (i, s) in world.seeds.iter().enumerate() {
        families.entry(s.family.clone()).or_default().push(i);
    }
    let mut splice_members: BTreeMap<String, usize> = BTreeMap::new();
    for (fam, members) in &families {
        let m: Vec<usize> = splice_representatives(&world, members);
        splice_members.insert(fam.clone(), m.len());
        for &a in &m {
            for &b in &m {
                units.push(Unit::Splice(a, b));
            }
        }
    }
    for e in 0..world.cat.len() {
        units.push(Unit::Short(e));
    }
    let unit_family = |u: &Unit| -> String {
        match u {
            Unit::Single(s) => world.seeds[*s].family.clone(),
            Unit::Splice(a, _) => format!("splice:{}", world.seeds[*a].family),
            Unit::Short(_) => "short".into(),
        }
    };

    // debugging aid: restrict the sweep to some unit families (never a verdict)
    let only: Option<Vec<String>> = std::env::var("C09_ONLY").ok().map(|s| s.split(',').map(String::from).collect());
    if let Some(o) = &only {
        units.retain(|u| o.iter().any(|f| unit_family(u).starts_with(f.as_str())));
    }

    // ---- batches (~40 ms of work each, by a size-proportional cost estimate)
    let unit_len = |u: &Unit| -> usize {
        match u {
            Unit::Single(s) => world.seeds[*s].bytes.len(),
            Unit::Splice(a, b) => (world.seeds[*a].bytes.len() + world.seeds[*b].bytes.len()) / 2,
            Unit::Short(_) => 2,
        }
    };
    use rayon::prelude::*;
    let unit_calls: Vec<u64> = units.par_iter().map(|u| world.unit_calls(u)).collect();
    let mut queue: VecDeque<Batch> = VecDeque::new();
    let mut total_calls = 0u64;
    for (ui, u) in units.iter().enumerate() {
        let n = unit_calls[ui];
        total_calls += n;
        let cost_ns = 300 + 2 * unit_len(u) as u64;
        let per = (40_000_000 / cost_ns).clamp(32, 400_000);
        let mut lo = 0;
        while lo < n {
            let hi = (lo + per).min(n);
            queue.push_back(Batch { unit: ui, lo, hi });
            lo = hi;
        }
    }
    let n_batches = queue.len();
    eprintln!(
        "C09 {}: {} seeds, {} entry points, {} units, {} call slots, {} batches (setup {:.1}s)",
        ctx.tier(),
        world.seeds.len(),
        world.cat.len(),
        units.len(),
        total_calls,
        n_batches,
        t0.elapsed().as_secs_f64()
    );

    // ---- sweep
    let queue = Arc::new(Mutex::new(queue));
    let agg = Arc::new(Mutex::new(Agg::default()));
    let n_workers = std::thread::available_parallelism().map(|n| n.get()).unwrap_or(4);
    let busy: Arc<Vec<(AtomicU64, AtomicI32, AtomicBool)>> = Arc::new((0..n_workers).map(|_| (AtomicU64::new(0), AtomicI32::new(0), AtomicBool::new(false))).collect());
    let done = Arc::new(AtomicBool::new(false));
    let units = Arc::new(units);
    std::thread::scope(|sc| {
        // watchdog: kill a worker that spends more than TIMEOUT_MS on one batch
        {
            let (busy, done) = (busy.clone(), done.clone());
            sc.spawn(move || {
                while !done.load(Ordering::SeqCst) {
                    std::thread::sleep(std::time::Duration::from_millis(250));
                    let now = t0.elapsed().as_millis() as u64;
                    for b in busy.iter() {
                        let since = b.0.load(Ordering::SeqCst);
                        let pid = b.1.load(Ordering::SeqCst);
                        if since != 0 && pid != 0 && now.saturating_sub(since) > TIMEOUT_MS && !b.2.swap(true, Ordering::SeqCst) {
                            unsafe { libc::kill(pid, libc::SIGKILL) };
                        }
                    }
                }
            });
        }
        let mut handles = vec![];
        for w in 0..n_workers {
            let (queue, agg, busy, units, world) = (queue.clone(), agg.clone(), busy.clone(), units.clone(), world.clone());
            let spawner = &spawner;
            let journal = scratch.join(format!("journal-{w}"));
            let unit_family = &unit_family;
            handles.push(sc.spawn(move || {
                let mut proc: Option<Proc> = None;
                let mut idle_deaths = 0;
                loop {
                    let Some(b) = queue.lock().unwrap().pop_front() else { break };
                    if proc.is_none() {
                        proc = Some(spawner.spawn(&journal));
                    }
                    let p = proc.as_mut().unwrap();
                    busy[w].2.store(false, Ordering::SeqCst);
                    busy[w].1.store(p.child.id() as i32, Ordering::SeqCst);
                    busy[w].0.store((t0.elapsed().as_millis() as u64).max(1), Ordering::SeqCst);
                    let unit = units[b.unit];
                    let r = request(p, &unit.to_line(b.lo, b.hi));
                    busy[w].0.store(0, Ordering::SeqCst);
                    match r {
                        Ok(v) => {
                            let Some(res) = BatchResult::from_json(&v) else { die(&format!("malformed batch result {v}")) };
                            agg.lock().unwrap().merge(b.unit, &unit_family(&unit), b.hi - b.lo, res);
                        }
                        Err(mut sig) => {
                            proc = None;
                            if busy[w].2.load(Ordering::SeqCst) {
                                sig = "timeout".into();
                            }
                            if sig.starts_with("exit") {
                                die(&format!("worker exited ({sig}) during {}", world.describe_unit(&unit)));
                            }
                            let j = read_journal(&journal);
                            if j == J_IDLE || j == J_PROBE {
                                idle_deaths += 1;
                                if idle_deaths > 3 {
                                    die(&format!("worker keeps dying ({sig}) outside any call"));
                                }
                                queue.lock().unwrap().push_front(b);
                                continue;
                            }
                            let mut a = agg.lock().unwrap();
                            a.deaths += 1;
                            if j == J_BASELINE {
                                // the unfaulted artefact itself kills the worker
                                let entry = match unit {
                                    Unit::Single(s) | Unit::Splice(s, _) => world.seeds[s].entries[0],
                                    Unit::Short(e) => e,
                                };
                                Agg::add(&mut a.viol, format!("abort:{sig}:unfaulted:{}", world.cat[entry].name), 1, (b.unit, u64::MAX), entry, format!("worker killed by {sig} while decoding the unfaulted artefact"), String::new());
                                a.calls_done += b.hi - b.lo;
                                continue;
                            }
                            if j < b.lo || j >= b.hi {
                                die(&format!("journal value {j} outside the batch {b:?}"));
                            }
                            let entry = world.materialise(&unit, j).map(|m| m.entry).unwrap_or(0);
                            Agg::add(&mut a.viol, format!("abort:{sig}:{}", world.cat[entry].name), 1, (b.unit, j), entry, format!("worker killed by {sig}"), String::new());
                            a.calls_done += 1;
                            drop(a);
                            let mut q = queue.lock().unwrap();
                            if j + 1 < b.hi {
                                q.push_front(Batch { unit: b.unit, lo: j + 1, hi: b.hi });
                            }
                            if b.lo < j {
                                q.push_front(Batch { unit: b.unit, lo: b.lo, hi: j });
                            }
                        }
                    }
                }
                if let Some(mut p) = proc.take() {
                    let _ = writeln!(p.stdin, "Q");
                    let _ = p.stdin.flush();
                    let _ = p.child.wait();
                }
            }));
        }
        for h in handles {
            if h.join().is_err() {
                die("a worker handler thread panicked");
            }
        }
        done.store(true, Ordering::SeqCst);
    });
    let mut agg = Arc::try_unwrap(agg).ok().unwrap().into_inner().unwrap();
    // panic findings arrive keyed by "<entry>|<site> @<file:line>"; regroup them
    // by defect (site + enclosing source item), keeping one witness per entry point
    let mut defects: BTreeMap<String, BTreeMap<usize, GFinding>> = BTreeMap::new();
    for (k, g) in std::mem::take(&mut agg.viol) {
        let rest = match k.split_once('|') {
            Some((e, rest)) if e.parse::<usize>().is_ok() => rest.to_string(),
            _ => k.clone(),
        };
        let fp = defect_fingerprint(&rest);
        let per = defects.entry(fp).or_default();
        let mut tmp: BTreeMap<String, GFinding> = BTreeMap::new();
        if let Some(old) = per.remove(&g.entry) {
            tmp.insert(String::new(), old);
        }
        Agg::add(&mut tmp, String::new(), g.count, g.first, g.entry, g.message, g.location);
        per.insert(g.entry, tmp.remove("").unwrap());
    }
    {
        let src = std::mem::take(&mut agg.diag);
        for (k, g) in src {
            Agg::add(&mut agg.diag, defect_fingerprint(&k), g.count, g.first, g.entry, g.message, g.location);
        }
    }
    let sweep_s = t0.elapsed().as_secs_f64();

    if only.is_some() || std::env::var("C09_INJECT_ABORT").is_ok() {
        eprintln!("worker deaths: {}", agg.deaths);
        for (k, v) in &agg.per_family {
            eprintln!("{k}: evaluations={} differs={} cpu={:.1}s", v.0, v.1, v.2 as f64 / 1e6);
        }
        let mut pu: Vec<_> = agg.per_unit.iter().collect();
        pu.sort_by_key(|x| std::cmp::Reverse(x.1 .1));
        for (u, (ev, us)) in pu.iter().take(40) {
            eprintln!("  unit {} len={}: evaluations={ev} cpu={:.1}s ({:.1} us/eval)", world.describe_unit(&units[**u]), unit_len(&units[**u]), *us as f64 / 1e6, *us as f64 / (*ev).max(1) as f64);
        }
        for (k, v) in &defects {
            eprintln!("VIOL {k}: {v:?}");
        }
        for (k, v) in &agg.diag {
            eprintln!("DIAG {k}: {v:?}");
        }
        let _ = std::fs::remove_dir_all(&scratch);
        die(&format!("C09_ONLY set: partial sweep ({:.1}s), no verdict", sweep_s));
    }

    // ---- completeness / vacuity guards
    if agg.calls_done != total_calls {
        let _ = std::fs::remove_dir_all(&scratch);
        die(&format!("covered {} of {} call slots", agg.calls_done, total_calls));
    }
    let mut problems = vec![];
    let seeded: BTreeSet<usize> = world.seeds.iter().flat_map(|s| s.entries.iter().copied()).collect();
    for (i, e) in world.cat.iter().enumerate() {
        let st = agg.per_entry.get(&i).cloned().unwrap_or_default();
        if st.calls == 0 {
            problems.push(format!("entry point {} never called", e.name));
        } else if seeded.contains(&i) && !agg.base_ok.contains(&i) && !e.name.contains("unsupported") {
            problems.push(format!("entry point {} returned a value for none of its unfaulted seeds", e.name));
        } else if st.err == 0 {
            problems.push(format!("entry point {} never returned an error", e.name));
        }
    }
    for fam in ["block", "tx", "header", "output", "addr", "addr-text"] {
        if !families.contains_key(fam) {
            problems.push(format!("no seed in family {fam}"));
        }
    }
    if !problems.is_empty() {
        let _ = std::fs::remove_dir_all(&scratch);
        die(&format!("vacuous sweep: {}", problems.join("; ")));
    }

    // ---- witnesses: reconstruct, shrink (one per defect and entry point), report
    let shrink_budget: u32 = if ctx.thorough { 30_000 } else { 6_000 };
    let viol_list: Vec<(String, GFinding)> = defects.iter().flat_map(|(k, per)| per.values().map(move |g| (k.clone(), g.clone()))).collect();
    let shrunk: Vec<(String, GFinding, Value, usize)> = viol_list
        .par_iter()
        .enumerate()
        .map(|(idx, (fp, g))| {
            let unit = units[g.first.0];
            let m = if g.first.1 == u64::MAX { None } else { world.materialise(&unit, g.first.1) };
            let (input, desc) = match &m {
                Some(m) => (m.bytes.clone(), m.desc.clone()),
                None => (
                    match unit {
                        Unit::Single(s) | Unit::Splice(s, _) => world.seeds[s].bytes.clone(),
                        Unit::Short(_) => vec![],
                    },
                    "unfaulted".to_string(),
                ),
            };
            let mut budget = shrink_budget;
            let minimal = if fp.starts_with("abort:") {
                let sig = fp.split(':').nth(1).unwrap_or("").to_string();
                budget = 300;
                let mut pr = Prober { sp: &spawner, journal: scratch.join(format!("journal-shrink-{idx}")), proc: None };
                let out = if sig == "timeout" { input.clone() } else { shrink(input.clone(), &mut |b| matches!(pr.probe(g.entry, b), Err(s) if s == sig), &mut budget) };
                pr.close();
                out
            } else {
                // in a probe worker too: a shrunk candidate may well abort
                let mut pr = Prober { sp: &spawner, journal: scratch.join(format!("journal-shrink-{idx}")), proc: None };
                let out = shrink(
                    input.clone(),
                    &mut |b| matches!(pr.probe(g.entry, b), Ok(v) if v.get("panic").and_then(|p| p.get("location")).and_then(|l| l.as_str()) == Some(g.location.as_str())),
                    &mut budget,
                );
                pr.close();
                out
            };
            let case = json!({
                "entry_point": world.cat[g.entry].name,
                "input_hex": hex::encode(&minimal),
                "input_len": minimal.len(),
                "found_as": {"unit": world.describe_unit(&unit), "fault": desc, "input_len": input.len(),
                             "input_hex": if input.len() <= 2048 { Value::String(hex::encode(&input)) } else { Value::Null }},
                "panic_message": g.message,
                "location": g.location,
                "witnesses": g.count,
                "shrink_budget_left": budget,
            });
            (fp.clone(), g.clone(), case, minimal.len())
        })
        .collect();
    let mut findings_json = vec![];
    for fp in defects.keys() {
        let mut mine: Vec<&(String, GFinding, Value, usize)> = shrunk.iter().filter(|x| &x.0 == fp).collect();
        // the smallest shrunk input is the reported case; ties by entry id
        mine.sort_by_key(|x| (x.3, x.1.entry));
        let (_, g, case, _) = mine[0];
        let total: u64 = mine.iter().map(|x| x.1.count).sum();
        let mut case = case.clone();
        case["witnesses"] = json!(total);
        case["also_reached_via"] = json!(mine[1..].iter().map(|x| json!({"entry_point": world.cat[x.1.entry].name, "input_hex": x.2["input_hex"], "witnesses": x.1.count})).collect::<Vec<_>>());
        let what = if fp.starts_with("abort:") {
            format!("{} on a {}-byte input: {} ({} witnesses)", world.cat[g.entry].name, case["input_len"], g.message, total)
        } else {
            format!("{} panicked on a {}-byte input: {} at {} ({} witnesses over {} entry points)", world.cat[g.entry].name, case["input_len"], g.message, g.location, total, mine.len())
        };
        findings_json.push(json!({"fingerprint": fp, "what": what, "minimal_input_hex": case["input_hex"], "entry_point": case["entry_point"], "location": g.location, "witnesses": total}));
        ctx.violation(fp.clone(), what, case);
    }
    let diagnostics: Vec<Value> = agg
        .diag
        .iter()
        .map(|(fp, g)| {
            let unit = units[g.first.0];
            let m = world.materialise(&unit, g.first.1);
            json!({
                "site": fp, "count": g.count, "entry_point": world.cat[g.entry].name, "message": g.message, "location": g.location,
                "first_witness": {"unit": world.describe_unit(&unit), "fault": m.as_ref().map(|m| m.desc.clone()),
                                  "input_hex": m.as_ref().filter(|m| m.bytes.len() <= 512).map(|m| hex::encode(&m.bytes))},
            })
        })
        .collect();

    // ---- evidence
    let nontrivial: u64 = agg.per_entry.values().map(|s| s.nontrivial).sum();
    let per_entry: Value = Value::Object(
        world
            .cat
            .iter()
            .enumerate()
            .map(|(i, e)| {
                let s = agg.per_entry.get(&i).cloned().unwrap_or_default();
                (
                    e.name.clone(),
                    json!({"calls": s.calls, "value": s.ok, "error": s.err, "panic": s.panic, "not_utf8_skipped": s.skip, "outcome_differs_from_unfaulted": s.nontrivial,
                           "distinct_error_classes": agg.err_classes.get(&i).map(|x| x.len()).unwrap_or(0)}),
                )
            })
            .collect(),
    );
    let mut fam_seeds: BTreeMap<String, (usize, usize, usize)> = BTreeMap::new();
    for s in &world.seeds {
        let f = fam_seeds.entry(s.family.clone()).or_default();
        f.0 += 1;
        f.1 += s.bytes.len();
        if !tuning.plan(s).full {
            f.2 += 1;
        }
    }
    let thinned: Vec<Value> = world
        .seeds
        .iter()
        .filter_map(|s| {
            let p = tuning.plan(s);
            if p.full {
                None
            } else {
                Some(json!({"seed": format!("{}:{}", s.family, s.name), "bytes": s.bytes.len(), "offsets_swept": p.offsets.len()}))
            }
        })
        .collect();
    let samples = make_samples(&world, &units, &spawner, &scratch);
    let _ = std::fs::remove_dir_all(&scratch);
    let cov = mc_core::cov! {
        "evaluations" => agg.evaluated,
        "distinct_nontrivial" => nontrivial,
        "rule" => "one evaluation = one faulted input fed to one decoding entry point inside a worker subprocess. Faults per seed: truncation at every selected offset, the 8 bit flips, the 28-value substitution alphabet (00 ff x+1 x-1 x^80, indefinite heads 5f/7f/9f/bf, 8-byte heads 1b..fb, tags c0/c2/d8/d9, same major type with 1/2/4/8-byte/reserved/indefinite argument, f6; +95 printable ASCII for text seeds), deletion and duplication of the byte; values equal to the original byte or to an earlier value at the same offset are skipped (no_op_slots), so faults are distinct per seed. Splices: A[..i] ++ B[j..] for all cut points i, j (item starts/ends up to the family's depth bound) of all ordered pairs of splice representatives of a family. Short strings: all 65793 byte strings of length <= 2 per entry point. Non-trivial = the outcome (error message hash, or value digest = hash of the accessor results for ledger values / of the Debug rendering for addresses and messages <= 4 KiB; constant for larger messages) differs from the outcome of the unfaulted seed(s) at the same entry point (for short strings: from the outcome of the empty string).",
        "exhaustive" => true,
        "samples" => samples,
        "call_slots" => total_calls,
        "no_op_slots" => agg.noop,
        "by_fault_class" => agg.by_class,
        "per_entry_point" => per_entry,
        "per_family" => agg.per_family.iter().map(|(k, v)| (k.clone(), json!({"evaluations": v.0, "outcome_differs": v.1, "worker_cpu_s": v.2 as f64 / 1e6}))).collect::<BTreeMap<_, _>>(),
        "seeds" => fam_seeds.iter().map(|(k, v)| (k.clone(), json!({"seeds": v.0, "bytes": v.1, "thinned_to_item_boundaries": v.2, "splice_representatives": splice_members.get(k).copied().unwrap_or(0)}))).collect::<BTreeMap<_, _>>(),
        "seed_count" => world.seeds.len(),
        "entry_points" => world.cat.len(),
        "thinning" => thinning_text(&tuning),
        "thinned_seeds" => thinned.len(),
        "seeds_not_swept_in_this_tier" => world.seeds.iter().filter(|s| tuning.plan(s).offsets.is_empty()).count(),
        "thinned_seeds_sample" => thinned.iter().take(12).cloned().collect::<Vec<_>>(),
        "worker_processes" => n_workers,
        "worker_deaths" => agg.deaths,
        "selftest_worker_death_signals" => selftest,
        "batches" => agg.batches,
        "sweep_wall_s" => sweep_s,
        "accessor_diagnostics" => diagnostics,
        "findings" => findings_json,
    };
    ctx.finish(
        Level::FaultEnumeration,
        cov,
        &[
            "single faults of real artefacts, pairwise splices and strings of length <= 2 only; multi-fault corruptions and synthetic nesting bombs are outside the bound",
            "built with overflow checks and debug assertions (dev-build panic semantics)",
            "workers: 8 MiB decoding stack, 2 GiB address-space limit; a worker killed by a signal or silent for 120 s counts as an abort of the journaled call",
            "accessors of successfully decoded values (hash, slot, txs, inputs, outputs, addresses, mint, fee, Debug) are exercised but a panic there is a diagnostic, not a violation: the property text covers decoding only",
            "text entry points (from_hex, from_bech32, from_str, from_base58) cannot be called with non-UTF-8 input; such faulted inputs are skipped and counted",
        ],
    )
}

fn thinning_text(t: &Tuning) -> String {
    let common = "Splices: ordered pairs of the splice representatives of a family (all seeds when the family has at most `cap` of them, cap = 40, addr-text 12 quick / 24 thorough; otherwise the first seed of each distinct (length, first byte) class up to the cap); blocks cut out of chunk files are not spliced; cut points = starts and ends of all CBOR items up to nesting depth d (block 2; tx 2 quick / 4 thorough; header 3 quick / unbounded thorough; outputs and messages unbounded), every byte offset for addresses and address texts.";
    if t.thorough {
        format!(
            "thorough: every seed; every offset of every seed up to {} bytes (i.e. all but genesis.block) gets truncation, 8 bit flips, deletion, duplication; the 28-value substitution alphabet at every offset of seeds <= {} bytes and at item-boundary offsets (every head byte of every CBOR item, first/last payload byte of every string, break bytes) of larger ones; genesis.block (648 KiB): all fault kinds at item-boundary offsets only. Accessor digest of returned values: every fault of seeds <= {} bytes, faults at item-boundary offsets of larger ledger seeds (every 16th for genesis.block), never for messages > {} bytes. {common}",
            faults::THOROUGH_FULL_LIMIT,
            faults::THOROUGH_ALPHA_LIMIT,
            faults::FULL_LIMIT,
            faults::FULL_LIMIT
        )
    } else {
        format!(
            "quick: all .block/.tx/.header files, outputs, addresses, messages, and every {}th block (index % {} == 0) of each chunk file; every offset of seeds <= {} bytes with all fault kinds; a larger seed of n bytes at every k-th item-boundary offset by rank (k = max(1, n / {}); item-boundary offsets = every head byte of every CBOR item, first/last payload byte of every string, break bytes, first/last byte). {common}",
            faults::QUICK_CHUNK_BLOCK_STRIDE,
            faults::QUICK_CHUNK_BLOCK_STRIDE,
            faults::FULL_LIMIT,
            faults::QUICK_STRIDE_UNIT
        )
    }
}

/// Seeds of one family that are spliced pairwise: all of them when the family
/// is small; otherwise the first seed of each distinct (length, first byte)
/// class, at most the family's cap.
fn splice_representatives(world: &World, members: &[usize]) -> Vec<usize> {
    let m: Vec<usize> = members.iter().copied().filter(|&i| world.tuning.splice_member(&world.seeds[i])).collect();
    let cap = m.first().map(|&i| world.tuning.splice_cap(&world.seeds[i].family)).unwrap_or(0);
    if m.len() <= cap {
        return m;
    }
    // first one seed per distinct first byte, then one per distinct
    // (length, first byte), in seed order, up to the cap
    let mut out: Vec<usize> = vec![];
    let mut seen1 = BTreeSet::new();
    for &i in &m {
        if out.len() < cap && seen1.insert(world.seeds[i].bytes.first().copied()) {
            out.push(i);
        }
    }
    let mut seen2 = BTreeSet::new();
    for &i in &m {
        let s = &world.seeds[i];
        if out.len() < cap && !out.contains(&i) && seen2.insert((s.bytes.len(), s.bytes.first().copied())) {
            out.push(i);
        }
    }
    out.sort();
    out
}

fn make_samples(world: &World, units: &[Unit], spawner: &Spawner, scratch: &Path) -> Vec<Value> {
    let mut pr = Prober { sp: spawner, journal: scratch.join("journal-samples"), proc: None };
    // a few actual cases: one per unit kind and family, deterministic picks
    let mut out = vec![];
    let mut seen = BTreeSet::new();
    for u in units {
        let key = match u {
            Unit::Single(s) => format!("single:{}", world.seeds[*s].family.split('/').next().unwrap_or("")),
            Unit::Splice(a, _) => format!("splice:{}", world.seeds[*a].family.split('/').next().unwrap_or("")),
            Unit::Short(_) => "short".into(),
        };
        if !seen.insert(key) {
            continue;
        }
        let n = world.unit_calls(u);
        if n == 0 {
            continue;
        }
        for call in [n / 3, n / 2 + 7] {
            let call = call.min(n - 1);
            if let Some(m) = world.materialise(u, call) {
                let outcome = match pr.probe_with(m.entry, &m.bytes, true) {
                    Ok(v) => v,
                    Err(sig) => json!({"abort": sig}),
                };
                out.push(json!({
                    "unit": world.describe_unit(u), "call_index": call, "fault": m.desc, "entry_point": world.cat[m.entry].name,
                    "input_len": m.bytes.len(),
                    "input_hex_prefix": hex::encode(&m.bytes[..m.bytes.len().min(48)]),
                    "outcome": outcome,
                }));
                break;
            }
        }
        if out.len() >= 24 {
            break;
        }
    }
    pr.close();
    out
}

fn replay(ctx: &Ctx, world: &World, spawner: &Spawner, scratch: &Path, path: &Path) -> ! {
    let v: Value = std::fs::read_to_string(path).ok().and_then(|s| serde_json::from_str(&s).ok()).unwrap_or_else(|| die("unreadable replay file"));
    let case = v.get("case").unwrap_or(&v);
    let name = case.get("entry_point").and_then(|x| x.as_str()).unwrap_or_else(|| die("replay: no entry_point"));
    let input = hex::decode(case.get("input_hex").and_then(|x| x.as_str()).unwrap_or("")).unwrap_or_else(|_| die("replay: bad input_hex"));
    let entry = crate::entries::find(&world.cat, name);
    let mut pr = Prober { sp: spawner, journal: scratch.join("journal-replay"), proc: None };
    let r = pr.probe(entry, &input);
    pr.close();
    let _ = std::fs::remove_dir_all(scratch);
    println!("replay {name} on {} bytes: {r:?}", input.len());
    match r {
        Err(sig) => ctx.violation(format!("abort:{sig}:{name}"), format!("{name}: worker killed by {sig}"), case.clone()),
        Ok(o) => {
            if let Some(p) = o.get("panic") {
                ctx.violation(defect_fingerprint(&format!("{} @{}", p["site"].as_str().unwrap_or(""), p["location"].as_str().unwrap_or(""))), format!("{name} panicked: {} at {}", p["message"], p["location"]), case.clone());
            }
        }
    }
    ctx.finish(Level::FaultEnumeration, mc_core::cov! {"evaluations" => 1, "distinct_nontrivial" => 0, "rule" => "replay", "samples" => [case.clone()]}, &[])
}
