//! Loader for the on-chain artefacts shipped with the pallas repository
//! (`/repo/test_data`): hex-encoded `.tx` / `.block` / `.header` files and the
//! immutable-DB `.chunk` files used by the pallas-hardano tests.
//!
//! Shared helper: nothing here depends on a particular property.

use mc_core::refcbor;
use std::path::PathBuf;

#[derive(Clone, Debug)]
pub struct Artefact {
    /// File name (`alonzo1.block`) or `file#index` for a block cut out of a chunk.
    pub name: String,
    pub bytes: Vec<u8>,
}

pub fn repo_root() -> PathBuf {
    PathBuf::from(std::env::var("PALLAS_REPO").unwrap_or_else(|_| "/repo".into()))
}

pub fn test_data_dir() -> PathBuf {
    repo_root().join("test_data")
}

/// All files `test_data/*.<ext>` (hex text, possibly upper case, possibly with
/// trailing white space), sorted by name. Files that are not valid hex are a
/// machinery failure: the artefact set must not silently shrink.
pub fn load_hex(ext: &str) -> Vec<Artefact> {
    let dir = test_data_dir();
    let mut names: Vec<String> = match std::fs::read_dir(&dir) {
        Ok(rd) => rd
            .filter_map(|e| e.ok())
            .map(|e| e.file_name().to_string_lossy().to_string())
            .filter(|n| n.ends_with(&format!(".{ext}")))
            .collect(),
        Err(e) => mc_core::report::machinery_failure(&format!("cannot list {dir:?}: {e}")),
    };
    names.sort();
    names
        .into_iter()
        .map(|name| {
            let txt = std::fs::read_to_string(dir.join(&name))
                .unwrap_or_else(|e| mc_core::report::machinery_failure(&format!("cannot read {name}: {e}")));
            let clean: String = txt.chars().filter(|c| !c.is_whitespace()).collect();
            let bytes = hex::decode(&clean)
                .unwrap_or_else(|e| mc_core::report::machinery_failure(&format!("{name} is not hex: {e}")));
            Artefact { name, bytes }
        })
        .collect()
}

/// Every block of every `test_data/*.chunk` file. A chunk file is a plain
/// concatenation of CBOR block items; it is cut at item boundaries with the
/// independent `refcbor` parser (no pallas code involved).
pub fn chunk_blocks() -> Vec<Artefact> {
    let dir = test_data_dir();
    let mut names: Vec<String> = std::fs::read_dir(&dir)
        .unwrap_or_else(|e| mc_core::report::machinery_failure(&format!("cannot list {dir:?}: {e}")))
        .filter_map(|e| e.ok())
        .map(|e| e.file_name().to_string_lossy().to_string())
        .filter(|n| n.ends_with(".chunk"))
        .collect();
    names.sort();
    let mut out = vec![];
    for name in names {
        let raw = std::fs::read(dir.join(&name))
            .unwrap_or_else(|e| mc_core::report::machinery_failure(&format!("cannot read {name}: {e}")));
        let items = refcbor::parse_seq(&raw)
            .unwrap_or_else(|e| mc_core::report::machinery_failure(&format!("{name} is not a sequence of CBOR items: {e:?}")));
        for (i, it) in items.iter().enumerate() {
            out.push(Artefact { name: format!("{name}#{i}"), bytes: raw[it.start..it.end].to_vec() });
        }
    }
    out
}
