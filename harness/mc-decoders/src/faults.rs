//! The fault space of C09 as an indexable enumeration (DESIGN.md 1.3).
//!
//! Work is described by *units*; inside a unit every call (one faulted input
//! fed to one entry point) has a dense index, so that a batch is just a range
//! of call indices and a dead worker can be attributed to one call.
//!
//! * `Single(seed)`: for each selected offset `o` (all offsets, or the item
//!   boundary offsets of a thinned seed): truncation to length `o`, the 8
//!   single-bit flips of byte `o`, the substitution alphabet, deletion of byte
//!   `o`, duplication of byte `o`. Slots whose value equals the original byte
//!   or an earlier slot of the same offset are no-ops (not evaluated).
//! * `Splice(a, b)`: `a[..i] ++ b[j..]` for every cut point `i` of `a` and `j`
//!   of `b` (same family).
//! * `Short(entry)`: all byte strings of length 0, 1 and 2.

use crate::seeds::{self, Seed};

/// Substitution alphabet besides the 8 bit flips. `x` = original byte.
/// 00 ff x+1 x-1 x^80 | indefinite heads | 8-byte-argument heads of every
/// major type | tags (c0, c2, 1- and 2-byte tag heads) | same major type with
/// argument width 1/2/4/8, reserved (28) and indefinite (31) | null.
pub const ALPHA: usize = 28;
pub fn alphabet(x: u8) -> [u8; ALPHA] {
    let m = x & 0xe0;
    [
        0x00,
        0xff,
        x.wrapping_add(1),
        x.wrapping_sub(1),
        x ^ 0x80,
        0x5f,
        0x7f,
        0x9f,
        0xbf,
        0x1b,
        0x3b,
        0x5b,
        0x7b,
        0x9b,
        0xbb,
        0xdb,
        0xfb,
        0xc0,
        0xc2,
        0xd8,
        0xd9,
        m | 0x18,
        m | 0x19,
        m | 0x1a,
        m | 0x1b,
        m | 0x1c,
        m | 0x1f,
        0xf6,
    ]
}

#[derive(Clone, Debug, PartialEq)]
pub enum Fault {
    Trunc(usize),
    Replace(usize, u8),
    Delete(usize),
    Dup(usize),
}

impl Fault {
    pub fn describe(&self) -> String {
        match self {
            Fault::Trunc(k) => format!("truncate to {k} bytes"),
            Fault::Replace(o, v) => format!("byte {o} := {v:#04x}"),
            Fault::Delete(o) => format!("delete byte {o}"),
            Fault::Dup(o) => format!("duplicate byte {o}"),
        }
    }
    pub fn apply(&self, seed: &[u8]) -> Vec<u8> {
        match self {
            Fault::Trunc(k) => seed[..*k].to_vec(),
            Fault::Replace(o, v) => {
                let mut b = seed.to_vec();
                b[*o] = *v;
                b
            }
            Fault::Delete(o) => {
                let mut b = seed.to_vec();
                b.remove(*o);
                b
            }
            Fault::Dup(o) => {
                let mut b = seed.to_vec();
                b.insert(*o, seed[*o]);
                b
            }
        }
    }
}

/// Enumeration plan of one seed.
pub struct Plan {
    /// Selected offsets (sorted).
    pub offsets: Vec<usize>,
    /// Per selected offset: does the substitution alphabet apply there (bit
    /// flips, truncation, deletion and duplication always do).
    pub alpha: Vec<bool>,
    /// Per selected offset: is the accessor / Debug digest of `Ok` values
    /// computed for faults at this offset (otherwise `Ok` has a constant digest).
    pub digest: Vec<bool>,
    /// Whether every offset of the seed is selected.
    pub full: bool,
    pub text: bool,
    pub entries: usize,
}

impl Plan {
    /// Slots per offset: truncation, 8 flips, alphabet, [95 printable ASCII
    /// for text seeds], delete, duplicate.
    pub fn slots(&self) -> usize {
        1 + 8 + ALPHA + if self.text { 95 } else { 0 } + 2
    }
    pub fn faults(&self) -> u64 {
        (self.offsets.len() * self.slots()) as u64
    }
    pub fn calls(&self) -> u64 {
        self.faults() * self.entries as u64
    }
    /// The faults of offset index `oi`, in slot order; `None` = no-op slot.
    pub fn faults_at(&self, seed: &[u8], oi: usize) -> Vec<Option<Fault>> {
        let o = self.offsets[oi];
        let x = seed[o];
        let mut seen = [false; 256];
        seen[x as usize] = true;
        let mut v = Vec::with_capacity(self.slots());
        // a truncation to the full length is the unfaulted artefact
        v.push(Some(Fault::Trunc(o)));
        let mut repl = |val: u8, on: bool, v: &mut Vec<Option<Fault>>| {
            if seen[val as usize] || !on {
                v.push(None);
            } else {
                seen[val as usize] = true;
                v.push(Some(Fault::Replace(o, val)));
            }
        };
        for bit in 0..8 {
            repl(x ^ (1 << bit), true, &mut v);
        }
        for a in alphabet(x) {
            repl(a, self.alpha[oi], &mut v);
        }
        if self.text {
            for c in 0x20u8..0x7f {
                repl(c, true, &mut v);
            }
        }
        v.push(Some(Fault::Delete(o)));
        v.push(Some(Fault::Dup(o)));
        v
    }
}

#[derive(Clone, Copy, Debug, PartialEq)]
pub struct Tuning {
    pub thorough: bool,
}

/// Seeds up to this size are swept at every offset with the full alphabet and
/// the full digest in both tiers.
pub const FULL_LIMIT: usize = 4096;
/// thorough: seeds up to this size are swept at every offset with the full
/// alphabet; larger ones get the substitution alphabet at item-boundary
/// offsets only (truncation, bit flips, deletion, duplication everywhere).
pub const THOROUGH_ALPHA_LIMIT: usize = 48 * 1024;
/// thorough: seeds larger than this (genesis.block) are swept at item-boundary
/// offsets only, and the accessor digest is taken at every 16th of them.
pub const THOROUGH_FULL_LIMIT: usize = 200 * 1024;
/// quick: of the blocks cut out of the immutable-DB chunk files, every
/// `QUICK_CHUNK_BLOCK_STRIDE`-th (by index inside its chunk) is swept.
pub const QUICK_CHUNK_BLOCK_STRIDE: usize = 16;
/// quick: a seed of n > 4096 bytes is swept at every k-th item-boundary offset
/// (by rank), k = max(1, n / QUICK_STRIDE_UNIT).
pub const QUICK_STRIDE_UNIT: usize = 2048;

pub fn is_chunk_block(seed: &Seed) -> bool {
    seed.family == "block" && seed.name.contains(".chunk#")
}
fn chunk_index(seed: &Seed) -> usize {
    seed.name.rsplit('#').next().and_then(|x| x.parse().ok()).unwrap_or(0)
}
fn is_message(seed: &Seed) -> bool {
    seed.family.starts_with("msg:")
}

impl Tuning {
    /// Offsets, alphabet and digest selection for a seed (see the constants).
    pub fn plan(&self, seed: &Seed) -> Plan {
        let n = seed.bytes.len();
        let empty = Plan { offsets: vec![], alpha: vec![], digest: vec![], full: false, text: seed.text, entries: seed.entries.len() };
        if !self.thorough && is_chunk_block(seed) && chunk_index(seed) % QUICK_CHUNK_BLOCK_STRIDE != 0 {
            return empty;
        }
        if n <= FULL_LIMIT {
            return Plan { offsets: (0..n).collect(), alpha: vec![true; n], digest: vec![true; n], full: true, text: seed.text, entries: seed.entries.len() };
        }
        let b = seeds::boundary_offsets(&seed.bytes);
        let msg = is_message(seed);
        if self.thorough && n <= THOROUGH_FULL_LIMIT {
            let mut is_b = vec![false; n];
            for &o in &b {
                is_b[o] = true;
            }
            let alpha = if n <= THOROUGH_ALPHA_LIMIT { vec![true; n] } else { is_b.clone() };
            let digest = if msg { vec![false; n] } else { is_b };
            return Plan { offsets: (0..n).collect(), alpha, digest, full: true, text: seed.text, entries: seed.entries.len() };
        }
        // item boundaries only
        let stride = if self.thorough { 1 } else { (n / QUICK_STRIDE_UNIT).max(1) };
        let last = b.len().saturating_sub(1);
        let offsets: Vec<usize> = b.iter().enumerate().filter(|(i, _)| i % stride == 0 || *i == last).map(|x| *x.1).collect();
        let dstride = if self.thorough { 16 } else { 1 };
        let digest = (0..offsets.len()).map(|i| !msg && i % dstride == 0).collect();
        Plan { alpha: vec![true; offsets.len()], digest, offsets, full: false, text: seed.text, entries: seed.entries.len() }
    }
    /// Maximum nesting depth of splice cut points per family.
    pub fn splice_depth(&self, family: &str) -> u32 {
        match family {
            "block" => 2,
            "tx" => {
                if self.thorough {
                    4
                } else {
                    2
                }
            }
            "header" => {
                if self.thorough {
                    u32::MAX
                } else {
                    3
                }
            }
            _ => u32::MAX,
        }
    }
    /// Seeds of a family that take part in splices.
    pub fn splice_member(&self, seed: &Seed) -> bool {
        // chunk-file blocks (hundreds of same-era blocks) are not spliced
        !is_chunk_block(seed)
    }
    /// Maximum number of splice representatives of a family.
    pub fn splice_cap(&self, family: &str) -> usize {
        match family {
            "addr-text" => {
                if self.thorough {
                    24
                } else {
                    12
                }
            }
            _ => 40,
        }
    }
}

/// Byte string number `i` of the enumeration of all strings of length <= 2.
pub const SHORT_COUNT: u64 = 1 + 256 + 65536;
pub fn short_string(i: u64) -> Vec<u8> {
    if i == 0 {
        vec![]
    } else if i <= 256 {
        vec![(i - 1) as u8]
    } else {
        let k = i - 257;
        vec![(k >> 8) as u8, (k & 0xff) as u8]
    }
}
