//! Worker subprocess: `mc-decoders --c09-worker <tier> <journal> <seeds-digest|0|any>`.
//!
//! Reads one request per line on stdin, answers one JSON line on stdout.
//! Before every call into pallas the call index is stored in a shared mapping
//! of the journal file, so that the parent can attribute a dead worker (stack
//! overflow, allocation failure, kill after a hang) to exactly one input.
//!
//! requests: `S seed lo hi` | `P a b lo hi` | `H entry lo hi` (batches),
//!           `X entry -hex [full]` (one probe), `T what` (self-test), `Q` (quit)

use crate::faults::Tuning;
use crate::seeds;
use crate::world::{Unit, World};
use mc_core::json;
use std::io::{BufRead, Write};
use std::os::unix::io::AsRawFd;

/// Address-space limit of a worker: a length head that makes a decoder
/// reserve more than this aborts the worker instead of exhausting the host.
pub const AS_LIMIT: u64 = 2 << 30;
/// Stack of the decoding thread (Rust's default for spawned threads is 2 MiB,
/// the main thread usually has 8 MiB).
pub const STACK: usize = 8 << 20;

pub const J_IDLE: u64 = u64::MAX;
pub const J_PROBE: u64 = u64::MAX - 1;
pub const J_BASELINE: u64 = u64::MAX - 2;

struct Journal(*mut u64);
unsafe impl Send for Journal {}
impl Journal {
    fn open(path: &str) -> Journal {
        let f = std::fs::OpenOptions::new().read(true).write(true).create(true).truncate(false).open(path).unwrap_or_else(|e| mc_core::report::machinery_failure(&format!("worker: journal {path}: {e}")));
        f.set_len(8).unwrap();
        let p = unsafe { libc::mmap(std::ptr::null_mut(), 8, libc::PROT_READ | libc::PROT_WRITE, libc::MAP_SHARED, f.as_raw_fd(), 0) };
        if p == libc::MAP_FAILED {
            mc_core::report::machinery_failure("worker: mmap of the journal failed");
        }
        Journal(p as *mut u64)
    }
    #[inline]
    fn set(&self, v: u64) {
        unsafe { std::ptr::write_volatile(self.0, v) }
    }
}

pub fn main(args: &[String]) -> ! {
    if args.len() != 3 {
        mc_core::report::machinery_failure("worker usage: --c09-worker <tier> <journal> <seeds-digest>");
    }
    let thorough = args[0] == "thorough";
    let journal_path = args[1].clone();
    // "0": probe-only worker (no seed list); "any": build the list and report
    // its digest; otherwise the digest the list must have
    let any = args[2] == "any";
    let want_digest: u64 = if any { 1 } else { args[2].parse().unwrap_or_else(|_| mc_core::report::machinery_failure("worker: bad digest argument")) };
    unsafe {
        let lim = libc::rlimit { rlim_cur: AS_LIMIT, rlim_max: AS_LIMIT };
        libc::setrlimit(libc::RLIMIT_AS, &lim);
        // no core files for deliberately provoked aborts
        let zero = libc::rlimit { rlim_cur: 0, rlim_max: 0 };
        libc::setrlimit(libc::RLIMIT_CORE, &zero);
    }
    let h = std::thread::Builder::new()
        .name("c09-decode".into())
        .stack_size(STACK)
        .spawn(move || {
            let journal = Journal::open(&journal_path);
            journal.set(J_IDLE);
            // digest 0 = probe-only worker: no seed list needed
            let world = if want_digest == 0 { World::probe_only(Tuning { thorough }) } else { World::new(Tuning { thorough }) };
            let d = if want_digest == 0 { 0 } else { seeds::digest(&world.seeds) };
            if d != want_digest && !any {
                mc_core::report::machinery_failure(&format!("worker: seed list differs from the parent's ({d} vs {want_digest})"));
            }
            let stdin = std::io::stdin();
            let stdout = std::io::stdout();
            {
                // a parent that is gone (closed pipe) is not this worker's problem
                let mut o = stdout.lock();
                if writeln!(o, "READY {d}").and_then(|_| o.flush()).is_err() {
                    return;
                }
            }
            for line in stdin.lock().lines() {
                let Ok(line) = line else { break };
                let line = line.trim();
                if line == "Q" || line.is_empty() {
                    break;
                }
                let reply = if let Some(what) = line.strip_prefix("T ") {
                    // machinery self-test: die in a known way inside a journaled call
                    journal.set(J_PROBE);
                    match what {
                        "abort" => std::process::abort(),
                        "overflow" => {
                            #[allow(unconditional_recursion)]
                            fn deep(n: u64) -> u64 {
                                let pad = std::hint::black_box([n; 64]);
                                deep(n + 1) + pad[(n % 64) as usize]
                            }
                            json!({"selftest": deep(0)})
                        }
                        "alloc" => {
                            let v: Vec<u8> = std::hint::black_box(vec![1u8; 1usize << 40]);
                            json!({"selftest": v.len()})
                        }
                        _ => json!({"selftest": "unknown"}),
                    }
                } else if let Some(rest) = line.strip_prefix("X ") {
                    let mut it = rest.split_whitespace();
                    let entry: usize = it.next().and_then(|x| x.parse().ok()).unwrap_or(usize::MAX);
                    let bytes = hex::decode(it.next().unwrap_or("-").trim_start_matches('-')).unwrap_or_default();
                    let full = it.next() == Some("full");
                    if entry >= world.cat.len() {
                        mc_core::report::machinery_failure("worker: bad probe request");
                    }
                    journal.set(J_PROBE);
                    let res = world.probe(entry, &bytes, full);
                    journal.set(J_IDLE);
                    json!({"probe": crate::c09::res_json(&res)})
                } else {
                    let Some((unit, lo, hi)) = Unit::parse(line) else { mc_core::report::machinery_failure(&format!("worker: bad request {line}")) };
                    let r = world.run_batch(&unit, lo, hi, &mut |c| journal.set(c));
                    journal.set(J_IDLE);
                    r.to_json()
                };
                let mut o = stdout.lock();
                if writeln!(o, "{reply}").and_then(|_| o.flush()).is_err() {
                    return;
                }
            }
        })
        .unwrap();
    let ok = h.join().is_ok();
    std::process::exit(if ok { 0 } else { 3 })
}
