//! mc-decoders: fault sweep over the ledger / address / mini-protocol decoders
//! (C09).

mod artefacts;
mod c09;
mod entries;
mod faults;
mod seeds;
mod worker;
mod world;

fn main() {
    let args: Vec<String> = std::env::args().collect();
    if args.get(1).map(|s| s.as_str()) == Some("--c09-worker") {
        worker::main(&args[2..]);
    }
    let ctx = mc_core::Ctx::from_args();
    match ctx.prop.as_str() {
        "C09" => c09::run(ctx),
        p => mc_core::report::machinery_failure(&format!("mc-decoders does not serve {p}")),
    }
}
