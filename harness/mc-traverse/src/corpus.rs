//! Corpus loading and the *reference view* of blocks / transactions, built
//! only from `mc_core::refcbor` spans and `mc_core::blake2b` (no pallas code).

use mc_core::blake2b::blake2b_256;
use mc_core::refcbor::{self, Kind, Node};
use std::path::PathBuf;

pub const TEST_DATA: &str = "/repo/test_data";

#[derive(Clone)]
pub struct Artefact {
    pub name: String,
    pub bytes: Vec<u8>,
}

fn sorted_dir(dir: &str) -> Vec<PathBuf> {
    let mut v: Vec<PathBuf> = match std::fs::read_dir(dir) {
        Ok(rd) => rd.filter_map(|e| e.ok().map(|e| e.path())).collect(),
        Err(e) => mc_core::report::machinery_failure(&format!("cannot list {dir}: {e}")),
    };
    v.sort();
    v
}

fn read_hex(p: &PathBuf) -> Vec<u8> {
    let s = std::fs::read_to_string(p).unwrap_or_else(|e| mc_core::report::machinery_failure(&format!("read {p:?}: {e}")));
    hex::decode(s.trim()).unwrap_or_else(|e| mc_core::report::machinery_failure(&format!("hex {p:?}: {e}")))
}

/// All `*.block` files of test_data (hex), sorted by name.
pub fn block_files() -> Vec<Artefact> {
    sorted_dir(TEST_DATA)
        .into_iter()
        .filter(|p| p.extension().map(|e| e == "block").unwrap_or(false))
        .map(|p| Artefact { name: p.file_name().unwrap().to_string_lossy().into_owned(), bytes: read_hex(&p) })
        .collect()
}

/// All `*.tx` files of test_data (hex), sorted by name.
pub fn tx_files() -> Vec<Artefact> {
    sorted_dir(TEST_DATA)
        .into_iter()
        .filter(|p| p.extension().map(|e| e == "tx").unwrap_or(false))
        .map(|p| Artefact { name: p.file_name().unwrap().to_string_lossy().into_owned(), bytes: read_hex(&p) })
        .collect()
}

/// Blocks of the immutable-DB chunk files, split at CBOR item boundaries by
/// the independent reader. Name = `<chunk>#<ordinal>`.
pub fn chunk_blocks() -> Vec<Artefact> {
    let mut out = vec![];
    let mut files: Vec<PathBuf> = sorted_dir(TEST_DATA);
    files.extend(sorted_dir(&format!("{TEST_DATA}/inconsistent_indexes")));
    for p in files {
        if !p.extension().map(|e| e == "chunk").unwrap_or(false) {
            continue;
        }
        let buf = std::fs::read(&p).unwrap_or_else(|e| mc_core::report::machinery_failure(&format!("read {p:?}: {e}")));
        let nodes = match refcbor::parse_seq(&buf) {
            Ok(n) => n,
            Err(e) => mc_core::report::machinery_failure(&format!("chunk {p:?} is not a CBOR sequence: {e:?}")),
        };
        let stem = p.file_name().unwrap().to_string_lossy().into_owned();
        for (i, n) in nodes.iter().enumerate() {
            out.push(Artefact { name: format!("{stem}#{i}"), bytes: buf[n.start..n.end].to_vec() });
        }
    }
    out
}

// ---------------------------------------------------------------------------
// Reference view
// ---------------------------------------------------------------------------

#[derive(Clone, Debug, PartialEq, Eq, PartialOrd, Ord)]
pub struct RefInput {
    pub tx: Vec<u8>,
    pub index: u64,
}

#[derive(Clone, Debug, PartialEq, Eq, PartialOrd, Ord)]
pub struct RefOutput {
    /// Shelley+: raw address bytes. Byron: the payload byte string inside tag 24.
    pub address: Vec<u8>,
    pub byron_crc: Option<u64>,
    pub coin: u64,
    /// (policy, name, quantity) in wire order.
    pub assets: Vec<(Vec<u8>, Vec<u8>, u64)>,
    /// Datum hash (legacy 3rd element or `[0, hash]`).
    pub datum_hash: Option<Vec<u8>>,
    /// Inline datum: the bytes wrapped by tag 24 in `[1, #6.24(bytes)]`.
    pub inline_datum: Option<Vec<u8>>,
}

#[derive(Clone, Debug)]
pub struct RefTx {
    pub body: Vec<u8>,
    pub id: [u8; 32],
    pub witness: Vec<u8>,
    pub aux: Option<Vec<u8>>,
    pub valid: bool,
    pub inputs: Vec<RefInput>,
    pub outputs: Vec<RefOutput>,
    pub collateral: Vec<RefInput>,
    pub collateral_return: Option<RefOutput>,
    pub fee: Option<u64>,
    pub ttl: Option<u64>,
    pub validity_start: Option<u64>,
    /// Witness-set plutus data items (key 4), raw bytes each.
    pub witness_datums: Vec<Vec<u8>>,
}

#[derive(Clone, Debug)]
pub struct RefBlock {
    pub era_tag: u64,
    pub txs: Vec<RefTx>,
    pub invalid: Vec<u64>,
    pub aux_keys: Vec<u64>,
}

fn err<T>(s: impl Into<String>) -> Result<T, String> {
    Err(s.into())
}

fn arr<'a>(n: &'a Node, what: &str) -> Result<&'a Vec<Node>, String> {
    n.untagged().as_array().ok_or_else(|| format!("{what}: not an array"))
}

fn u64_of(n: &Node, what: &str) -> Result<u64, String> {
    n.as_u64().ok_or_else(|| format!("{what}: not a uint"))
}

fn bytes_of(n: &Node, what: &str) -> Result<Vec<u8>, String> {
    n.as_bytes().ok_or_else(|| format!("{what}: not bytes"))
}

fn shelley_input(n: &Node) -> Result<RefInput, String> {
    let a = arr(n, "input")?;
    if a.len() != 2 {
        return err("input: not a pair");
    }
    Ok(RefInput { tx: bytes_of(&a[0], "input.tx")?, index: u64_of(&a[1], "input.index")? })
}

fn value(n: &Node) -> Result<(u64, Vec<(Vec<u8>, Vec<u8>, u64)>), String> {
    if let Some(c) = n.as_u64() {
        return Ok((c, vec![]));
    }
    let a = arr(n, "value")?;
    if a.len() != 2 {
        return err("value: not a pair");
    }
    let coin = u64_of(&a[0], "value.coin")?;
    let mut assets = vec![];
    for (pol, names) in a[1].as_map().ok_or("value.multiasset: not a map")? {
        let pol = bytes_of(pol, "policy")?;
        for (name, q) in names.as_map().ok_or("value.assets: not a map")? {
            assets.push((pol.clone(), bytes_of(name, "asset name")?, u64_of(q, "asset quantity")?));
        }
    }
    Ok((coin, assets))
}

pub fn shelley_output(n: &Node, buf: &[u8]) -> Result<RefOutput, String> {
    match &n.kind {
        Kind::Array(a, _) => {
            if a.len() < 2 {
                return err("output: short array");
            }
            let (coin, assets) = value(&a[1])?;
            let datum_hash = match a.get(2) {
                Some(h) => Some(bytes_of(h, "datum hash")?),
                None => None,
            };
            Ok(RefOutput { address: bytes_of(&a[0], "address")?, byron_crc: None, coin, assets, datum_hash, inline_datum: None })
        }
        Kind::Map(_, _) => {
            let address = bytes_of(n.map_get(0).ok_or("output: no address")?, "address")?;
            let (coin, assets) = value(n.map_get(1).ok_or("output: no value")?)?;
            let mut datum_hash = None;
            let mut inline_datum = None;
            if let Some(d) = n.map_get(2) {
                let a = arr(d, "datum option")?;
                if a.len() != 2 {
                    return err("datum option: not a pair");
                }
                match u64_of(&a[0], "datum option tag")? {
                    0 => datum_hash = Some(bytes_of(&a[1], "datum hash")?),
                    1 => match &a[1].kind {
                        Kind::Tag(24, _, inner) => inline_datum = Some(bytes_of(inner, "inline datum")?),
                        _ => return err("inline datum: not tag 24"),
                    },
                    _ => return err("datum option: unknown variant"),
                }
            }
            let _ = buf;
            Ok(RefOutput { address, byron_crc: None, coin, assets, datum_hash, inline_datum })
        }
        _ => err("output: neither array nor map"),
    }
}

fn shelley_tx(body: &Node, wit: &Node, aux: Option<&Node>, valid: bool, buf: &[u8]) -> Result<RefTx, String> {
    let bspan = body.span(buf).to_vec();
    if body.as_map().is_none() {
        return err("body: not a map");
    }
    let mut inputs = vec![];
    for i in arr(body.map_get(0).ok_or("body: no inputs")?, "inputs")? {
        inputs.push(shelley_input(i)?);
    }
    let mut outputs = vec![];
    for o in arr(body.map_get(1).ok_or("body: no outputs")?, "outputs")? {
        outputs.push(shelley_output(o, buf)?);
    }
    let mut collateral = vec![];
    if let Some(c) = body.map_get(13) {
        for i in arr(c, "collateral")? {
            collateral.push(shelley_input(i)?);
        }
    }
    let collateral_return = match body.map_get(16) {
        Some(o) => Some(shelley_output(o, buf)?),
        None => None,
    };
    let opt = |k: u64| -> Result<Option<u64>, String> {
        match body.map_get(k) {
            Some(n) => Ok(Some(u64_of(n, "body uint field")?)),
            None => Ok(None),
        }
    };
    let mut witness_datums = vec![];
    if let Some(d) = wit.map_get(4) {
        for x in arr(d, "witness datums")? {
            witness_datums.push(x.span(buf).to_vec());
        }
    }
    Ok(RefTx {
        id: blake2b_256(&bspan),
        body: bspan,
        witness: wit.span(buf).to_vec(),
        aux: aux.map(|a| a.span(buf).to_vec()),
        valid,
        inputs,
        outputs,
        collateral,
        collateral_return,
        fee: opt(2)?,
        ttl: opt(3)?,
        validity_start: opt(8)?,
        witness_datums,
    })
}

fn byron_tx(pair: &Node, buf: &[u8]) -> Result<RefTx, String> {
    let p = arr(pair, "byron tx payload")?;
    if p.len() != 2 {
        return err("byron tx payload: not a pair");
    }
    let tx = &p[0];
    let t = arr(tx, "byron tx")?;
    if t.len() != 3 {
        return err("byron tx: not a triple");
    }
    let mut inputs = vec![];
    for i in arr(&t[0], "byron inputs")? {
        let a = arr(i, "byron input")?;
        if a.len() != 2 || u64_of(&a[0], "byron input variant")? != 0 {
            return err("byron input: unknown variant");
        }
        let inner = match &a[1].kind {
            Kind::Tag(24, _, b) => bytes_of(b, "byron input payload")?,
            _ => return err("byron input: not tag 24"),
        };
        let n = refcbor::parse_one(&inner).map_err(|e| format!("byron input payload: {e:?}"))?;
        let q = arr(&n, "byron input pair")?;
        inputs.push(RefInput { tx: bytes_of(&q[0], "byron input tx")?, index: u64_of(&q[1], "byron input index")? });
    }
    let mut outputs = vec![];
    for o in arr(&t[1], "byron outputs")? {
        let a = arr(o, "byron output")?;
        let addr = arr(&a[0], "byron address")?;
        let payload = match &addr[0].kind {
            Kind::Tag(24, _, b) => bytes_of(b, "byron address payload")?,
            _ => return err("byron address: not tag 24"),
        };
        outputs.push(RefOutput {
            address: payload,
            byron_crc: Some(u64_of(&addr[1], "byron crc")?),
            coin: u64_of(&a[1], "byron amount")?,
            assets: vec![],
            datum_hash: None,
            inline_datum: None,
        });
    }
    let span = tx.span(buf).to_vec();
    Ok(RefTx {
        id: blake2b_256(&span),
        body: span,
        witness: p[1].span(buf).to_vec(),
        aux: None,
        valid: true,
        inputs,
        outputs,
        collateral: vec![],
        collateral_return: None,
        fee: None,
        ttl: None,
        validity_start: None,
        witness_datums: vec![],
    })
}

/// Reference view of a wrapped (`[era, block]`) block.
pub fn ref_block(buf: &[u8]) -> Result<RefBlock, String> {
    let root = refcbor::parse_one(buf).map_err(|e| format!("cbor: {e:?}"))?;
    let w = root.as_array().ok_or("wrapper: not an array")?;
    if w.len() != 2 {
        return err("wrapper: not a pair");
    }
    let era_tag = u64_of(&w[0], "era tag")?;
    let b = arr(&w[1], "block")?;
    match era_tag {
        0 => Ok(RefBlock { era_tag, txs: vec![], invalid: vec![], aux_keys: vec![] }),
        1 => {
            if b.len() != 3 {
                return err("byron block: not a triple");
            }
            let body = arr(&b[1], "byron body")?;
            let mut txs = vec![];
            for p in arr(&body[0], "tx payload")? {
                txs.push(byron_tx(p, buf)?);
            }
            Ok(RefBlock { era_tag, txs, invalid: vec![], aux_keys: vec![] })
        }
        2..=7 => {
            if b.len() < 4 {
                return err("block: fewer than 4 elements");
            }
            let bodies = arr(&b[1], "bodies")?;
            let wits = arr(&b[2], "witness sets")?;
            let auxm = b[3].as_map().ok_or("aux data: not a map")?;
            let mut invalid = vec![];
            if let Some(inv) = b.get(4) {
                for i in arr(inv, "invalid transactions")? {
                    invalid.push(u64_of(i, "invalid index")?);
                }
            }
            if bodies.len() != wits.len() {
                return err("bodies / witness sets differ in length");
            }
            let mut aux_keys = vec![];
            for (k, _) in auxm {
                aux_keys.push(u64_of(k, "aux key")?);
            }
            let mut txs = vec![];
            for (i, body) in bodies.iter().enumerate() {
                let aux = auxm.iter().find(|(k, _)| k.as_u64() == Some(i as u64)).map(|(_, v)| v);
                let valid = !invalid.contains(&(i as u64));
                txs.push(shelley_tx(body, &wits[i], aux, valid, buf)?);
            }
            Ok(RefBlock { era_tag, txs, invalid, aux_keys })
        }
        t => err(format!("unknown era tag {t}")),
    }
}

/// Shape of a stand-alone transaction file.
#[derive(Clone, Copy, Debug, PartialEq, Eq)]
pub enum TxShape {
    /// `[tx, witnesses]`
    Byron,
    /// `[body, witness set, aux / null]`
    ShelleyMa,
    /// `[body, witness set, bool, aux / null]`
    AlonzoPlus,
}

pub fn ref_tx(buf: &[u8]) -> Result<(TxShape, RefTx), String> {
    let root = refcbor::parse_one(buf).map_err(|e| format!("cbor: {e:?}"))?;
    let a = root.as_array().ok_or("tx: not an array")?;
    let aux_of = |n: &Node| -> Option<Node> {
        if n.is_null() || matches!(n.kind, Kind::Simple(23, 0)) {
            None
        } else {
            Some(n.clone())
        }
    };
    match a.len() {
        2 => Ok((TxShape::Byron, byron_tx(&root, buf)?)),
        3 => {
            let aux = aux_of(&a[2]);
            Ok((TxShape::ShelleyMa, shelley_tx(&a[0], &a[1], aux.as_ref(), true, buf)?))
        }
        4 => {
            let valid = match a[2].kind {
                Kind::Simple(21, 0) => true,
                Kind::Simple(20, 0) => false,
                _ => return err("tx: third element is not a bool"),
            };
            let aux = aux_of(&a[3]);
            Ok((TxShape::AlonzoPlus, shelley_tx(&a[0], &a[1], aux.as_ref(), valid, buf)?))
        }
        n => err(format!("tx: array of {n}")),
    }
}

/// Hard-fork-combinator era index -> name, as the wrapper declares it.
pub fn era_name(tag: u64) -> &'static str {
    match tag {
        0 | 1 => "Byron",
        2 => "Shelley",
        3 => "Allegra",
        4 => "Mary",
        5 => "Alonzo",
        6 => "Babbage",
        7 => "Conway",
        _ => "?",
    }
}
