//! C32 — slot, epoch and wall-clock conversions are mutually consistent.
//! GRID over contiguous ranges: EVERY slot of [0, 2^24) (quick) / [0, 2^32)
//! (thorough) for the four well-known networks, plus 2^16-slot windows around
//! each era boundary and ending at 2^40.

use mc_core::{catch, cov, json, Ctx, Level, Value};
use pallas_traverse::wellknown::GenesisValues;
use rayon::prelude::*;
use std::collections::BTreeMap;

const CHUNK: u64 = 1 << 16;

/// Independent description of a network's two eras (Byron, Shelley+), derived
/// from the genesis values that are the *input* of the conversion: slot
/// length in seconds, epoch length in seconds => epoch size in slots.
#[derive(Clone, Copy, Debug)]
struct EraSpec {
    slot_len: u64,
    epoch_slots: u64,
}

struct Net {
    name: &'static str,
    g: GenesisValues,
    boundary: u64,
    byron: EraSpec,
    shelley: EraSpec,
}

/// Known protocol constants (Byron: k = 2160 => 10k = 21600 slots of 20 s on
/// mainnet / testnet / preprod, 4320 on preview; Shelley: 432000 slots of 1 s,
/// 86400 on preview). Used to cross-check what the genesis values imply.
fn protocol_epoch_slots(name: &str) -> (u64, u64) {
    match name {
        "preview" => (4320, 86400),
        _ => (21600, 432000),
    }
}

fn nets() -> Vec<Net> {
    let mk = |name: &'static str, g: GenesisValues| {
        let byron = EraSpec { slot_len: g.byron_slot_length as u64, epoch_slots: g.byron_epoch_length as u64 / g.byron_slot_length as u64 };
        let shelley = EraSpec { slot_len: g.shelley_slot_length as u64, epoch_slots: g.shelley_epoch_length as u64 / g.shelley_slot_length as u64 };
        let (pb, ps) = protocol_epoch_slots(name);
        if byron.epoch_slots != pb || shelley.epoch_slots != ps || byron.slot_len != 20 || shelley.slot_len != 1 {
            mc_core::report::machinery_failure(&format!("{name}: genesis values imply {byron:?} / {shelley:?}, protocol constants say {pb} / {ps} slots per epoch"));
        }
        Net { name, boundary: g.shelley_known_slot, g, byron, shelley }
    };
    vec![
        mk("mainnet", GenesisValues::mainnet()),
        mk("testnet", GenesisValues::testnet()),
        mk("preview", GenesisValues::preview()),
        mk("preprod", GenesisValues::preprod()),
    ]
}

#[derive(Default, Clone)]
struct Found {
    /// fingerprint -> (minimal slot, count, description of the minimal one)
    v: BTreeMap<String, (u64, u64, String)>,
}

impl Found {
    fn add(&mut self, fp: &str, slot: u64, what: impl FnOnce() -> String) {
        match self.v.get_mut(fp) {
            Some(e) => {
                e.1 += 1;
                if slot < e.0 {
                    e.0 = slot;
                    e.2 = what();
                }
            }
            None => {
                self.v.insert(fp.to_string(), (slot, 1, what()));
            }
        }
    }
    fn merge(&mut self, o: Found) {
        for (k, (s, c, w)) in o.v {
            match self.v.get_mut(&k) {
                Some(e) => {
                    e.1 += c;
                    if s < e.0 {
                        e.0 = s;
                        e.2 = w;
                    }
                }
                None => {
                    self.v.insert(k, (s, c, w));
                }
            }
        }
    }
}

#[derive(Default, Clone)]
struct ChunkOut {
    found: Found,
    slots: u64,
    /// distinct (era, epoch) pairs seen in this chunk: min/max epoch per era
    epochs: Vec<(bool, u64)>,
}

/// The property, clause by clause, for one slot. Returns the epoch reported.
#[inline]
fn check_slot(net: &Net, s: u64, f: &mut Found) -> (bool, u64) {
    let g = &net.g;
    let shelley = s >= net.boundary;
    let era = if shelley { net.shelley } else { net.byron };
    let era_name = if shelley { "shelley" } else { "byron" };
    let (epoch, sub) = g.absolute_slot_to_relative(s);
    // clause 1: slot-in-epoch < epoch size in slots of that era
    let in_range = sub < era.epoch_slots;
    // clause 2: converting back yields the original slot
    let back = g.relative_slot_to_absolute(epoch, sub);
    if !in_range {
        f.add(&format!("slot-in-epoch-not-below-epoch-size:{era_name}"), s, || {
            format!(
                "{}: absolute_slot_to_relative({s}) = ({epoch}, {sub}) but a {era_name} epoch has {} slots; relative_slot_to_absolute({epoch}, {sub}) = {back}",
                net.name, era.epoch_slots
            )
        });
    } else if back != s {
        f.add(&format!("round-trip-differs:{era_name}"), s, || {
            format!("{}: absolute_slot_to_relative({s}) = ({epoch}, {sub}), relative_slot_to_absolute gives {back}", net.name)
        });
    }
    // clause 3: wall clock strictly increasing, by the slot length of the era of s
    let w0 = g.slot_to_wallclock(s);
    let w1 = g.slot_to_wallclock(s + 1);
    if w1 <= w0 || w1 - w0 != era.slot_len {
        let at_boundary = s + 1 == net.boundary;
        let fp = if at_boundary { format!("wallclock-step-across-era-boundary:{}", net.name) } else { format!("wallclock-step:{era_name}") };
        f.add(&fp, s, || {
            format!(
                "{}: slot_to_wallclock({s}) = {w0}, slot_to_wallclock({}) = {w1}: step {} instead of the {era_name} slot length {} s",
                net.name,
                s + 1,
                w1 as i128 - w0 as i128,
                era.slot_len
            )
        });
    }
    (shelley, epoch)
}

fn run_chunk(net: &Net, start: u64, end: u64) -> ChunkOut {
    let mut out = ChunkOut::default();
    let whole = catch(|| {
        let mut f = Found::default();
        let mut epochs: Vec<(bool, u64)> = vec![];
        for s in start..end {
            let e = check_slot(net, s, &mut f);
            if epochs.last() != Some(&e) {
                epochs.push(e);
            }
        }
        (f, epochs)
    });
    match whole {
        Ok((f, epochs)) => {
            out.found = f;
            out.epochs = epochs;
        }
        Err(_) => {
            // a panic somewhere in the chunk: redo slot by slot to attribute it
            for s in start..end {
                let mut f = Found::default();
                match catch(|| check_slot(net, s, &mut f)) {
                    Ok(e) => {
                        if out.epochs.last() != Some(&e) {
                            out.epochs.push(e);
                        }
                        out.found.merge(f);
                    }
                    Err(p) => out.found.add(&p.site(), s, || format!("{}: slot {s}: panicked: {} at {}", net.name, p.message, p.location)),
                }
            }
        }
    }
    out.slots = end - start;
    out
}

pub fn run(ctx: Ctx) -> ! {
    let nets = nets();
    let top: u64 = if ctx.thorough { 1 << 32 } else { 1 << 24 };
    let mut total_slots = 0u64;
    let mut found = Found::default();
    let mut distinct = 0u64;
    let mut ranges_json: Vec<Value> = vec![];
    let mut samples: Vec<Value> = vec![];
    for net in &nets {
        // contiguous ranges: [0, top), windows around the boundary, window ending at 2^40
        let mut ranges: Vec<(u64, u64)> = vec![(0, top)];
        let b = net.boundary;
        let lo = b.saturating_sub(CHUNK);
        ranges.push((lo, b + CHUNK));
        // the first Byron epoch boundary and the first Shelley epoch boundary
        ranges.push((net.byron.epoch_slots.saturating_sub(CHUNK / 2), net.byron.epoch_slots + CHUNK / 2));
        ranges.push((b + net.shelley.epoch_slots - CHUNK / 2, b + net.shelley.epoch_slots + CHUNK / 2));
        ranges.push(((1u64 << 40) - CHUNK, 1u64 << 40));
        // drop parts already covered by [0, top)
        let ranges: Vec<(u64, u64)> = ranges.into_iter().enumerate().filter_map(|(i, (a, e))| if i == 0 { Some((a, e)) } else if e <= top { None } else { Some((a.max(top), e)) }).collect();
        let mut chunks: Vec<(u64, u64)> = vec![];
        for (a, e) in &ranges {
            let mut s = *a;
            while s < *e {
                let n = (s + CHUNK).min(*e);
                chunks.push((s, n));
                s = n;
            }
        }
        let outs: Vec<ChunkOut> = chunks.par_iter().map(|(a, e)| run_chunk(net, *a, *e)).collect();
        let mut epochs: std::collections::BTreeSet<(bool, u64)> = Default::default();
        let mut byron_slots = 0u64;
        for (o, (a, e)) in outs.into_iter().zip(chunks.iter()) {
            total_slots += o.slots;
            found.merge(o.found);
            epochs.extend(o.epochs);
            byron_slots += e.min(&b).saturating_sub(*a.min(&b));
        }
        distinct += epochs.len() as u64;
        if byron_slots == 0 && b > 0 {
            mc_core::report::machinery_failure(&format!("{}: no Byron slot visited", net.name));
        }
        ranges_json.push(json!({"network": net.name, "ranges": ranges.iter().map(|(a, e)| format!("[{a}, {e})")).collect::<Vec<_>>(), "era_boundary_slot": b, "byron_slots_visited": byron_slots, "distinct_era_epoch_pairs": epochs.len(),
            "byron": {"slot_length_s": net.byron.slot_len, "epoch_slots": net.byron.epoch_slots}, "shelley": {"slot_length_s": net.shelley.slot_len, "epoch_slots": net.shelley.epoch_slots}}));
        for s in [0u64, net.byron.epoch_slots, b] {
            if samples.len() < 8 {
                let (e, r) = net.g.absolute_slot_to_relative(s);
                samples.push(json!({"network": net.name, "slot": s, "epoch": e, "slot_in_epoch": r, "wallclock": net.g.slot_to_wallclock(s)}));
            }
        }
    }
    // deterministic reporting: one violation per fingerprint with its minimal slot
    for (fp, (slot, count, what)) in found.v.iter() {
        ctx.violation(fp.clone(), format!("{what} [minimal failing slot of {count} in the explored ranges]"), json!({"slot": slot, "failing_slots": count, "what": what}));
    }
    if distinct < 8 {
        mc_core::report::machinery_failure("fewer than 8 distinct (network, era, epoch) outcomes");
    }
    let cov = cov! {
        "evaluations" => total_slots,
        "distinct_nontrivial" => distinct,
        "rule" => "evaluation = one (network, absolute slot) on which all clauses were evaluated with the real GenesisValues methods (slot-in-epoch < epoch size of the era of the slot; relative_slot_to_absolute(absolute_slot_to_relative(s)) == s; slot_to_wallclock(s+1) - slot_to_wallclock(s) == slot length of the era of s); non-trivial = distinct (network, era, epoch) results reached",
        "samples" => samples,
        "ranges" => ranges_json,
        "exhaustive" => true,
    };
    ctx.finish(
        Level::Exploration,
        cov,
        &[
            "era of a slot: Byron iff slot < shelley_known_slot of the network's GenesisValues",
            "epoch size in slots = epoch length / slot length of the era (genesis values give both in seconds); cross-checked against the protocol constants 21600 / 432000 (4320 / 86400 on preview)",
            "every slot of the stated ranges is evaluated; slots in [2^24 or 2^32, 2^40) outside the windows are not",
        ],
    )
}
