mod c30;
mod c31;
mod c32;
mod c44;
mod corpus;
mod obs;
mod rewrite;

fn main() {
    let ctx = mc_core::Ctx::from_args();
    match ctx.prop.as_str() {
        "C30" => c30::run(ctx),
        "C31" => c31::run(ctx),
        "C32" => c32::run(ctx),
        "C44" => c44::run(ctx),
        p => mc_core::report::machinery_failure(&format!("mc-traverse does not serve {p}")),
    }
}
