//! C30 — block traversal exposes each transaction with its own parts.
//! GRID: every real block (test_data + immutable-DB chunks) and, for one block
//! per era with >= 3 transactions, every invalid-transaction list (every
//! subset of indices, plus out-of-range and duplicate entries) crossed with
//! every subset of the auxiliary-data map keys (plus an out-of-range key),
//! rewritten on the refcbor AST. Reference view: refcbor spans + own blake2b.

use crate::corpus::{self, Artefact, RefBlock};
use crate::obs;
use mc_core::refcbor::{self, Kind, Node};
use mc_core::{catch, cov, json, Ctx, Level, Value};
use pallas_traverse::MultiEraBlock;
use rayon::prelude::*;
use std::collections::{BTreeMap, BTreeSet};

pub struct Problem {
    pub fp: String,
    pub what: String,
}

#[derive(Default)]
pub struct BlockOutcome {
    pub problems: Vec<Problem>,
    /// pallas returned Err for the block.
    pub rejected: Option<String>,
    pub txs_checked: usize,
    pub invalid_seen: usize,
    pub aux_seen: usize,
}

/// Labels of the metadata carried by an auxiliary-data item (reference).
fn ref_meta_labels(aux: &[u8]) -> Option<Vec<u64>> {
    let n = refcbor::parse_one(aux).ok()?;
    let labels = |m: &Node| -> Option<Vec<u64>> { m.as_map()?.iter().map(|(k, _)| k.as_u64()).collect() };
    match &n.kind {
        Kind::Map(_, _) => labels(&n),
        Kind::Array(a, _) => labels(a.first()?),
        Kind::Tag(259, _, inner) => match inner.map_get(0) {
            Some(m) => labels(m),
            None => Some(vec![]),
        },
        _ => None,
    }
}

/// Decode with the real pallas-traverse and compare with the reference view.
pub fn compare_block(bytes: &[u8], rb: &RefBlock) -> BlockOutcome {
    let mut out = BlockOutcome::default();
    let era_ref = corpus::era_name(rb.era_tag);
    let r = catch(|| {
        let block = match MultiEraBlock::decode(bytes) {
            Ok(b) => b,
            Err(e) => return Err(format!("{e}").chars().take(200).collect::<String>()),
        };
        let mut problems = vec![];
        let mut p = |fp: &str, what: String| problems.push(Problem { fp: fp.to_string(), what });
        let era_obs = obs::era_str(block.era());
        if era_obs != era_ref {
            p("era:differs-from-wrapper", format!("wrapper tag {} ({era_ref}) but era() = {era_obs}", rb.era_tag));
        }
        if block.tx_count() != rb.txs.len() {
            p("tx_count:differs-from-bodies", format!("tx_count() = {} but the block has {} bodies", block.tx_count(), rb.txs.len()));
        }
        let txs = block.txs();
        if txs.len() != rb.txs.len() {
            p("txs:length-differs-from-bodies", format!("txs() yields {} transactions but the block has {} bodies", txs.len(), rb.txs.len()));
        }
        let mut inv = 0;
        let mut auxn = 0;
        for (i, (tx, rt)) in txs.iter().zip(rb.txs.iter()).enumerate() {
            let parts = obs::tx_parts(tx);
            if tx.hash().as_ref() != rt.id {
                p("tx:hash-not-of-ith-body", format!("tx {i}: hash {} but blake2b-256(body {i}) = {}", tx.hash(), hex::encode(rt.id)));
            }
            if parts.body != rt.body {
                p("tx:body-not-ith", format!("tx {i}: body bytes differ from body {i}"));
            }
            if parts.witness != rt.witness {
                p("tx:witness-not-ith", format!("tx {i}: witness-set bytes differ from witness set {i}"));
            }
            if parts.aux != rt.aux {
                p(
                    "tx:aux-not-keyed-by-index",
                    format!(
                        "tx {i}: auxiliary data {} but the aux map {} (keys {:?})",
                        if parts.aux.is_some() { "present" } else { "absent" },
                        if rt.aux.is_some() { "has an entry keyed by the index (different bytes or missing)" } else { "has no entry for it" },
                        rb.aux_keys
                    ),
                );
            }
            let labels: BTreeSet<u64> = tx.metadata().collect::<Vec<_>>().into_iter().map(|(l, _)| l).collect();
            let ref_labels: Option<BTreeSet<u64>> = match &rt.aux {
                None => Some(BTreeSet::new()),
                Some(a) => ref_meta_labels(a).map(|v| v.into_iter().collect()),
            };
            if let Some(rl) = ref_labels {
                if rl != labels {
                    p("tx:metadata-not-of-own-aux", format!("tx {i}: metadata() labels {labels:?}, aux entry keyed {i} has {rl:?}"));
                }
            }
            if tx.is_valid() != rt.valid {
                p(
                    "tx:is_valid-differs-from-invalid-list",
                    format!("tx {i}: is_valid() = {} but invalid list is {:?}", tx.is_valid(), rb.invalid),
                );
            }
            if !rt.valid {
                inv += 1;
            }
            if rt.aux.is_some() {
                auxn += 1;
            }
        }
        Ok((problems, txs.len(), inv, auxn))
    });
    match r {
        Err(pn) => out.problems.push(Problem { fp: pn.site(), what: format!("panicked: {} at {}", pn.message, pn.location) }),
        Ok(Err(e)) => out.rejected = Some(e),
        Ok(Ok((pr, n, inv, auxn))) => {
            out.problems = pr;
            out.txs_checked = n;
            out.invalid_seen = inv;
            out.aux_seen = auxn;
        }
    }
    out
}

/// Rewrites of a Shelley+ block on the AST.
pub struct BlockAst {
    pub root: Node,
}

impl BlockAst {
    pub fn parse(bytes: &[u8]) -> Option<BlockAst> {
        let mut root = refcbor::parse_one(bytes).ok()?;
        // Bytes inside nodes are owned, so spans are not needed for writing.
        root.walk_mut(&mut |n| {
            n.start = 0;
            n.end = 0;
        });
        Some(BlockAst { root })
    }
    pub fn block_items(&mut self) -> &mut Vec<Node> {
        self.root.as_array_mut().unwrap()[1].as_array_mut().unwrap()
    }
    pub fn set_invalid(&mut self, list: &[u64]) {
        let items = self.block_items();
        let node = Node::array(list.iter().map(|i| Node::uint(*i)).collect());
        if items.len() > 4 {
            items[4] = node;
        } else {
            items.push(node);
        }
        self.fix_head();
    }
    fn fix_head(&mut self) {
        let blk = &mut self.root.as_array_mut().unwrap()[1];
        if let Kind::Array(v, Some(w)) = &mut blk.kind {
            *w = refcbor::min_width(v.len() as u64);
        }
    }
    pub fn aux_entries(&mut self) -> Vec<(Node, Node)> {
        self.block_items()[3].as_map().unwrap().clone()
    }
    pub fn set_aux(&mut self, entries: Vec<(Node, Node)>) {
        let items = self.block_items();
        let indef = matches!(items[3].kind, Kind::Map(_, None));
        items[3] = if indef { Node::map_indef(entries) } else { Node::map(entries) };
    }
    pub fn to_vec(&self) -> Vec<u8> {
        self.root.to_vec()
    }
}

fn fix_width(n: &mut Node) {
    match &mut n.kind {
        Kind::Array(v, Some(w)) => *w = refcbor::min_width(v.len() as u64),
        Kind::Map(v, Some(w)) => *w = refcbor::min_width(v.len() as u64),
        _ => {}
    }
}

fn strip_spans(mut n: Node) -> Node {
    n.walk_mut(&mut |x| {
        x.start = 0;
        x.end = 0;
    });
    n
}

/// Base block for the generated variants of one era: a real block with
/// 3..=max_n transactions (for Conway, where the corpus has none, a real
/// Conway block extended by the real Conway transactions of the `.tx` files); if it carries fewer than two auxiliary-data entries, real aux items
/// of other blocks are inserted (distinct bytes per key) so that the aux map
/// is sparse: >= 2 keys, >= 1 transaction without.
fn prepare_base(tag: u64, real: &[(&Artefact, &RefBlock)], max_n: usize) -> (u64, String, Vec<u8>) {
    let mut best: Option<(&Artefact, &RefBlock)> = None;
    let score = |b: &RefBlock| {
        let k = b.aux_keys.len();
        ((k >= 2 && k < b.txs.len()) as usize, b.txs.len(), k.min(4))
    };
    for (a, rb) in real.iter() {
        if rb.era_tag != tag || rb.txs.len() < 3 || rb.txs.len() > max_n {
            continue;
        }
        if best.map(|(_, cur)| score(cur) < score(rb)).unwrap_or(true) {
            best = Some((a, rb));
        }
    }
    let (mut name, mut ast) = match best {
        Some((a, _)) => (a.name.clone(), BlockAst::parse(&a.bytes).unwrap()),
        None => {
            // extend the largest real block of the era with real transactions of the era
            let Some((a, _)) = real.iter().filter(|(_, rb)| rb.era_tag == tag).max_by_key(|(a, rb)| (rb.txs.len(), std::cmp::Reverse(a.name.clone()))) else {
                mc_core::report::machinery_failure(&format!("no block at all for era tag {tag}"));
            };
            let prefix = corpus::era_name(tag).to_lowercase();
            let mut ast = BlockAst::parse(&a.bytes).unwrap();
            let mut used = vec![];
            for t in corpus::tx_files() {
                if !t.name.starts_with(&prefix) {
                    continue;
                }
                let Ok(root) = refcbor::parse_one(&t.bytes) else { continue };
                let Some(parts) = root.as_array() else { continue };
                if parts.len() != 4 {
                    continue;
                }
                let items = ast.block_items();
                let idx = items[1].as_array().unwrap().len() as u64;
                items[1].as_array_mut().unwrap().push(strip_spans(parts[0].clone()));
                items[2].as_array_mut().unwrap().push(strip_spans(parts[1].clone()));
                if !parts[3].is_null() {
                    items[3].as_map_mut().unwrap().push((Node::uint(idx), strip_spans(parts[3].clone())));
                }
                for k in 1..=3 {
                    fix_width(&mut items[k]);
                }
                used.push(t.name.clone());
                if idx + 1 >= (if max_n > 6 { 8 } else { 5 }) {
                    break;
                }
            }
            (format!("{}+{}", a.name, used.join("+")), ast)
        }
    };
    // sparse aux map
    let n = ast.block_items()[1].as_array().unwrap().len() as u64;
    let mut entries = ast.aux_entries();
    if entries.len() < 2 {
        let mut pool: Vec<Vec<u8>> = vec![];
        for (a, rb) in real.iter() {
            for t in rb.txs.iter() {
                if let Some(x) = &t.aux {
                    if x.len() < 400 && !pool.contains(x) && !entries.iter().any(|(_, v)| &v.to_vec() == x) {
                        pool.push(x.clone());
                    }
                }
            }
            let _ = a;
            if pool.len() >= 2 {
                break;
            }
        }
        for idx in [0, n - 1] {
            if entries.len() >= 2 || entries.iter().any(|(k, _)| k.as_u64() == Some(idx)) {
                continue;
            }
            let Some(x) = pool.pop() else { break };
            entries.push((Node::uint(idx), strip_spans(refcbor::parse_one(&x).unwrap())));
            name.push_str(&format!("+aux@{idx}"));
        }
        entries.sort_by_key(|(k, _)| k.as_u64());
        ast.set_aux(entries);
    }
    (tag, name, ast.to_vec())
}

pub fn load_real() -> Vec<(Artefact, Result<RefBlock, String>)> {
    let mut all = corpus::block_files();
    all.extend(corpus::chunk_blocks());
    all.into_par_iter()
        .map(|a| {
            let r = corpus::ref_block(&a.bytes);
            (a, r)
        })
        .collect()
}

pub fn run(ctx: Ctx) -> ! {
    let real = load_real();
    let mut evals = 0u64;
    let mut nontrivial: BTreeSet<String> = BTreeSet::new();
    let mut samples: Vec<Value> = vec![];
    let mut per_era: BTreeMap<&'static str, (u64, u64)> = BTreeMap::new(); // blocks, txs
    let mut unreadable = vec![];
    let mut real_rejected: Vec<String> = vec![];
    let mut accepted_names: BTreeSet<String> = BTreeSet::new();

    // ---- real blocks
    let outcomes: Vec<_> = real
        .par_iter()
        .map(|(a, r)| match r {
            Ok(rb) => Some(compare_block(&a.bytes, rb)),
            Err(_) => None,
        })
        .collect();
    let (mut real_invalid, mut real_aux) = (0usize, 0usize);
    for ((a, r), o) in real.iter().zip(outcomes.iter()) {
        evals += 1;
        let rb = match r {
            Ok(rb) => rb,
            Err(e) => {
                unreadable.push(format!("{}: {e}", a.name));
                continue;
            }
        };
        let o = o.as_ref().unwrap();
        let era = corpus::era_name(rb.era_tag);
        if let Some(e) = &o.rejected {
            // The property speaks about what traversal exposes for a block, not
            // about which blocks the decoder accepts: recorded, not a violation.
            real_rejected.push(format!("{}: {e}", a.name));
            ctx.note(format!("real block {} ({era}) is rejected by MultiEraBlock::decode in the default feature set: {e}", a.name));
            continue;
        }
        accepted_names.insert(a.name.clone());
        for p in &o.problems {
            ctx.violation(p.fp.clone(), format!("{} [{}]", p.what, a.name), json!({"block": a.name, "era_tag": rb.era_tag}));
        }
        let e = per_era.entry(era).or_default();
        e.0 += 1;
        e.1 += o.txs_checked as u64;
        real_invalid += o.invalid_seen;
        real_aux += o.aux_seen;
        nontrivial.insert(format!("real:{}", a.name));
        if samples.len() < 3 && o.txs_checked >= 3 {
            samples.push(json!({"block": a.name, "era_tag": rb.era_tag, "txs": o.txs_checked, "invalid": rb.invalid, "aux_keys": rb.aux_keys}));
        }
    }
    if !unreadable.is_empty() {
        mc_core::report::machinery_failure(&format!("reference reader cannot view {} real blocks, e.g. {}", unreadable.len(), unreadable[0]));
    }

    // ---- the same blocks with their wrapper spelled differently (valid, not minimal CBOR): a
    // two-byte array head (98 02), a two-byte era tag (18 NN), both. The wrapper still declares
    // the same era; a block that is accepted in the usual spelling has to be reported likewise.
    let mut respelled = 0usize;
    let respell_jobs: Vec<(String, Vec<u8>, &'static str)> = real
        .iter()
        .filter(|(a, r)| r.is_ok() && accepted_names.contains(&a.name) && !a.name.contains('#'))
        .flat_map(|(a, _)| {
            let b = &a.bytes;
            let mut out = vec![];
            if b.len() > 2 && b[0] == 0x82 && b[1] < 0x18 {
                out.push((a.name.clone(), [&[0x98, 0x02][..], &b[1..]].concat(), "array head 98 02"));
                out.push((a.name.clone(), [&[0x82, 0x18, b[1]][..], &b[2..]].concat(), "era tag 18 NN"));
                out.push((a.name.clone(), [&[0x98, 0x02, 0x18, b[1]][..], &b[2..]].concat(), "array head 98 02 + era tag 18 NN"));
            }
            out
        })
        .collect();
    let respell_out: Vec<_> = respell_jobs
        .par_iter()
        .map(|(name, bytes, how)| {
            let rb = corpus::ref_block(bytes);
            (name, bytes, how, rb.as_ref().ok().map(|rb| compare_block(bytes, rb)), rb.is_ok())
        })
        .collect();
    for (name, bytes, how, o, ok) in respell_out {
        evals += 1;
        if !ok {
            mc_core::report::machinery_failure(&format!("reference reader cannot view {name} with its wrapper respelled ({how})"));
        }
        let o = o.unwrap();
        respelled += 1;
        if let Some(e) = &o.rejected {
            ctx.violation(
                "era:not-reported-for-respelled-wrapper".to_string(),
                format!("{name} is traversed in its usual spelling, but with the wrapper written as {how} (same era tag, valid CBOR) MultiEraBlock::decode fails: {e}"),
                json!({"block": name, "wrapper": how, "head_hex": hex::encode(&bytes[..bytes.len().min(8)])}),
            );
            continue;
        }
        for p in &o.problems {
            ctx.violation(p.fp.clone(), format!("{} [{} with wrapper {how}]", p.what, name), json!({"block": name, "wrapper": how}));
        }
        nontrivial.insert(format!("respelled:{name}:{how}"));
    }

    // ---- generated variants: one block per era tag 2..7 with >= 3 txs
    let max_n = if ctx.thorough { 11 } else { 6 };
    if real_rejected.len() > 3 {
        mc_core::report::machinery_failure(&format!("{} real blocks rejected by MultiEraBlock::decode, e.g. {}", real_rejected.len(), real_rejected[0]));
    }
    let readable: Vec<(&Artefact, &RefBlock)> = real.iter().filter(|(a, _)| accepted_names.contains(&a.name)).map(|(a, r)| (a, r.as_ref().unwrap())).collect();
    let bases: Vec<(u64, String, Vec<u8>)> = (2..=7u64).map(|tag| prepare_base(tag, &readable, max_n)).collect();
    let mut gen_summary = vec![];
    let mut gen_rejected = 0u64;
    let mut gen_accepted = 0u64;
    let mut gen_invalid_flags = 0u64;
    let mut gen_aux_present = 0u64;
    for (tag, base_name, base_bytes) in bases.iter() {
        let tag = *tag;
        let rb = match corpus::ref_block(base_bytes) {
            Ok(r) => r,
            Err(e) => mc_core::report::machinery_failure(&format!("base block {base_name} unreadable: {e}")),
        };
        struct A<'a> {
            name: &'a String,
            bytes: &'a Vec<u8>,
        }
        let a = A { name: base_name, bytes: base_bytes };
        let n = rb.txs.len() as u64;
        let mut base = BlockAst::parse(&a.bytes).unwrap();
        let aux_all = base.aux_entries();
        // aux variants: every subset of the entries, each also with an extra
        // out-of-range key carrying a copy of the first entry's value
        let mut aux_variants: Vec<Vec<(Node, Node)>> = vec![];
        for mask in 0u32..(1 << aux_all.len()) {
            let sub: Vec<(Node, Node)> = aux_all.iter().enumerate().filter(|(j, _)| mask >> j & 1 == 1).map(|(_, e)| e.clone()).collect();
            aux_variants.push(sub.clone());
            if let Some(first) = aux_all.first() {
                let mut ext = sub;
                ext.push((Node::uint(n), first.1.clone()));
                aux_variants.push(ext);
            }
        }
        // invalid-list variants (Alonzo onward only: earlier eras have no such list)
        let mut inv_variants: Vec<Option<Vec<u64>>> = vec![];
        if tag >= 5 {
            for mask in 0u32..(1 << n) {
                let sub: Vec<u64> = (0..n).filter(|j| mask >> j & 1 == 1).collect();
                inv_variants.push(Some(sub.clone()));
                // descending order
                if sub.len() >= 2 {
                    inv_variants.push(Some(sub.iter().rev().cloned().collect()));
                }
                // out-of-range entries and a duplicate
                let mut oor = sub.clone();
                oor.push(n);
                oor.push(65535);
                inv_variants.push(Some(oor));
                if let Some(f) = sub.first() {
                    let mut dup = sub.clone();
                    dup.push(*f);
                    inv_variants.push(Some(dup));
                }
            }
        } else {
            inv_variants.push(None);
        }
        let cases: Vec<(usize, usize)> = (0..inv_variants.len()).flat_map(|i| (0..aux_variants.len()).map(move |j| (i, j))).collect();
        let base_bytes = a.bytes.clone();
        let results: Vec<_> = cases
            .par_iter()
            .map(|(i, j)| {
                let mut ast = BlockAst::parse(&base_bytes).unwrap();
                if let Some(l) = &inv_variants[*i] {
                    ast.set_invalid(l);
                }
                ast.set_aux(aux_variants[*j].clone());
                let bytes = ast.to_vec();
                let rb = corpus::ref_block(&bytes);
                let o = rb.as_ref().ok().map(|rb| compare_block(&bytes, rb));
                (bytes, rb, o)
            })
            .collect();
        let mut era_cases = 0u64;
        for ((i, j), (bytes, rb2, o)) in cases.iter().zip(results.into_iter()) {
            evals += 1;
            era_cases += 1;
            let rb2 = match rb2 {
                Ok(r) => r,
                Err(e) => mc_core::report::machinery_failure(&format!("generated variant of {} unreadable by the reference: {e}", a.name)),
            };
            let o = o.unwrap();
            let case = json!({"base": a.name, "era_tag": tag, "invalid_list": inv_variants[*i], "aux_keys": rb2.aux_keys, "block_hex": hex::encode(&bytes)});
            if o.rejected.is_some() {
                gen_rejected += 1;
                continue;
            }
            gen_accepted += 1;
            gen_invalid_flags += o.invalid_seen as u64;
            gen_aux_present += o.aux_seen as u64;
            for p in &o.problems {
                ctx.violation(p.fp.clone(), format!("{} [variant of {}: invalid list {:?}, aux keys {:?}]", p.what, a.name, rb2.invalid, rb2.aux_keys), case.clone());
            }
            nontrivial.insert(format!("gen:{tag}:{:?}:{:?}", rb2.invalid, rb2.aux_keys));
            if samples.len() < 8 && (*i * 7 + *j) % 97 == 5 {
                samples.push(json!({"base": a.name, "era_tag": tag, "invalid_list": rb2.invalid, "aux_keys": rb2.aux_keys}));
            }
        }
        gen_summary.push(json!({"era_tag": tag, "base": a.name, "txs": n, "aux_entries": aux_all.len(), "invalid_list_variants": inv_variants.len(), "aux_map_variants": aux_variants.len(), "cases": era_cases}));
    }
    if gen_accepted == 0 || gen_invalid_flags == 0 || gen_aux_present == 0 {
        mc_core::report::machinery_failure(&format!(
            "vacuous generation: accepted {gen_accepted}, invalid flags seen {gen_invalid_flags}, aux present {gen_aux_present}"
        ));
    }
    if gen_rejected * 2 > gen_accepted {
        mc_core::report::machinery_failure(&format!("most generated variants were rejected by MultiEraBlock::decode ({gen_rejected} of {})", gen_rejected + gen_accepted));
    }
    let per_era_json: Vec<Value> = per_era.iter().map(|(k, v)| json!({"era": k, "blocks": v.0, "txs": v.1})).collect();
    let cov = cov! {
        "evaluations" => evals,
        "distinct_nontrivial" => nontrivial.len(),
        "blocks_with_respelled_wrapper" => respelled,
        "rule" => "evaluation = one block decoded by MultiEraBlock::decode and compared, transaction by transaction, with the refcbor view (era tag, count, blake2b of body i, witness-set bytes, aux bytes keyed i, metadata labels, is_valid vs invalid list); non-trivial = distinct real block, or distinct (era, invalid list, aux key set) variant, that pallas accepted and that was fully compared",
        "samples" => samples,
        "real_blocks_by_era" => per_era_json,
        "real_invalid_txs" => real_invalid,
        "real_blocks_rejected_by_decode" => real_rejected,
        "real_txs_with_aux" => real_aux,
        "generated" => gen_summary,
        "generated_accepted" => gen_accepted,
        "generated_rejected_by_decode" => gen_rejected,
        "exhaustive" => true,
    };
    ctx.finish(
        Level::Exploration,
        cov,
        &[
            "reference view = mc_core::refcbor spans + own blake2b; era names follow the hard-fork-combinator wrapper index (0/1 Byron, 2 Shelley .. 7 Conway)",
            "invalid-list variants only for era tags >= 5 (earlier eras have no such field); entries stay within the CDDL range uint .size 2",
            "one base block per era; subset enumeration is complete for that block's indices and aux keys",
        ],
    )
}
