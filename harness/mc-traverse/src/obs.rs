//! What the real pallas-traverse objects expose, extracted into plain data so
//! that it can be compared with the reference view.

use pallas_codec::utils::Nullable;
use pallas_primitives::{babbage, conway};
use pallas_traverse::{Era, MultiEraInput, MultiEraOutput, MultiEraTx};
use std::ops::Deref;

pub fn era_str(e: Era) -> &'static str {
    match e {
        Era::Byron => "Byron",
        Era::Shelley => "Shelley",
        Era::Allegra => "Allegra",
        Era::Mary => "Mary",
        Era::Alonzo => "Alonzo",
        Era::Babbage => "Babbage",
        Era::Conway => "Conway",
        _ => "?",
    }
}

pub struct TxParts {
    pub body: Vec<u8>,
    pub witness: Vec<u8>,
    pub aux: Option<Vec<u8>>,
}

fn aux_of<T: Clone>(n: &Nullable<T>, f: impl Fn(&T) -> Vec<u8>) -> Option<Vec<u8>> {
    match n {
        Nullable::Some(x) => Some(f(x)),
        _ => None,
    }
}

/// Raw bytes of the parts a traversed transaction was assembled from.
pub fn tx_parts(tx: &MultiEraTx) -> TxParts {
    match tx {
        MultiEraTx::AlonzoCompatible(x, _) => TxParts {
            body: x.transaction_body.raw_cbor().to_vec(),
            witness: x.transaction_witness_set.raw_cbor().to_vec(),
            aux: aux_of(&x.auxiliary_data, |a| a.raw_cbor().to_vec()),
        },
        MultiEraTx::Babbage(x) => TxParts {
            body: x.transaction_body.raw_cbor().to_vec(),
            witness: x.transaction_witness_set.raw_cbor().to_vec(),
            aux: aux_of(&x.auxiliary_data, |a| a.raw_cbor().to_vec()),
        },
        MultiEraTx::Conway(x) => TxParts {
            body: x.transaction_body.raw_cbor().to_vec(),
            witness: x.transaction_witness_set.raw_cbor().to_vec(),
            aux: aux_of(&x.auxiliary_data, |a| a.raw_cbor().to_vec()),
        },
        MultiEraTx::Byron(x) => TxParts {
            body: x.transaction.raw_cbor().to_vec(),
            witness: x.witness.raw_cbor().to_vec(),
            aux: None,
        },
        _ => TxParts { body: vec![], witness: vec![], aux: None },
    }
}

pub type InKey = (Vec<u8>, u64);

pub fn in_key(i: &MultiEraInput) -> InKey {
    (i.hash().to_vec(), i.index())
}

/// (address bytes or Byron address payload, Byron crc, coin) read from the
/// typed fields (no address parsing involved).
pub type OutSig = (Vec<u8>, Option<u64>, u64);

pub fn out_sig(o: &MultiEraOutput) -> OutSig {
    let coin = o.value().coin();
    match o {
        MultiEraOutput::Byron(x) => (x.address.payload.0.to_vec(), Some(x.address.crc as u64), coin),
        MultiEraOutput::AlonzoCompatible(x, _) => (x.address.to_vec(), None, coin),
        MultiEraOutput::Babbage(x) => match x.deref().deref() {
            babbage::TransactionOutput::Legacy(x) => (x.address.to_vec(), None, coin),
            babbage::TransactionOutput::PostAlonzo(x) => (x.address.to_vec(), None, coin),
        },
        MultiEraOutput::Conway(x) => match x.deref().deref() {
            conway::TransactionOutput::Legacy(x) => (x.address.to_vec(), None, coin),
            conway::TransactionOutput::PostAlonzo(x) => (x.address.to_vec(), None, coin),
        },
        _ => (vec![], None, coin),
    }
}

pub fn ref_sig(o: &crate::corpus::RefOutput) -> OutSig {
    (o.address.clone(), o.byron_crc, o.coin)
}
