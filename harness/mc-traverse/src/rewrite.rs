//! Rewrites of transaction bodies / outputs on the refcbor AST (generated
//! variants for C31 and C44).

use mc_core::refcbor::{self, Kind, Node};

pub fn strip_spans(mut n: Node) -> Node {
    n.walk_mut(&mut |x| {
        x.start = 0;
        x.end = 0;
    });
    n
}

pub fn fix_width(n: &mut Node) {
    match &mut n.kind {
        Kind::Array(v, Some(w)) => *w = refcbor::min_width(v.len() as u64),
        Kind::Map(v, Some(w)) => *w = refcbor::min_width(v.len() as u64),
        _ => {}
    }
}

/// The array behind an optional tag (e.g. tag 258 sets).
pub fn inner_array_mut(n: &mut Node) -> Option<&mut Node> {
    if matches!(n.kind, Kind::Array(_, _)) {
        return Some(n);
    }
    match &mut n.kind {
        Kind::Tag(_, _, inner) => inner_array_mut(inner),
        _ => None,
    }
}

pub fn map_get_mut(m: &mut Node, key: u64) -> Option<&mut Node> {
    m.as_map_mut()?.iter_mut().find(|(k, _)| k.as_u64() == Some(key)).map(|(_, v)| v)
}

/// Insert or replace an unsigned-integer key, keeping keys in ascending order.
pub fn map_set(m: &mut Node, key: u64, val: Node) {
    let entries = m.as_map_mut().expect("map");
    if let Some(e) = entries.iter_mut().find(|(k, _)| k.as_u64() == Some(key)) {
        e.1 = val;
    } else {
        let pos = entries.iter().position(|(k, _)| k.as_u64().map(|x| x > key).unwrap_or(false)).unwrap_or(entries.len());
        entries.insert(pos, (Node::uint(key), val));
    }
    fix_width(m);
}

pub fn map_remove(m: &mut Node, key: u64) {
    let entries = m.as_map_mut().expect("map");
    entries.retain(|(k, _)| k.as_u64() != Some(key));
    fix_width(m);
}

/// inputs := [last, ...reversed inputs..., first]: unsorted, with duplicates.
pub fn dup_inputs(body: &mut Node, key: u64) -> bool {
    let Some(v) = map_get_mut(body, key) else { return false };
    let Some(arr) = inner_array_mut(v) else { return false };
    {
        let items = arr.as_array_mut().unwrap();
        if items.is_empty() {
            return false;
        }
        let first = items[0].clone();
        let last = items[items.len() - 1].clone();
        items.reverse();
        items.insert(0, first);
        items.push(last);
    }
    fix_width(arr);
    true
}

/// A Shelley-style input `[hash, index]`.
pub fn input(hash_byte: u8, index: u64) -> Node {
    Node::array(vec![Node::bytes(&[hash_byte; 32]), Node::uint(index)])
}

/// collateral := [synthetic A, first real input, synthetic A, synthetic B]
/// (contains a duplicate; differs from the input set).
pub fn synthetic_collateral(body: &mut Node) -> bool {
    let first = match body.map_get(0).and_then(|v| v.untagged().as_array()).and_then(|a| a.first()) {
        Some(f) => strip_spans(f.clone()),
        None => return false,
    };
    let list = vec![input(0xC0, 7), first, input(0xC0, 7), input(0xC1, 0)];
    map_set(body, 13, Node::array(list));
    true
}

/// Set the coin of an output (array or map form; plain or multi-asset value).
pub fn set_output_coin(out: &mut Node, coin: u64) -> bool {
    let value: Option<&mut Node> = match &mut out.kind {
        Kind::Array(a, _) => a.get_mut(1),
        Kind::Map(_, _) => map_get_mut(out, 1),
        _ => None,
    };
    let Some(value) = value else { return false };
    match &mut value.kind {
        Kind::UInt(_, _) => {
            *value = Node::uint(coin);
            true
        }
        Kind::Array(a, _) if !a.is_empty() => {
            a[0] = Node::uint(coin);
            true
        }
        _ => false,
    }
}

/// collateral return := copy of output 0 with a recognisable coin.
pub fn add_collateral_return(body: &mut Node, coin: u64) -> bool {
    let mut out = match body.map_get(1).and_then(|v| v.untagged().as_array()).and_then(|a| a.first()) {
        Some(o) => strip_spans(o.clone()),
        None => return false,
    };
    if !set_output_coin(&mut out, coin) {
        return false;
    }
    map_set(body, 16, out);
    true
}
