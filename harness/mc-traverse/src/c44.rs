//! C44 — UTxO RPC mapping preserves ledger content (v1alpha and v1beta).
//! GRID: every block of test_data and of the immutable-DB chunks, every
//! stand-alone `.tx`, mapped by both mappers with a no-op LedgerContext and
//! compared with the refcbor view; plus generated Plutus data (integer
//! alphabet over the full CBOR range in every head width, bignums, in every
//! container position to depth 2) mapped directly and as the inline datum of
//! an output of a Babbage and of a Conway block.

use crate::c30::BlockAst;
use crate::corpus::{self, RefOutput, RefTx};
use crate::rewrite;
use mc_core::blake2b::blake2b_256;
use mc_core::refcbor::{self, Kind, Node};
use mc_core::{catch, cov, json, Ctx, Level, Value};
use pallas_codec::minicbor;
use pallas_primitives::alonzo::PlutusData;
use pallas_traverse::{MultiEraBlock, MultiEraTx};
use pallas_utxorpc::{LedgerContext, TxoRef, UtxoMap};
use rayon::prelude::*;
use std::collections::{BTreeMap, BTreeSet};

#[derive(Clone)]
struct NoLedger;

impl LedgerContext for NoLedger {
    fn get_utxos(&self, _refs: &[TxoRef]) -> Option<UtxoMap> {
        None
    }
    fn get_slot_timestamp(&self, _slot: u64) -> Option<u64> {
        None
    }
}

// ---------------------------------------------------------------------------
// Version-neutral form of what the mappers return
// ---------------------------------------------------------------------------

#[derive(Clone, Debug, PartialEq)]
enum NBig {
    Absent,
    Int(i64),
    BigU(Vec<u8>),
    BigN(Vec<u8>),
}

#[derive(Clone, Debug, PartialEq)]
enum NPlutus {
    Missing,
    Constr(u32, u64, Vec<NPlutus>),
    Map(Vec<(NPlutus, NPlutus)>),
    Array(Vec<NPlutus>),
    Big(NBig),
    Bytes(Vec<u8>),
}

#[derive(Clone, Debug)]
struct NDatum {
    hash: Vec<u8>,
    payload: Option<NPlutus>,
    original_cbor: Vec<u8>,
}

#[derive(Clone, Debug)]
struct NOut {
    address: Vec<u8>,
    coin: NBig,
    assets: Vec<(Vec<u8>, Vec<u8>, NBig)>,
    datum: Option<NDatum>,
}

#[derive(Clone, Debug)]
struct NTx {
    hash: Vec<u8>,
    inputs: Vec<(Vec<u8>, u32)>,
    outputs: Vec<NOut>,
    collateral_return: Option<NOut>,
    fee: NBig,
    validity: Option<(u64, u64)>,
    successful: bool,
    witness_datums: Vec<NPlutus>,
}

struct NBlock {
    hash: Vec<u8>,
    txs: Vec<NTx>,
}

macro_rules! neutral {
    ($modname:ident, $ver:ident, $asset_q:expr, $datum_cbor:expr) => {
        mod $modname {
            use super::*;
            pub use pallas_utxorpc::$ver::spec::cardano as u5c;
            pub type Mapper = pallas_utxorpc::$ver::Mapper<NoLedger>;

            pub fn big(b: &Option<u5c::BigInt>) -> NBig {
                match b.as_ref().and_then(|x| x.big_int.as_ref()) {
                    None => NBig::Absent,
                    Some(u5c::big_int::BigInt::Int(i)) => NBig::Int(*i),
                    Some(u5c::big_int::BigInt::BigUInt(b)) => NBig::BigU(b.to_vec()),
                    Some(u5c::big_int::BigInt::BigNInt(b)) => NBig::BigN(b.to_vec()),
                }
            }
            pub fn plutus(p: &u5c::PlutusData) -> NPlutus {
                use u5c::plutus_data::PlutusData as P;
                match &p.plutus_data {
                    None => NPlutus::Missing,
                    Some(P::Constr(c)) => NPlutus::Constr(c.tag, c.any_constructor, c.fields.iter().map(plutus).collect()),
                    Some(P::Map(m)) => NPlutus::Map(
                        m.pairs
                            .iter()
                            .map(|kv| (kv.key.as_ref().map(plutus).unwrap_or(NPlutus::Missing), kv.value.as_ref().map(plutus).unwrap_or(NPlutus::Missing)))
                            .collect(),
                    ),
                    Some(P::Array(a)) => NPlutus::Array(a.items.iter().map(plutus).collect()),
                    Some(P::BigInt(b)) => NPlutus::Big(big(&Some(b.clone()))),
                    Some(P::BoundedBytes(b)) => NPlutus::Bytes(b.to_vec()),
                }
            }
            pub fn out(o: &u5c::TxOutput) -> NOut {
                let asset_q: fn(&u5c::Asset) -> NBig = $asset_q;
                let datum_cbor: fn(&u5c::Datum) -> Vec<u8> = $datum_cbor;
                NOut {
                    address: o.address.to_vec(),
                    coin: big(&o.coin),
                    assets: o.assets.iter().flat_map(|ma| ma.assets.iter().map(move |a| (ma.policy_id.to_vec(), a.name.to_vec(), asset_q(a)))).collect(),
                    datum: o.datum.as_ref().map(|d| NDatum { hash: d.hash.to_vec(), payload: d.payload.as_ref().map(plutus), original_cbor: datum_cbor(d) }),
                }
            }
            pub fn tx(t: &u5c::Tx) -> NTx {
                NTx {
                    hash: t.hash.to_vec(),
                    inputs: t.inputs.iter().map(|i| (i.tx_hash.to_vec(), i.output_index)).collect(),
                    outputs: t.outputs.iter().map(out).collect(),
                    collateral_return: t.collateral.as_ref().and_then(|c| c.collateral_return.as_ref()).map(out),
                    fee: big(&t.fee),
                    validity: t.validity.as_ref().map(|v| (v.start, v.ttl)),
                    successful: t.successful,
                    witness_datums: t.witnesses.as_ref().map(|w| w.plutus_datums.iter().map(plutus).collect()).unwrap_or_default(),
                }
            }
            pub fn block(b: &u5c::Block) -> NBlock {
                NBlock {
                    hash: b.header.as_ref().map(|h| h.hash.to_vec()).unwrap_or_default(),
                    txs: b.body.as_ref().map(|x| x.tx.iter().map(tx).collect()).unwrap_or_default(),
                }
            }
            pub fn map_block(b: &MultiEraBlock) -> NBlock {
                block(&Mapper::new(NoLedger).map_block(b))
            }
            pub fn map_tx(t: &MultiEraTx) -> NTx {
                tx(&Mapper::new(NoLedger).map_tx(t))
            }
            pub fn map_datum(d: &PlutusData) -> NPlutus {
                plutus(&Mapper::new(NoLedger).map_plutus_datum(d))
            }
        }
    };
}

neutral!(
    alpha,
    v1alpha,
    |a| match &a.quantity {
        Some(u5c::asset::Quantity::OutputCoin(b)) => big(&Some(b.clone())),
        Some(u5c::asset::Quantity::MintCoin(b)) => big(&Some(b.clone())),
        None => NBig::Absent,
    },
    |d| d.original_cbor.to_vec()
);
neutral!(beta, v1beta, |a| big(&a.quantity), |d| d.original_cbor.as_ref().map(|b| b.to_vec()).unwrap_or_default());

#[derive(Clone, Copy, PartialEq, Eq, Debug)]
enum Ver {
    Alpha,
    Beta,
}

impl Ver {
    fn name(&self) -> &'static str {
        match self {
            Ver::Alpha => "v1alpha",
            Ver::Beta => "v1beta",
        }
    }
    fn map_block(&self, b: &MultiEraBlock) -> NBlock {
        match self {
            Ver::Alpha => alpha::map_block(b),
            Ver::Beta => beta::map_block(b),
        }
    }
    fn map_tx(&self, t: &MultiEraTx) -> NTx {
        match self {
            Ver::Alpha => alpha::map_tx(t),
            Ver::Beta => beta::map_tx(t),
        }
    }
    fn map_datum(&self, d: &PlutusData) -> NPlutus {
        match self {
            Ver::Alpha => alpha::map_datum(d),
            Ver::Beta => beta::map_datum(d),
        }
    }
}

// ---------------------------------------------------------------------------
// Integers: arbitrary size, as (negative?, n) with value = n or -1 - n
// ---------------------------------------------------------------------------

fn strip(b: &[u8]) -> Vec<u8> {
    let i = b.iter().position(|x| *x != 0).unwrap_or(b.len());
    b[i..].to_vec()
}

fn plus_one(b: &[u8]) -> Vec<u8> {
    let mut v = b.to_vec();
    for i in (0..v.len()).rev() {
        if v[i] == 0xff {
            v[i] = 0;
        } else {
            v[i] += 1;
            return strip(&v);
        }
    }
    v.insert(0, 1);
    v
}

/// Exact integer: (negative, n) meaning n if !negative, -1 - n if negative;
/// n big-endian without leading zeros.
type Exact = (bool, Vec<u8>);

fn exact_of_i128(v: i128) -> Exact {
    if v >= 0 {
        (false, strip(&(v as u128).to_be_bytes()))
    } else {
        (true, strip(&((-1 - v) as u128).to_be_bytes()))
    }
}

fn fits_i64(e: &Exact) -> bool {
    // non-negative: n <= 2^63-1; negative: n <= 2^63-1 (value >= -2^63)
    e.1.len() < 8 || (e.1.len() == 8 && e.1[0] < 0x80)
}

fn show(e: &Exact) -> String {
    format!("{}0x{}", if e.0 { "-1-" } else { "" }, if e.1.is_empty() { "00".into() } else { hex::encode(&e.1) })
}

// ---------------------------------------------------------------------------
// Expected Plutus data, from the refcbor AST of the datum bytes
// ---------------------------------------------------------------------------

#[derive(Clone, Debug)]
enum EPlutus {
    Constr(u64, u64, Vec<EPlutus>),
    Map(Vec<(EPlutus, EPlutus)>),
    Array(Vec<EPlutus>),
    /// value + source kind ("int", "biguint", "bignint")
    Int(Exact, &'static str),
    Bytes(Vec<u8>),
}

fn expected_plutus(n: &Node) -> Result<EPlutus, String> {
    Ok(match &n.kind {
        Kind::UInt(v, _) => EPlutus::Int(exact_of_i128(*v as i128), "int"),
        Kind::NInt(v, _) => EPlutus::Int((true, strip(&v.to_be_bytes())), "int"),
        Kind::Bytes(_, _) | Kind::BytesIndef(_) => EPlutus::Bytes(n.as_bytes().unwrap()),
        Kind::Array(a, _) => EPlutus::Array(a.iter().map(expected_plutus).collect::<Result<_, _>>()?),
        Kind::Map(m, _) => EPlutus::Map(m.iter().map(|(k, v)| Ok((expected_plutus(k)?, expected_plutus(v)?))).collect::<Result<_, String>>()?),
        Kind::Tag(2, _, inner) => EPlutus::Int((false, strip(&inner.as_bytes().ok_or("tag 2 without bytes")?)), "biguint"),
        Kind::Tag(3, _, inner) => EPlutus::Int((true, strip(&inner.as_bytes().ok_or("tag 3 without bytes")?)), "bignint"),
        Kind::Tag(t, _, inner) if (121..=127).contains(t) || (1280..=1400).contains(t) => {
            EPlutus::Constr(*t, 0, inner.as_array().ok_or("constr without array")?.iter().map(expected_plutus).collect::<Result<_, _>>()?)
        }
        Kind::Tag(102, _, inner) => {
            let a = inner.as_array().ok_or("constr 102 without array")?;
            if a.len() != 2 {
                return Err("constr 102: not a pair".into());
            }
            let any = a[0].as_u64().ok_or("constr 102: constructor not a uint")?;
            EPlutus::Constr(102, any, a[1].as_array().ok_or("constr 102: fields not an array")?.iter().map(expected_plutus).collect::<Result<_, _>>()?)
        }
        other => return Err(format!("not plutus data: {other:?}").chars().take(80).collect()),
    })
}

struct Diag {
    ints_checked: u64,
    ints_outside_i64: u64,
    small_in_big_form: u64,
}

/// Compare mapped Plutus data with the expectation. Problems are (fingerprint, text).
fn cmp_plutus(e: &EPlutus, m: &NPlutus, path: &str, out: &mut Vec<(String, String)>, d: &mut Diag) {
    match (e, m) {
        (EPlutus::Int(val, kind), NPlutus::Big(b)) => {
            d.ints_checked += 1;
            if !fits_i64(val) {
                d.ints_outside_i64 += 1;
            }
            let class = if *kind == "int" { if fits_i64(val) { "cbor-int-within-i64" } else { "cbor-int-outside-i64" } } else { *kind };
            let exact = match b {
                NBig::Absent => false,
                NBig::Int(i) => exact_of_i128(*i as i128) == *val,
                NBig::BigU(bytes) => !val.0 && strip(bytes) == val.1,
                // either convention for the magnitude of a negative: n with value -1-n, or |value|
                NBig::BigN(bytes) => val.0 && (strip(bytes) == val.1 || strip(bytes) == plus_one(&val.1)),
            };
            if !exact {
                out.push((format!("plutus-int-not-exact:{class}"), format!("{path}: source integer {} ({kind}) is mapped to {b:?}", show(val))));
            } else if fits_i64(val) && !matches!(b, NBig::Int(_)) {
                d.small_in_big_form += 1;
            }
        }
        (EPlutus::Bytes(x), NPlutus::Bytes(y)) => {
            if x != y {
                out.push(("plutus-bytes-differ".into(), format!("{path}: byte string differs")));
            }
        }
        (EPlutus::Array(x), NPlutus::Array(y)) => {
            if x.len() != y.len() {
                out.push(("plutus-structure-differs".into(), format!("{path}: list of {} mapped to {} items", x.len(), y.len())));
            }
            for (i, (a, b)) in x.iter().zip(y.iter()).enumerate() {
                cmp_plutus(a, b, &format!("{path}[{i}]"), out, d);
            }
        }
        (EPlutus::Map(x), NPlutus::Map(y)) => {
            if x.len() != y.len() {
                out.push(("plutus-structure-differs".into(), format!("{path}: map of {} mapped to {} pairs", x.len(), y.len())));
            }
            for (i, ((ak, av), (bk, bv))) in x.iter().zip(y.iter()).enumerate() {
                cmp_plutus(ak, bk, &format!("{path}.key{i}"), out, d);
                cmp_plutus(av, bv, &format!("{path}.val{i}"), out, d);
            }
        }
        (EPlutus::Constr(t, any, f), NPlutus::Constr(mt, many, mf)) => {
            if *t != *mt as u64 || any != many {
                out.push(("plutus-constr-tag-differs".into(), format!("{path}: constr tag {t} / constructor {any} mapped to {mt} / {many}")));
            }
            if f.len() != mf.len() {
                out.push(("plutus-structure-differs".into(), format!("{path}: constr with {} fields mapped to {}", f.len(), mf.len())));
            }
            for (i, (a, b)) in f.iter().zip(mf.iter()).enumerate() {
                cmp_plutus(a, b, &format!("{path}.f{i}"), out, d);
            }
        }
        (e, m) => out.push(("plutus-structure-differs".into(), format!("{path}: {} mapped to {}", ekind(e), nkind(m)))),
    }
}

fn ekind(e: &EPlutus) -> &'static str {
    match e {
        EPlutus::Constr(..) => "constr",
        EPlutus::Map(_) => "map",
        EPlutus::Array(_) => "list",
        EPlutus::Int(..) => "integer",
        EPlutus::Bytes(_) => "bytes",
    }
}

fn nkind(e: &NPlutus) -> &'static str {
    match e {
        NPlutus::Missing => "nothing",
        NPlutus::Constr(..) => "constr",
        NPlutus::Map(_) => "map",
        NPlutus::Array(_) => "list",
        NPlutus::Big(_) => "integer",
        NPlutus::Bytes(_) => "bytes",
    }
}

fn cmp_datum_bytes(raw: &[u8], m: &NPlutus, path: &str, out: &mut Vec<(String, String)>, d: &mut Diag) {
    match refcbor::parse_one(raw).map_err(|e| format!("{e:?}")).and_then(|n| expected_plutus(&n)) {
        Ok(e) => cmp_plutus(&e, m, path, out, d),
        Err(e) => out.push(("reference-cannot-read-datum".into(), format!("{path}: {e}"))),
    }
}

fn big_is_u64(b: &NBig, v: u64) -> bool {
    match b {
        NBig::Absent => false,
        NBig::Int(i) => *i >= 0 && *i as u64 == v,
        NBig::BigU(bytes) => strip(bytes) == strip(&v.to_be_bytes()),
        NBig::BigN(_) => false,
    }
}

fn cmp_output(ro: &RefOutput, address_raw: &[u8], mo: &NOut, rt: &RefTx, path: &str, out: &mut Vec<(String, String)>, d: &mut Diag) {
    if mo.address != address_raw {
        let fp = if mo.address.is_empty() { "output-address-dropped" } else { "output-address-bytes-reencoded-differently" };
        out.push((fp.into(), format!("{path}: address {} mapped to {}", hex::encode(address_raw), hex::encode(&mo.address))));
    }
    if !big_is_u64(&mo.coin, ro.coin) {
        out.push(("output-coin-differs".into(), format!("{path}: coin {} mapped to {:?}", ro.coin, mo.coin)));
    }
    let mut ra: Vec<(Vec<u8>, Vec<u8>, u64)> = ro.assets.clone();
    ra.sort();
    let mut ok = ra.len() == mo.assets.len();
    if ok {
        let mut ma = mo.assets.clone();
        ma.sort_by(|a, b| (&a.0, &a.1).cmp(&(&b.0, &b.1)));
        for (r, m) in ra.iter().zip(ma.iter()) {
            if r.0 != m.0 || r.1 != m.1 || !big_is_u64(&m.2, r.2) {
                ok = false;
            }
        }
    }
    if !ok {
        out.push(("output-assets-differ".into(), format!("{path}: {} assets in the output, {} mapped (policy / name / quantity differ)", ra.len(), mo.assets.len())));
    }
    let empty = NDatum { hash: vec![], payload: None, original_cbor: vec![] };
    let md = mo.datum.as_ref().unwrap_or(&empty);
    match (&ro.datum_hash, &ro.inline_datum) {
        (Some(h), _) => {
            if &md.hash != h {
                out.push(("datum-hash-differs".into(), format!("{path}: datum hash {} mapped to {}", hex::encode(h), hex::encode(&md.hash))));
            }
            if let Some(p) = &md.payload {
                match rt.witness_datums.iter().find(|w| &blake2b_256(w)[..] == &h[..]) {
                    Some(w) => cmp_datum_bytes(w, p, &format!("{path}.datum(resolved)"), out, d),
                    None => out.push(("datum-payload-without-source".into(), format!("{path}: payload given for datum hash {} but no witness datum hashes to it", hex::encode(h)))),
                }
            }
        }
        (None, Some(raw)) => {
            if md.original_cbor != *raw {
                out.push(("inline-datum-cbor-differs".into(), format!("{path}: inline datum bytes differ ({} vs {} bytes)", raw.len(), md.original_cbor.len())));
            }
            if md.hash != blake2b_256(raw) {
                out.push(("inline-datum-hash-differs".into(), format!("{path}: hash field {} is not blake2b-256 of the inline datum", hex::encode(&md.hash))));
            }
            match &md.payload {
                Some(p) => cmp_datum_bytes(raw, p, &format!("{path}.datum"), out, d),
                None => out.push(("inline-datum-payload-missing".into(), format!("{path}: inline datum has no payload"))),
            }
        }
        (None, None) => {
            if !md.hash.is_empty() || md.payload.is_some() {
                out.push(("datum-invented".into(), format!("{path}: output without datum mapped with one")));
            }
        }
    }
}

/// Raw address bytes as the mapper should carry them: Shelley+ = the address
/// byte string; Byron = the CBOR item `[#6.24(payload), crc]`.
fn address_raw(ro: &RefOutput) -> Vec<u8> {
    match ro.byron_crc {
        None => ro.address.clone(),
        Some(crc) => Node::array(vec![Node::tag(24, Node::bytes(&ro.address)), Node::uint(crc)]).to_vec(),
    }
}

fn cmp_tx(rt: &RefTx, byron: bool, m: &NTx, path: &str, out: &mut Vec<(String, String)>, d: &mut Diag) {
    if m.hash != rt.id {
        out.push(("tx-hash-differs".into(), format!("{path}: hash {} but blake2b-256(body) = {}", hex::encode(&m.hash), hex::encode(rt.id))));
    }
    let ri: BTreeSet<(Vec<u8>, u64)> = rt.inputs.iter().map(|i| (i.tx.clone(), i.index)).collect();
    let mi: BTreeSet<(Vec<u8>, u64)> = m.inputs.iter().map(|i| (i.0.clone(), i.1 as u64)).collect();
    if ri != mi {
        out.push(("tx-inputs-differ".into(), format!("{path}: {} distinct inputs in the body, {} mapped", ri.len(), mi.len())));
    }
    if rt.outputs.len() != m.outputs.len() {
        out.push(("tx-output-count-differs".into(), format!("{path}: {} outputs, {} mapped", rt.outputs.len(), m.outputs.len())));
    }
    for (j, (ro, mo)) in rt.outputs.iter().zip(m.outputs.iter()).enumerate() {
        cmp_output(ro, &address_raw(ro), mo, rt, &format!("{path} output {j}"), out, d);
    }
    match (&rt.collateral_return, &m.collateral_return) {
        (Some(ro), Some(mo)) => cmp_output(ro, &address_raw(ro), mo, rt, &format!("{path} collateral return"), out, d),
        (None, None) => {}
        (a, _) => out.push(("collateral-return-presence-differs".into(), format!("{path}: collateral return {} in the body", if a.is_some() { "present" } else { "absent" }))),
    }
    if !byron {
        if let Some(f) = rt.fee {
            if !big_is_u64(&m.fee, f) {
                out.push(("tx-fee-differs".into(), format!("{path}: fee {f} mapped to {:?}", m.fee)));
            }
        }
    }
    if m.successful != rt.valid {
        out.push(("tx-validity-flag-differs".into(), format!("{path}: valid = {} mapped to successful = {}", rt.valid, m.successful)));
    }
    let (s, t) = m.validity.unwrap_or((0, 0));
    if s != rt.validity_start.unwrap_or(0) || t != rt.ttl.unwrap_or(0) {
        out.push(("tx-validity-interval-differs".into(), format!("{path}: interval start {:?} ttl {:?} mapped to ({s}, {t})", rt.validity_start, rt.ttl)));
    }
    if rt.witness_datums.len() != m.witness_datums.len() {
        out.push(("witness-datum-count-differs".into(), format!("{path}: {} witness datums, {} mapped", rt.witness_datums.len(), m.witness_datums.len())));
    }
    for (j, (raw, mp)) in rt.witness_datums.iter().zip(m.witness_datums.iter()).enumerate() {
        cmp_datum_bytes(raw, mp, &format!("{path} witness datum {j}"), out, d);
    }
}

/// Block hash by the reference: blake2b-256 of the header (Byron: of
/// `[0|1, header]`).
fn ref_block_hash(bytes: &[u8]) -> Option<Vec<u8>> {
    let root = refcbor::parse_one(bytes).ok()?;
    let w = root.as_array()?;
    let tag = w[0].as_u64()?;
    let header = w[1].as_array()?.first()?.span(bytes);
    Some(match tag {
        0 | 1 => {
            let mut v = vec![0x82, tag as u8];
            v.extend_from_slice(header);
            blake2b_256(&v).to_vec()
        }
        _ => blake2b_256(header).to_vec(),
    })
}

struct Outcome {
    problems: Vec<(String, String)>,
    rejected: bool,
    txs: u64,
    diag: Diag,
}

fn run_block(bytes: &[u8], ver: Ver, label: &str) -> Outcome {
    let mut o = Outcome { problems: vec![], rejected: false, txs: 0, diag: Diag { ints_checked: 0, ints_outside_i64: 0, small_in_big_form: 0 } };
    let rb = match corpus::ref_block(bytes) {
        Ok(r) => r,
        Err(e) => mc_core::report::machinery_failure(&format!("{label}: reference cannot view the block: {e}")),
    };
    let r = catch(|| MultiEraBlock::decode(bytes).ok().map(|b| ver.map_block(&b)));
    match r {
        Err(p) => o.problems.push((p.site(), format!("{label}: panicked: {} at {}", p.message, p.location))),
        Ok(None) => o.rejected = true,
        Ok(Some(nb)) => {
            if Some(&nb.hash) != ref_block_hash(bytes).as_ref() {
                o.problems.push(("block-hash-differs".into(), format!("{label}: header hash {} is not the blake2b-256 of the header", hex::encode(&nb.hash))));
            }
            if nb.txs.len() != rb.txs.len() {
                o.problems.push(("block-tx-count-differs".into(), format!("{label}: {} bodies, {} mapped", rb.txs.len(), nb.txs.len())));
            }
            for (i, (rt, mt)) in rb.txs.iter().zip(nb.txs.iter()).enumerate() {
                cmp_tx(rt, rb.era_tag <= 1, mt, &format!("{label} tx {i}"), &mut o.problems, &mut o.diag);
            }
            o.txs = nb.txs.len() as u64;
        }
    }
    o
}

// ---------------------------------------------------------------------------
// Generated Plutus data
// ---------------------------------------------------------------------------

fn leaves() -> Vec<(String, Node)> {
    let mut v: Vec<(String, Node)> = vec![];
    let two63: i128 = 1 << 63;
    let two64: i128 = 1 << 64;
    let ints: [i128; 16] = [-two64, -two63 - 1, -two63, -two63 + 1, -(1 << 32), -25, -24, -1, 0, 1, 23, 24, 1 << 32, two63 - 1, two63, two64 - 1];
    for i in ints {
        let n = if i >= 0 { i as u64 } else { (-1 - i) as u64 };
        for w in [0u8, 1, 2, 4, 8] {
            if refcbor::width_fits(n, w) {
                let node = if i >= 0 { Node::uint_w(n, w) } else { Node::new(Kind::NInt(n, w)) };
                v.push((format!("int {i} (head width {w})"), node));
            }
        }
    }
    let mags: Vec<(&str, Vec<u8>)> = vec![
        ("empty", vec![]),
        ("00", vec![0]),
        ("01", vec![1]),
        ("ff", vec![0xff]),
        ("2^63-1", (u64::MAX >> 1).to_be_bytes().to_vec()),
        ("2^63", (1u64 << 63).to_be_bytes().to_vec()),
        ("2^64-1", u64::MAX.to_be_bytes().to_vec()),
        ("2^64", vec![1, 0, 0, 0, 0, 0, 0, 0, 0]),
        ("00 2^64-1", vec![0, 0xff, 0xff, 0xff, 0xff, 0xff, 0xff, 0xff, 0xff, 0xff]),
        ("2^96-1", vec![0xff; 12]),
        ("64 bytes", vec![0xa5; 64]),
    ];
    for (name, m) in &mags {
        v.push((format!("tag 2 {name}"), Node::tag(2, Node::bytes(m))));
        v.push((format!("tag 3 {name}"), Node::tag(3, Node::bytes(m))));
    }
    v.push(("tag 2 chunked 2^64".into(), Node::tag(2, Node::new(Kind::BytesIndef(vec![(vec![1, 0, 0, 0], 0), (vec![0, 0, 0, 0, 0], 0)])))));
    v.push(("bytes".into(), Node::bytes(b"\x00\x01")));
    v
}

fn contexts(depth: usize) -> Vec<(String, Box<dyn Fn(Node) -> Node + Sync + Send>)> {
    let w: Vec<(&'static str, fn(Node) -> Node)> = vec![
        ("list[x]", |x| Node::array(vec![x])),
        ("list[0,x] indefinite", |x| Node::array_indef(vec![Node::uint(0), x])),
        ("map{x:0}", |x| Node::map(vec![(x, Node::uint(0))])),
        ("map{0:x}", |x| Node::map(vec![(Node::uint(0), x)])),
        ("constr121[x]", |x| Node::tag(121, Node::array(vec![x]))),
        ("constr1280[x]", |x| Node::tag(1280, Node::array_indef(vec![x]))),
        ("constr102(7)[x]", |x| Node::tag(102, Node::array(vec![Node::uint(7), Node::array(vec![x])]))),
    ];
    // every sequence of wrappers of length 0..=depth (innermost first)
    let mut seqs: Vec<Vec<usize>> = vec![vec![]];
    let mut frontier: Vec<Vec<usize>> = vec![vec![]];
    for _ in 0..depth {
        let mut next = vec![];
        for s in &frontier {
            for i in 0..w.len() {
                let mut t = s.clone();
                t.push(i);
                next.push(t);
            }
        }
        seqs.extend(next.iter().cloned());
        frontier = next;
    }
    seqs.into_iter()
        .map(|seq| {
            let name = if seq.is_empty() { "top".to_string() } else { seq.iter().map(|i| w[*i].0).collect::<Vec<_>>().join(" in ") };
            let fs: Vec<fn(Node) -> Node> = seq.iter().map(|i| w[*i].1).collect();
            let f: Box<dyn Fn(Node) -> Node + Sync + Send> = Box::new(move |mut x| {
                for f in &fs {
                    x = f(x);
                }
                x
            });
            (name, f)
        })
        .collect()
}

/// Block whose first transaction's first output is the map-form output
/// `{0: address, 1: coin, 2: [1, #6.24(datum)]}`.
fn embed_in_block(base: &[u8], datum: &[u8]) -> Option<Vec<u8>> {
    let mut ast = BlockAst::parse(base)?;
    let items = ast.block_items();
    let body = items[1].as_array_mut()?.get_mut(0)?;
    let outs = rewrite::inner_array_mut(rewrite::map_get_mut(body, 1)?)?;
    let first = outs.as_array_mut()?.get_mut(0)?;
    let address = match &first.kind {
        Kind::Array(a, _) => a.first()?.clone(),
        Kind::Map(_, _) => first.map_get(0)?.clone(),
        _ => return None,
    };
    *first = Node::map(vec![
        (Node::uint(0), address),
        (Node::uint(1), Node::uint(1_234_567)),
        (Node::uint(2), Node::array(vec![Node::uint(1), Node::tag(24, Node::bytes(datum))])),
    ]);
    Some(ast.to_vec())
}

pub fn run(ctx: Ctx) -> ! {
    let vers = [Ver::Alpha, Ver::Beta];
    let mut evals = 0u64;
    let mut nontrivial: BTreeSet<String> = BTreeSet::new();
    let mut samples: Vec<Value> = vec![];
    let mut diag = Diag { ints_checked: 0, ints_outside_i64: 0, small_in_big_form: 0 };
    let mut rejected_real: BTreeSet<String> = BTreeSet::new();
    // violations on real artefacts are reported after the generated ones so that
    // the first (kept) witness of a fingerprint is the small generated input
    let mut deferred: Vec<(String, String, Value)> = vec![];

    // ---- real blocks
    let mut blocks = corpus::block_files();
    blocks.extend(corpus::chunk_blocks());
    let outs: Vec<Vec<Outcome>> = blocks.par_iter().map(|a| vers.iter().map(|v| run_block(&a.bytes, *v, &format!("{} {}", v.name(), a.name))).collect()).collect();
    let mut real_txs = 0u64;
    for (a, os) in blocks.iter().zip(outs.iter()) {
        for (v, o) in vers.iter().zip(os.iter()) {
            evals += 1;
            if o.rejected {
                rejected_real.insert(a.name.clone());
                continue;
            }
            for (fp, what) in &o.problems {
                deferred.push((fp.clone(), what.clone(), json!({"block": a.name, "version": v.name()})));
            }
            real_txs += o.txs;
            diag.ints_checked += o.diag.ints_checked;
            diag.ints_outside_i64 += o.diag.ints_outside_i64;
            diag.small_in_big_form += o.diag.small_in_big_form;
            nontrivial.insert(format!("{}|{}", v.name(), a.name));
        }
    }
    let real_ints = diag.ints_checked;

    // ---- stand-alone transactions
    // every four-element transaction also with its validity flag flipped (a phase-2 invalid
    // transaction still declares the same inputs, outputs and collateral return)
    let mut tx_artefacts = corpus::tx_files();
    let mut flipped = 0usize;
    for a in corpus::tx_files() {
        if let Ok(root) = mc_core::refcbor::parse_one(&a.bytes) {
            if let Some(arr) = root.as_array() {
                if arr.len() == 4 && matches!(a.bytes[arr[2].start], 0xf4 | 0xf5) {
                    let mut v = a.clone();
                    v.bytes[arr[2].start] ^= 0x01;
                    v.name = format!("{}#validity-flag-flipped", a.name);
                    tx_artefacts.push(v);
                    flipped += 1;
                }
            }
        }
    }
    if flipped == 0 {
        mc_core::report::machinery_failure("C44: no stand-alone transaction with a validity flag in the corpus");
    }
    // every transaction of the Alonzo-and-later block files also as a stand-alone artefact
    // (0x84, body, witness set, validity flag, auxiliary data or null), so that it can be read
    // under each later era as well (a legacy-form output inside a Conway transaction, ...)
    let mut extracted = 0usize;
    for a in corpus::block_files() {
        let Ok(root) = mc_core::refcbor::parse_one(&a.bytes) else { continue };
        let Some(w) = root.as_array() else { continue };
        if w.len() != 2 || w[0].as_u64().unwrap_or(0) < 5 {
            continue;
        }
        let Some(b) = w[1].as_array() else { continue };
        if b.len() < 4 {
            continue;
        }
        let (Some(bodies), Some(wits)) = (b[1].as_array(), b[2].as_array()) else { continue };
        let invalid: Vec<u64> = b.get(4).and_then(|n| n.as_array()).map(|v| v.iter().filter_map(|x| x.as_u64()).collect()).unwrap_or_default();
        for (i, body) in bodies.iter().enumerate() {
            let Some(wit) = wits.get(i) else { continue };
            let mut tx = vec![0x84u8];
            tx.extend_from_slice(body.span(&a.bytes));
            tx.extend_from_slice(wit.span(&a.bytes));
            tx.push(if invalid.contains(&(i as u64)) { 0xf4 } else { 0xf5 });
            match b[3].map_get(i as u64) {
                Some(aux) => tx.extend_from_slice(aux.span(&a.bytes)),
                None => tx.push(0xf6),
            }
            tx_artefacts.push(corpus::Artefact { name: format!("{}#tx{}", a.name, i), bytes: tx });
            extracted += 1;
        }
    }
    if extracted == 0 {
        mc_core::report::machinery_failure("C44: no transaction could be extracted from the block files");
    }
    for a in tx_artefacts {
        let (shape, rt) = match corpus::ref_tx(&a.bytes) {
            Ok(x) => x,
            Err(e) => mc_core::report::machinery_failure(&format!("reference cannot view {}: {e}", a.name)),
        };
        // the bytes as pallas reads them by default, and under every later era that accepts them
        let mut readings: Vec<Option<pallas_traverse::Era>> = vec![None];
        if shape == corpus::TxShape::AlonzoPlus {
            readings.extend([Some(pallas_traverse::Era::Alonzo), Some(pallas_traverse::Era::Babbage), Some(pallas_traverse::Era::Conway)]);
        }
        for v in vers {
          for reading in &readings {
            evals += 1;
            let label = format!("{} {}{}", v.name(), a.name, reading.map(|e| format!(" read as {e:?}")).unwrap_or_default());
            match catch(|| {
                let t = match reading {
                    None => MultiEraTx::decode(&a.bytes).ok(),
                    Some(e) => MultiEraTx::decode_for_era(*e, &a.bytes).ok(),
                };
                t.map(|t| (v.map_tx(&t), t.era()))
            }) {
                Err(p) => ctx.violation(p.site(), format!("{label}: panicked: {} at {}", p.message, p.location), json!({"tx": a.name, "version": v.name()})),
                Ok(None) => {
                    if reading.is_none() {
                        rejected_real.insert(a.name.clone());
                    }
                }
                Ok(Some((nt, era))) => {
                    let mut problems = vec![];
                    // a stand-alone tx carries no era: a collateral return is only
                    // visible when pallas reads the bytes as Babbage or later
                    let mut rt = rt.clone();
                    if era < pallas_traverse::Era::Babbage {
                        rt.collateral_return = None;
                    }
                    cmp_tx(&rt, shape == corpus::TxShape::Byron, &nt, &label, &mut problems, &mut diag);
                    for (fp, what) in problems {
                        deferred.push((fp, what, json!({"tx": a.name, "version": v.name(), "tx_hex": hex::encode(&a.bytes)})));
                    }
                    real_txs += 1;
                    nontrivial.insert(format!("{}|{}", v.name(), a.name));
                }
            }
          }
        }
    }
    for r in &rejected_real {
        ctx.note(format!("{r} is rejected by the pallas decoder in the default feature set (nothing to map)"));
    }
    if rejected_real.len() > 6 {
        mc_core::report::machinery_failure(&format!("too many real artefacts rejected: {rejected_real:?}"));
    }

    // ---- generated Plutus data
    let find_base = |tag: u64| -> Vec<u8> {
        for a in blocks.iter() {
            if a.name.contains('#') {
                continue;
            }
            if let Ok(rb) = corpus::ref_block(&a.bytes) {
                if rb.era_tag == tag && !rb.txs.is_empty() && MultiEraBlock::decode(&a.bytes).is_ok() {
                    if let Some(b) = embed_in_block(&a.bytes, &[0x00]) {
                        if MultiEraBlock::decode(&b).is_ok() {
                            return a.bytes.clone();
                        }
                    }
                }
            }
        }
        mc_core::report::machinery_failure(&format!("no base block for era tag {tag}"))
    };
    let bases = [("babbage-block", find_base(6)), ("conway-block", find_base(7))];
    let leaves = leaves();
    let depth = if ctx.thorough { 3 } else { 2 };
    let ctxs = contexts(depth);
    let cases: Vec<(usize, usize)> = (0..leaves.len()).flat_map(|l| (0..ctxs.len()).map(move |c| (l, c))).collect();
    struct GenRes {
        datum: Vec<u8>,
        direct_accepted: bool,
        results: Vec<(String, &'static str, Vec<(String, String)>, bool)>, // path, version, problems, accepted
        diag: Diag,
    }
    let gen: Vec<GenRes> = cases
        .par_iter()
        .map(|(l, c)| {
            let datum = (ctxs[*c].1)(leaves[*l].1.clone()).to_vec();
            let mut g = GenRes { datum: datum.clone(), direct_accepted: false, results: vec![], diag: Diag { ints_checked: 0, ints_outside_i64: 0, small_in_big_form: 0 } };
            let label = format!("{} @ {}", leaves[*l].0, ctxs[*c].0);
            for v in vers {
                // direct
                let mut problems = vec![];
                let accepted = match catch(|| minicbor::decode::<PlutusData>(&datum).ok().map(|d| v.map_datum(&d))) {
                    Err(p) => {
                        problems.push((p.site(), format!("{} map_plutus_datum({label}): panicked: {} at {}", v.name(), p.message, p.location)));
                        true
                    }
                    Ok(None) => false,
                    Ok(Some(m)) => {
                        cmp_datum_bytes(&datum, &m, &format!("{} map_plutus_datum({label})", v.name()), &mut problems, &mut g.diag);
                        true
                    }
                };
                g.direct_accepted |= accepted;
                g.results.push(("direct".into(), v.name(), problems, accepted));
                // embedded
                for (bname, base) in bases.iter() {
                    let Some(bytes) = embed_in_block(base, &datum) else {
                        mc_core::report::machinery_failure("cannot embed datum");
                    };
                    let o = run_block(&bytes, v, &format!("{} map_block({bname} with inline datum {label})", v.name()));
                    g.diag.ints_checked += o.diag.ints_checked;
                    g.diag.ints_outside_i64 += o.diag.ints_outside_i64;
                    g.diag.small_in_big_form += o.diag.small_in_big_form;
                    g.results.push((bname.to_string(), v.name(), o.problems, !o.rejected));
                }
            }
            g
        })
        .collect();
    let mut gen_accepted = 0u64;
    let mut gen_rejected = 0u64;
    let mut by_path: BTreeMap<String, u64> = BTreeMap::new();
    for (g, (l, c)) in gen.iter().zip(cases.iter()) {
        for (path, ver, problems, accepted) in &g.results {
            evals += 1;
            if !*accepted {
                gen_rejected += 1;
                continue;
            }
            gen_accepted += 1;
            *by_path.entry(format!("{ver}/{path}")).or_default() += 1;
            for (fp, what) in problems {
                ctx.violation(fp.clone(), what.clone(), json!({"datum_hex": hex::encode(&g.datum), "leaf": leaves[*l].0, "context": ctxs[*c].0, "path": path, "version": ver}));
            }
            nontrivial.insert(format!("gen|{ver}|{path}|{}", hex::encode(&g.datum)));
        }
        diag.ints_checked += g.diag.ints_checked;
        diag.ints_outside_i64 += g.diag.ints_outside_i64;
        diag.small_in_big_form += g.diag.small_in_big_form;
        if samples.len() < 6 && g.direct_accepted && (l * 31 + c) % 211 == 0 {
            samples.push(json!({"leaf": leaves[*l].0, "context": ctxs[*c].0, "datum_hex": hex::encode(&g.datum)}));
        }
    }
    for (fp, what, case) in deferred {
        ctx.violation(fp, what, case);
    }
    if gen_accepted == 0 || diag.ints_outside_i64 == 0 || by_path.len() < 6 {
        mc_core::report::machinery_failure(&format!("vacuous generation: accepted {gen_accepted}, integers outside i64 seen {}, paths {by_path:?}", diag.ints_outside_i64));
    }
    samples.push(json!({"real_blocks": blocks.len(), "real_txs_mapped_x_versions": real_txs}));
    let cov = cov! {
        "evaluations" => evals,
        "distinct_nontrivial" => nontrivial.len(),
        "rule" => "evaluation = one artefact mapped by one mapper version (map_block of a real or generated block, map_tx of a stand-alone tx, map_plutus_datum of a generated datum) and compared field by field with the refcbor view; non-trivial = distinct (version, artefact) that pallas decoded and that was fully compared",
        "samples" => samples,
        "real_txs_mapped_x_versions" => real_txs,
        "plutus_integers_compared" => diag.ints_checked,
        "plutus_integers_compared_in_real_data" => real_ints,
        "plutus_integers_outside_i64_compared" => diag.ints_outside_i64,
        "diagnostic_small_values_kept_in_big_form" => diag.small_in_big_form,
        "generated_leaves" => leaves.len(),
        "generated_contexts" => ctxs.len(),
        "generated_context_depth" => depth,
        "generated_accepted_by_path" => by_path,
        "generated_rejected_by_decode" => gen_rejected,
        "real_rejected_by_decode" => rejected_real.iter().cloned().collect::<Vec<_>>(),
        "exhaustive" => true,
    };
    ctx.finish(
        Level::Exploration,
        cov,
        &[
            "no-op LedgerContext (no resolved inputs, no timestamps); compared fields: tx hash, input set, outputs (address bytes, coin, assets as a multiset of policy/name/quantity), collateral return, fee (Shelley onward), validity flag and interval, datum hash / inline datum bytes / datum structure, witness-set datums, block header hash",
            "an integer is exact when the mapped Int / BigUInt / BigNInt denotes the source value (either magnitude convention accepted for BigNInt); a value within i64 that the source spelled as a bignum and the mapper keeps as big-integer bytes is only counted as a diagnostic",
            "inputs are compared as a set (the mappers emit the sorted, de-duplicated input set)",
            "integer alphabet = boundary values in every fitting head width plus bignum byte strings; every container position to depth 2 (quick) / 3 (thorough)",
        ],
    )
}
