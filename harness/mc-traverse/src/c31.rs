//! C31 — UTxO effects of a transaction follow the phase-2 validity rule.
//! GRID: every transaction of every real block (test_data + immutable-DB
//! chunks) and of every stand-alone `.tx` file, as is and under generated
//! variants rewritten on the refcbor AST: validity flags (all valid / all
//! invalid / single flips), duplicated + unsorted inputs, a synthetic
//! collateral list with a duplicate, collateral return forced present / absent.
//! Expected effects come from the refcbor view of the (rewritten) bytes.

use crate::c30::{BlockAst, Problem};
use crate::corpus::{self, Artefact, RefTx, TxShape};
use crate::obs::{self, InKey, OutSig};
use crate::rewrite;
use mc_core::refcbor::{self, Node};
use mc_core::{catch, cov, json, Ctx, Level, Value};
use pallas_traverse::{MultiEraBlock, MultiEraTx};
use rayon::prelude::*;
use std::collections::{BTreeMap, BTreeSet};

#[derive(Default, Clone)]
pub struct TxStats {
    pub valid: u64,
    pub invalid: u64,
    pub dup_inputs: u64,
    pub dup_collateral: u64,
    pub invalid_with_return: u64,
    pub invalid_without_return: u64,
}

impl TxStats {
    fn add(&mut self, o: &TxStats) {
        self.valid += o.valid;
        self.invalid += o.invalid;
        self.dup_inputs += o.dup_inputs;
        self.dup_collateral += o.dup_collateral;
        self.invalid_with_return += o.invalid_with_return;
        self.invalid_without_return += o.invalid_without_return;
    }
}

fn has_dup<T: Ord + Clone>(v: &[T]) -> bool {
    let s: BTreeSet<T> = v.iter().cloned().collect();
    s.len() != v.len()
}

/// The oracle: compare the UTxO effects reported by the real MultiEraTx with
/// those that follow from the reference view of the same bytes.
pub fn check_tx(tx: &MultiEraTx, rt: &RefTx, label: &str, problems: &mut Vec<Problem>, st: &mut TxStats) {
    let mut p = |fp: &str, what: String| problems.push(Problem { fp: fp.to_string(), what: format!("{label}: {what}") });
    let key = |i: &corpus::RefInput| -> InKey { (i.tx.clone(), i.index) };
    let ref_inputs: Vec<InKey> = rt.inputs.iter().map(key).collect();
    let ref_coll: Vec<InKey> = rt.collateral.iter().map(key).collect();
    let n = rt.outputs.len();
    if has_dup(&ref_inputs) {
        st.dup_inputs += 1;
    }

    // ---- consumes
    let cons: Vec<InKey> = tx.consumes().iter().map(obs::in_key).collect();
    let cons_set: BTreeSet<InKey> = cons.iter().cloned().collect();
    if cons_set.len() != cons.len() {
        p("consumes:same-input-more-than-once", format!("consumes() lists an input twice ({} entries, {} distinct)", cons.len(), cons_set.len()));
    }
    if rt.valid {
        st.valid += 1;
        let exp: BTreeSet<InKey> = ref_inputs.iter().cloned().collect();
        if cons_set != exp {
            p("consumes:valid-tx-not-its-inputs", format!("valid tx: consumes() has {} distinct refs, the body has {} distinct inputs", cons_set.len(), exp.len()));
        }
    } else {
        st.invalid += 1;
        if has_dup(&ref_coll) {
            st.dup_collateral += 1;
        }
        let exp: BTreeSet<InKey> = ref_coll.iter().cloned().collect();
        if cons_set != exp {
            let inputs_set: BTreeSet<InKey> = ref_inputs.iter().cloned().collect();
            p(
                "consumes:invalid-tx-not-its-collateral",
                format!(
                    "invalid tx: consumes() has {} distinct refs{}, the body has {} distinct collateral inputs",
                    cons_set.len(),
                    if cons_set == inputs_set { " (= the regular inputs)" } else { "" },
                    exp.len()
                ),
            );
        }
    }

    // ---- produces
    let prod: Vec<(usize, OutSig)> = tx.produces().iter().map(|(i, o)| (*i, obs::out_sig(o))).collect();
    let expected: Vec<(usize, OutSig)> = if rt.valid {
        rt.outputs.iter().enumerate().map(|(i, o)| (i, obs::ref_sig(o))).collect()
    } else {
        match &rt.collateral_return {
            Some(o) => {
                st.invalid_with_return += 1;
                vec![(n, obs::ref_sig(o))]
            }
            None => {
                st.invalid_without_return += 1;
                vec![]
            }
        }
    };
    let mut ps = prod.clone();
    ps.sort();
    let mut es = expected.clone();
    es.sort();
    if ps != es {
        let idx: Vec<usize> = prod.iter().map(|x| x.0).collect();
        let eidx: Vec<usize> = expected.iter().map(|x| x.0).collect();
        if rt.valid {
            p("produces:valid-tx-not-its-outputs", format!("valid tx with {n} outputs: produces() indices {idx:?}, expected {eidx:?} with the outputs' address and coin"));
        } else {
            p(
                "produces:invalid-tx-not-only-collateral-return",
                format!("invalid tx with {n} outputs, collateral return {}: produces() indices {idx:?}, expected {eidx:?}", if rt.collateral_return.is_some() { "present" } else { "absent" }),
            );
        }
    }

    // ---- produces_at agrees with produces
    for j in 0..=n + 1 {
        let at = tx.produces_at(j).map(|o| obs::out_sig(&o));
        let listed: Vec<&OutSig> = prod.iter().filter(|(i, _)| *i == j).map(|(_, s)| s).collect();
        let agrees = match (&at, listed.as_slice()) {
            (None, []) => true,
            (Some(a), [l]) => a == *l,
            _ => false,
        };
        if !agrees {
            p("produces_at:disagrees-with-produces", format!("produces_at({j}) is {} but produces() lists {} entries at that index", if at.is_some() { "Some" } else { "None" }, listed.len()));
        }
    }

    // ---- inputs_sorted_set
    let ss: Vec<InKey> = tx.inputs_sorted_set().iter().map(obs::in_key).collect();
    if ss.windows(2).any(|w| w[0] >= w[1]) {
        p("inputs_sorted_set:not-strictly-increasing", format!("inputs_sorted_set() is not strictly increasing in (tx id, index): {} entries", ss.len()));
    }
    let sset: BTreeSet<InKey> = ss.iter().cloned().collect();
    let exp: BTreeSet<InKey> = ref_inputs.iter().cloned().collect();
    if sset != exp {
        p("inputs_sorted_set:not-the-input-set", format!("inputs_sorted_set() has {} distinct refs, the body has {} distinct inputs", sset.len(), exp.len()));
    }
}

struct CaseOut {
    problems: Vec<Problem>,
    rejected: bool,
    stats: TxStats,
    txs: u64,
}

fn run_block(bytes: &[u8], label: &str) -> Result<CaseOut, String> {
    let rb = corpus::ref_block(bytes)?;
    let mut out = CaseOut { problems: vec![], rejected: false, stats: TxStats::default(), txs: 0 };
    let r = catch(|| {
        let block = match MultiEraBlock::decode(bytes) {
            Ok(b) => b,
            Err(_) => return None,
        };
        let mut problems = vec![];
        let mut st = TxStats::default();
        let txs = block.txs();
        if txs.len() != rb.txs.len() {
            problems.push(Problem { fp: "txs:length-differs-from-bodies".into(), what: format!("{label}: txs() yields {} transactions for {} bodies", txs.len(), rb.txs.len()) });
        }
        for (i, (tx, rt)) in txs.iter().zip(rb.txs.iter()).enumerate() {
            check_tx(tx, rt, &format!("{label} tx {i}"), &mut problems, &mut st);
        }
        Some((problems, st, txs.len() as u64))
    });
    match r {
        Err(pn) => out.problems.push(Problem { fp: pn.site(), what: format!("{label}: panicked: {} at {}", pn.message, pn.location) }),
        Ok(None) => out.rejected = true,
        Ok(Some((pr, st, n))) => {
            out.problems = pr;
            out.stats = st;
            out.txs = n;
        }
    }
    Ok(out)
}

#[derive(Clone, Copy, Debug, PartialEq, Eq, PartialOrd, Ord)]
enum Flags {
    AsIs,
    AllValid,
    AllInvalid,
    Only(usize),
    AllBut(usize),
}

#[derive(Clone, Copy, Debug, PartialEq, Eq, PartialOrd, Ord)]
enum Ret {
    AsIs,
    Present,
    Absent,
}

#[derive(Clone, Copy, Debug, PartialEq, Eq, PartialOrd, Ord)]
struct Variant {
    dup_inputs: bool,
    synth_collateral: bool,
    ret: Ret,
    flags: Flags,
}

impl Variant {
    fn is_base(&self) -> bool {
        !self.dup_inputs && !self.synth_collateral && self.ret == Ret::AsIs && self.flags == Flags::AsIs
    }
    fn to_json(&self) -> Value {
        json!({"dup_inputs": self.dup_inputs, "synthetic_collateral": self.synth_collateral, "collateral_return": format!("{:?}", self.ret), "flags": format!("{:?}", self.flags)})
    }
}

fn rewrite_body(body: &mut Node, v: &Variant, era_tag: u64, byron: bool) {
    if byron {
        // byron tx = [inputs, outputs, attributes]
        if v.dup_inputs {
            if let Some(items) = body.as_array_mut() {
                if let Some(arr) = items.get_mut(0) {
                    if let Some(list) = arr.as_array_mut() {
                        if !list.is_empty() {
                            let first = list[0].clone();
                            let last = list[list.len() - 1].clone();
                            list.reverse();
                            list.insert(0, first);
                            list.push(last);
                        }
                    }
                    rewrite::fix_width(arr);
                }
            }
        }
        return;
    }
    if v.dup_inputs {
        rewrite::dup_inputs(body, 0);
    }
    if v.synth_collateral && era_tag >= 5 {
        rewrite::synthetic_collateral(body);
    }
    if era_tag >= 6 {
        match v.ret {
            Ret::AsIs => {}
            Ret::Present => {
                rewrite::add_collateral_return(body, 777_777_001);
            }
            Ret::Absent => rewrite::map_remove(body, 16),
        }
    }
}

fn variant_block(base: &[u8], era_tag: u64, n: usize, v: &Variant) -> Vec<u8> {
    let mut ast = BlockAst::parse(base).unwrap();
    if era_tag == 1 {
        // [header, [tx_payload, ..], extra]; tx_payload = [[tx, witnesses], ..]
        let items = ast.block_items();
        if let Some(body) = items[1].as_array_mut() {
            if let Some(payload) = body[0].as_array_mut() {
                for pair in payload.iter_mut() {
                    if let Some(p) = pair.as_array_mut() {
                        rewrite_body(&mut p[0], v, era_tag, true);
                    }
                }
            }
        }
        return ast.to_vec();
    }
    {
        let items = ast.block_items();
        if let Some(bodies) = items[1].as_array_mut() {
            for b in bodies.iter_mut() {
                rewrite_body(b, v, era_tag, false);
            }
        }
    }
    if era_tag >= 5 {
        match v.flags {
            Flags::AsIs => {}
            Flags::AllValid => ast.set_invalid(&[]),
            Flags::AllInvalid => ast.set_invalid(&(0..n as u64).collect::<Vec<_>>()),
            Flags::Only(i) => ast.set_invalid(&[i as u64]),
            Flags::AllBut(i) => ast.set_invalid(&(0..n as u64).filter(|j| *j != i as u64).collect::<Vec<_>>()),
        }
    }
    ast.to_vec()
}

fn variants_for(era_tag: u64, n: usize, single_flips: bool) -> Vec<Variant> {
    let mut out = vec![];
    let flags: Vec<Flags> = if era_tag >= 5 {
        let mut f = vec![Flags::AsIs, Flags::AllValid, Flags::AllInvalid];
        if single_flips && n >= 2 {
            for i in 0..n {
                f.push(Flags::Only(i));
                f.push(Flags::AllBut(i));
            }
        }
        f
    } else {
        vec![Flags::AsIs]
    };
    let colls: &[bool] = if era_tag >= 5 { &[false, true] } else { &[false] };
    let rets: &[Ret] = if era_tag >= 6 { &[Ret::AsIs, Ret::Present, Ret::Absent] } else { &[Ret::AsIs] };
    for &dup_inputs in &[false, true] {
        for &synth_collateral in colls {
            for &ret in rets {
                for &fl in &flags {
                    // single flips only on the fully rewritten and the untouched body
                    if matches!(fl, Flags::Only(_) | Flags::AllBut(_)) && !((dup_inputs && synth_collateral) || (!dup_inputs && !synth_collateral && ret == Ret::AsIs)) {
                        continue;
                    }
                    out.push(Variant { dup_inputs, synth_collateral, ret, flags: fl });
                }
            }
        }
    }
    out
}

pub fn run(ctx: Ctx) -> ! {
    let mut blocks: Vec<Artefact> = corpus::block_files();
    blocks.extend(corpus::chunk_blocks());
    let mut evals = 0u64;
    let mut nontrivial: BTreeSet<String> = BTreeSet::new();
    let mut samples: Vec<Value> = vec![];
    let mut stats = TxStats::default();
    let mut txs_total = 0u64;
    let mut rejected_real: Vec<String> = vec![];
    let mut rejected_variants = 0u64;
    let mut accepted_variants = 0u64;
    let mut by_era: BTreeMap<&'static str, u64> = BTreeMap::new();

    // ---- blocks
    struct BlockRes {
        name: String,
        era_tag: u64,
        cases: Vec<(Variant, Result<CaseOut, String>, Option<String>)>,
    }
    let thorough = ctx.thorough;
    let results: Vec<BlockRes> = blocks
        .par_iter()
        .map(|a| {
            let rb = match corpus::ref_block(&a.bytes) {
                Ok(r) => r,
                Err(e) => mc_core::report::machinery_failure(&format!("reference reader cannot view {}: {e}", a.name)),
            };
            let n = rb.txs.len();
            let mut cases = vec![];
            if n == 0 {
                return BlockRes { name: a.name.clone(), era_tag: rb.era_tag, cases };
            }
            let is_file = !a.name.contains('#');
            for v in variants_for(rb.era_tag, n, thorough || is_file) {
                let bytes = if v.is_base() { a.bytes.clone() } else { variant_block(&a.bytes, rb.era_tag, n, &v) };
                let label = if v.is_base() { a.name.clone() } else { format!("{} {:?}", a.name, v) };
                let r = run_block(&bytes, &label);
                let keep = match &r {
                    Ok(o) if !o.problems.is_empty() => Some(hex::encode(&bytes)),
                    _ => None,
                };
                cases.push((v, r, keep));
            }
            BlockRes { name: a.name.clone(), era_tag: rb.era_tag, cases }
        })
        .collect();
    for br in results.iter() {
        for (v, r, bytes) in br.cases.iter() {
            evals += 1;
            let o = match r {
                Ok(o) => o,
                Err(e) => mc_core::report::machinery_failure(&format!("variant {v:?} of {} unreadable by the reference: {e}", br.name)),
            };
            if o.rejected {
                if v.is_base() {
                    rejected_real.push(br.name.clone());
                } else {
                    rejected_variants += 1;
                }
                continue;
            }
            if !v.is_base() {
                accepted_variants += 1;
            }
            for p in &o.problems {
                ctx.violation(p.fp.clone(), p.what.clone(), json!({"block": br.name, "era_tag": br.era_tag, "variant": v.to_json(), "block_hex": bytes}));
            }
            stats.add(&o.stats);
            txs_total += o.txs;
            *by_era.entry(corpus::era_name(br.era_tag)).or_default() += o.txs;
            nontrivial.insert(format!("{}|{:?}", br.name, v));
            if samples.len() < 6 && o.txs >= 2 && (evals % 1009 == 7 || samples.is_empty()) {
                samples.push(json!({"block": br.name, "era_tag": br.era_tag, "variant": v.to_json(), "txs": o.txs}));
            }
        }
    }

    // ---- stand-alone transactions
    let mut tx_rejected: Vec<String> = vec![];
    let mut tx_cases = 0u64;
    for a in corpus::tx_files() {
        let (shape, _) = match corpus::ref_tx(&a.bytes) {
            Ok(x) => x,
            Err(e) => mc_core::report::machinery_failure(&format!("reference reader cannot view {}: {e}", a.name)),
        };
        let era_tag = match shape {
            TxShape::Byron => 1,
            TxShape::ShelleyMa => 4,
            TxShape::AlonzoPlus => 7,
        };
        let mut variants = vec![];
        for v in variants_for(era_tag, 1, false) {
            variants.push(v);
        }
        for v in variants {
            // rewrite on the AST of the stand-alone tx
            let mut root = rewrite::strip_spans(refcbor::parse_one(&a.bytes).unwrap());
            {
                let items = root.as_array_mut().unwrap();
                rewrite_body(&mut items[0], &v, era_tag, shape == TxShape::Byron);
                if shape == TxShape::AlonzoPlus {
                    match v.flags {
                        Flags::AllValid => items[2] = Node::bool(true),
                        Flags::AllInvalid => items[2] = Node::bool(false),
                        _ => {}
                    }
                }
            }
            let bytes = if v.is_base() { a.bytes.clone() } else { root.to_vec() };
            let (_, rt) = match corpus::ref_tx(&bytes) {
                Ok(x) => x,
                Err(e) => mc_core::report::machinery_failure(&format!("variant {v:?} of {} unreadable by the reference: {e}", a.name)),
            };
            evals += 1;
            tx_cases += 1;
            let label = format!("{} {:?}", a.name, v);
            let r = catch(|| {
                let tx = match MultiEraTx::decode(&bytes) {
                    Ok(t) => t,
                    Err(_) => return None,
                };
                let mut problems = vec![];
                let mut st = TxStats::default();
                // a collateral return exists only from Babbage on: a variant that
                // adds one to a tx which pallas reads as an earlier era is not a legal input
                let pre_babbage = tx.era() < pallas_traverse::Era::Babbage;
                if !(pre_babbage && rt.collateral_return.is_some()) {
                    check_tx(&tx, &rt, &label, &mut problems, &mut st);
                }
                Some((problems, st, obs::era_str(tx.era())))
            });
            match r {
                Err(pn) => ctx.violation(pn.site(), format!("{label}: panicked: {} at {}", pn.message, pn.location), json!({"tx": a.name, "variant": v.to_json(), "tx_hex": hex::encode(&bytes)})),
                Ok(None) => {
                    if v.is_base() {
                        tx_rejected.push(a.name.clone());
                    } else {
                        rejected_variants += 1;
                    }
                }
                Ok(Some((problems, st, era))) => {
                    if !v.is_base() {
                        accepted_variants += 1;
                    }
                    for p in &problems {
                        ctx.violation(p.fp.clone(), p.what.clone(), json!({"tx": a.name, "decoded_as": era, "variant": v.to_json(), "tx_hex": hex::encode(&bytes)}));
                    }
                    stats.add(&st);
                    txs_total += 1;
                    nontrivial.insert(format!("{}|{:?}", a.name, v));
                }
            }
        }
    }

    for r in rejected_real.iter().chain(tx_rejected.iter()) {
        ctx.note(format!("{r} is rejected by the pallas decoder in the default feature set (not a C31 matter)"));
    }
    if rejected_real.len() + tx_rejected.len() > 6 {
        mc_core::report::machinery_failure(&format!("too many real artefacts rejected: {:?} {:?}", rejected_real, tx_rejected));
    }
    if stats.valid == 0 || stats.invalid == 0 || stats.dup_inputs == 0 || stats.dup_collateral == 0 || stats.invalid_with_return == 0 || stats.invalid_without_return == 0 {
        mc_core::report::machinery_failure("vacuous: some class of the grid (valid / invalid / duplicate inputs / duplicate collateral / with / without collateral return) was never reached");
    }
    if rejected_variants * 4 > accepted_variants {
        mc_core::report::machinery_failure(&format!("{rejected_variants} generated variants rejected by the decoder vs {accepted_variants} accepted"));
    }
    let cov = cov! {
        "evaluations" => evals,
        "distinct_nontrivial" => nontrivial.len(),
        "rule" => "evaluation = one block (or stand-alone tx) variant decoded by pallas-traverse, every transaction of it compared with the refcbor-derived effects (consumes, produces, produces_at(0..=n+1), inputs_sorted_set); non-trivial = distinct (artefact, variant) that pallas accepted and that was fully compared",
        "samples" => samples,
        "transactions_checked" => txs_total,
        "transactions_by_era" => by_era,
        "tx_valid" => stats.valid,
        "tx_invalid" => stats.invalid,
        "tx_with_duplicate_inputs" => stats.dup_inputs,
        "tx_invalid_with_duplicate_collateral" => stats.dup_collateral,
        "tx_invalid_with_collateral_return" => stats.invalid_with_return,
        "tx_invalid_without_collateral_return" => stats.invalid_without_return,
        "standalone_tx_cases" => tx_cases,
        "generated_accepted" => accepted_variants,
        "generated_rejected_by_decode" => rejected_variants,
        "real_rejected_by_decode" => rejected_real.iter().chain(tx_rejected.iter()).cloned().collect::<Vec<_>>(),
        "exhaustive" => true,
    };
    ctx.finish(
        Level::Exploration,
        cov,
        &[
            "expected effects are computed from the refcbor view of the same (rewritten) bytes: inputs = body key 0, outputs = key 1, collateral = key 13, collateral return = key 16, validity = block invalid list / tx bool",
            "outputs are identified by (address bytes, coin); the generated collateral return carries a coin that no other output has",
            "validity variants only for era tags >= 5, collateral-return variants only for tags >= 6; single-flip validity variants for chunk blocks only in the thorough tier",
        ],
    )
}
