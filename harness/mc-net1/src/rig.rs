//! Deterministic test rig for pallas-network agents: two real `Plexer`s joined
//! by an in-memory pipe (hook H1), their four real loops plus one driver
//! future, run by the owned scheduler with its default (deterministic)
//! schedule until the driver finishes or nothing can move.
//!
//! `Rig::new()` hands out `AgentChannel`s of both sides; `rig.drive(fut)` runs
//! `fut` to completion and returns `Some(output)`, or `None` if the system
//! went quiescent first (the future is blocked for ever: e.g. a `recv` with
//! nothing in flight).

use mc_core::sched::{self, Tasks};
use pallas_network::multiplexer::{AgentChannel, Bearer, Plexer};
use std::cell::RefCell;
use std::future::Future;
use std::rc::Rc;

pub struct Rig {
    pub a: Plexer,
    pub b: Plexer,
}

impl Rig {
    /// `pipe` = capacity in bytes of each direction of the in-memory bearer.
    pub fn new(pipe: usize) -> Rig {
        let (pa, pb) = tokio::io::duplex(pipe);
        Rig { a: Plexer::new(Bearer::Mem(pa)), b: Plexer::new(Bearer::Mem(pb)) }
    }

    /// Client channel on side A and the matching server channel on side B.
    pub fn pair(&mut self, protocol: u16) -> (AgentChannel, AgentChannel) {
        (self.a.subscribe_client(protocol), self.b.subscribe_server(protocol))
    }

    /// Start the four loops and run `driver` until it completes (Some) or the
    /// system is quiescent / the horizon is reached (None).
    pub fn drive<T: 'static>(self, driver: impl Future<Output = T> + 'static) -> Option<T> {
        self.drive_with_horizon(driver, 200_000)
    }

    pub fn drive_with_horizon<T: 'static>(self, driver: impl Future<Output = T> + 'static, horizon: usize) -> Option<T> {
        let (mut da, mut ma) = self.a.into_parts();
        let (mut db, mut mb) = self.b.into_parts();
        let mut tasks = Tasks::new();
        let out: Rc<RefCell<Option<T>>> = Rc::new(RefCell::new(None));
        let o = out.clone();
        // driver first: the default scheduler keeps running it while it can
        tasks.spawn("driver", async move {
            let v = driver.await;
            *o.borrow_mut() = Some(v);
        });
        tasks.spawn("muxA", async move {
            let _ = ma.run().await;
        });
        tasks.spawn("demuxB", async move {
            let _ = db.run().await;
        });
        tasks.spawn("muxB", async move {
            let _ = mb.run().await;
        });
        tasks.spawn("demuxA", async move {
            let _ = da.run().await;
        });
        // stop as soon as the driver is done: run in slices
        let _ = sched::run_until(tasks, horizon, &|| out.borrow().is_some());
        let r = out.borrow_mut().take();
        r
    }
}
