//! C20, pallas-network2 interface: the REAL `TcpInterface` (command dispatch,
//! `FuturesUnordered` of per-message send futures, shared writer) over an
//! in-memory bearer (hooks H2 + H6), inside a current-thread tokio runtime, so
//! that the runtime's cooperative budget - part of what decides which queued
//! send reaches the writer first - is the real one.
//!
//! GRID, complete over: queue shape x size of the first large message (in
//! segments) x pipe capacity. The runtime is single-threaded and timer-free on
//! the success path, so each configuration has exactly one execution (every
//! configuration is run twice and must give identical observations).
//! Oracle: per mini-protocol, the messages arrive exactly once and in the
//! order of the `InterfaceCommand::Send` calls.

use mc_core::{json, Ctx, Value};
use pallas_network2::bearer::Bearer;
use pallas_network2::behavior::AnyMessage;
use pallas_network2::interface::TcpInterface;
use pallas_network2::protocol as proto;
use pallas_network2::{Interface, InterfaceCommand, InterfaceEvent, Message as _, PeerId};
use std::collections::{BTreeMap, HashMap};

pub struct PartResult {
    pub configs: u64,
    pub messages: u64,
    pub outcomes: BTreeMap<String, u64>,
    pub per_config: Vec<Value>,
    pub samples: Vec<Value>,
}

const SEG: usize = 65535;

fn block(segments: usize, salt: u8) -> AnyMessage {
    // payload = [4, bytes(n)] = n + 7 bytes for n >= 65536, n + 5 for n < 65536
    let n = segments * SEG - 1000;
    AnyMessage::BlockFetch(proto::blockfetch::Message::Block((0..n).map(|i| (i as u8).wrapping_mul(31).wrapping_add(salt)).collect()))
}

fn ka(c: u16) -> AnyMessage {
    AnyMessage::KeepAlive(proto::keepalive::Message::KeepAlive(c))
}

struct Shape {
    name: &'static str,
    build: fn(usize) -> Vec<AnyMessage>,
    /// `Disconnect` is dispatched right behind the last `Send`: everything queued before it
    /// must still be delivered, in order, before the stream is shut down
    disconnect: bool,
}

fn shapes() -> Vec<Shape> {
    vec![
        Shape {
            name: "Q1-batch-on-one-protocol: StartBatch, Block(A), Block(B, 2 segments), BatchDone",
            build: |s| vec![AnyMessage::BlockFetch(proto::blockfetch::Message::StartBatch), block(s, 1), block(2, 2), AnyMessage::BlockFetch(proto::blockfetch::Message::BatchDone)],
            disconnect: false,
        },
        Shape { name: "Q2-two-protocols: Block(A), KeepAlive(1), Block(B, 2 segments), KeepAlive(2)", build: |s| vec![block(s, 3), ka(1), block(2, 4), ka(2)], disconnect: false },
        Shape {
            name: "Q4-sends-then-disconnect: Block(A), Block(B, 2 segments), ClientDone, KeepAlive Done, then Disconnect",
            build: |s| vec![block(s, 7), block(2, 8), AnyMessage::BlockFetch(proto::blockfetch::Message::ClientDone), AnyMessage::KeepAlive(proto::keepalive::Message::Done)],
            disconnect: true,
        },
        Shape {
            name: "Q3-many-small-then-order-matters: Block(A), 6 x Block(1 segment), BatchDone",
            build: |s| {
                let mut v = vec![block(s, 5)];
                for k in 0..6u8 {
                    v.push(block(1, 10 + k));
                }
                v.push(AnyMessage::BlockFetch(proto::blockfetch::Message::BatchDone));
                v
            },
            disconnect: false,
        },
    ]
}

#[derive(PartialEq, Debug, Clone)]
struct Obs {
    /// (channel, index of the message in the dispatch order or usize::MAX when unknown) in arrival order
    arrived: Vec<(u16, usize)>,
    sent_events: Vec<usize>,
    error: Option<String>,
}

fn execute(msgs: &[AnyMessage], pipe: usize, disconnect: bool) -> Obs {
    let rt = match tokio::runtime::Builder::new_current_thread().enable_time().build() {
        Ok(r) => r,
        Err(e) => mc_core::report::machinery_failure(&format!("C20 iface: cannot build a current-thread runtime: {e}")),
    };
    let payloads: Vec<(u16, Vec<u8>)> = msgs.iter().map(|m| (m.channel(), m.payload())).collect();
    let total = msgs.len();
    rt.block_on(async {
        use futures::StreamExt;
        let pid = PeerId { host: "mem".into(), port: 1 };
        let (a, b) = tokio::io::duplex(pipe);
        let mut iface = TcpInterface::<AnyMessage>::new();
        iface.verif_attach(pid.clone(), Bearer::Mem(a));
        let body = async {
            loop {
                match iface.next().await {
                    Some(InterfaceEvent::Connected(_)) => break,
                    Some(_) => {}
                    None => return Obs { arrived: vec![], sent_events: vec![], error: Some("interface stream ended before Connected".into()) },
                }
            }
            for m in msgs {
                iface.dispatch(InterfaceCommand::Send(pid.clone(), m.clone()));
            }
            if disconnect {
                iface.dispatch(InterfaceCommand::Disconnect(pid.clone()));
            }
            let pl = payloads.clone();
            let reader = tokio::spawn(async move {
                let (mut rb, _wb) = Bearer::Mem(b).into_split();
                let mut partial: HashMap<u16, Vec<u8>> = HashMap::new();
                let mut arrived = vec![];
                while arrived.len() < total {
                    match rb.read_full_msgs::<AnyMessage>(&mut partial).await {
                        Ok(ms) => {
                            for m in ms {
                                let key = (m.channel(), m.payload());
                                arrived.push((key.0, pl.iter().position(|p| *p == key).unwrap_or(usize::MAX)));
                            }
                        }
                        // after a Disconnect the stream ends: what arrived until then is the observation
                        Err(_) if disconnect => return (arrived, None),
                        Err(e) => return (arrived, Some(format!("reader: {e}"))),
                    }
                }
                (arrived, None)
            });
            let mut sent_events = vec![];
            let mut error = None;
            let mut disconnected = false;
            while (!disconnect && sent_events.len() < total) || (disconnect && !disconnected) {
                match iface.next().await {
                    Some(InterfaceEvent::Disconnected(_)) => disconnected = true,
                    Some(InterfaceEvent::Sent(_, m)) => {
                        let key = (m.channel(), m.payload());
                        sent_events.push(payloads.iter().position(|p| *p == key).unwrap_or(usize::MAX));
                    }
                    Some(InterfaceEvent::Error(_, e)) => {
                        error = Some(format!("interface error: {e:?}"));
                        break;
                    }
                    Some(_) => {}
                    None => {
                        error = Some("interface stream ended".into());
                        break;
                    }
                }
            }
            let (arrived, rerr) = match reader.await {
                Ok(x) => x,
                Err(e) => (vec![], Some(format!("reader task: {e}"))),
            };
            Obs { arrived, sent_events, error: error.or(rerr) }
        };
        match tokio::time::timeout(std::time::Duration::from_secs(60), body).await {
            Ok(o) => o,
            Err(_) => Obs { arrived: vec![], sent_events: vec![], error: Some("stalled: not all messages were delivered within 60 s".into()) },
        }
    })
}

/// Two peers on one interface: sends are dispatched alternately; each peer's pipe must carry
/// exactly its own messages, in dispatch order (operations of one peer wait only for that peer).
/// Returns per peer the arrival order as indices into its own dispatch list, or an error.
fn execute_two_peers(per_peer: &[Vec<AnyMessage>; 2], pipe: usize) -> Result<[Vec<usize>; 2], String> {
    let rt = match tokio::runtime::Builder::new_current_thread().enable_time().build() {
        Ok(r) => r,
        Err(e) => mc_core::report::machinery_failure(&format!("C20 iface: cannot build a current-thread runtime: {e}")),
    };
    rt.block_on(async {
        use futures::StreamExt;
        let pids = [PeerId { host: "mem-a".into(), port: 1 }, PeerId { host: "mem-b".into(), port: 2 }];
        let mut iface = TcpInterface::<AnyMessage>::new();
        let mut far = vec![];
        for pid in &pids {
            let (a, b) = tokio::io::duplex(pipe);
            iface.verif_attach(pid.clone(), Bearer::Mem(a));
            far.push(b);
        }
        let body = async {
            let mut connected = 0;
            while connected < 2 {
                match iface.next().await {
                    Some(InterfaceEvent::Connected(_)) => connected += 1,
                    Some(_) => {}
                    None => return Err("interface stream ended before Connected".to_string()),
                }
            }
            let n = per_peer[0].len().max(per_peer[1].len());
            for i in 0..n {
                for p in 0..2 {
                    if let Some(m) = per_peer[p].get(i) {
                        iface.dispatch(InterfaceCommand::Send(pids[p].clone(), m.clone()));
                    }
                }
            }
            let mut readers = vec![];
            for (p, b) in far.into_iter().enumerate() {
                let mine: Vec<(u16, Vec<u8>)> = per_peer[p].iter().map(|m| (m.channel(), m.payload())).collect();
                readers.push(tokio::spawn(async move {
                    let (mut rb, _wb) = Bearer::Mem(b).into_split();
                    let mut partial: HashMap<u16, Vec<u8>> = HashMap::new();
                    let mut arrived = vec![];
                    while arrived.len() < mine.len() {
                        match rb.read_full_msgs::<AnyMessage>(&mut partial).await {
                            Ok(ms) => {
                                for m in ms {
                                    let key = (m.channel(), m.payload());
                                    arrived.push(mine.iter().position(|x| *x == key).unwrap_or(usize::MAX));
                                }
                            }
                            Err(e) => return Err(format!("reader {p}: {e}")),
                        }
                    }
                    // the far end stays open until the run is over (closing it early would be
                    // an EOF on the interface's read side, an event of its own)
                    Ok((arrived, rb, _wb))
                }));
            }
            let total = per_peer[0].len() + per_peer[1].len();
            let mut sent = 0;
            while sent < total {
                match iface.next().await {
                    Some(InterfaceEvent::Sent(..)) => sent += 1,
                    Some(InterfaceEvent::Error(_, e)) => return Err(format!("interface error: {e:?}")),
                    Some(_) => {}
                    None => return Err("interface stream ended".to_string()),
                }
            }
            let mut out: [Vec<usize>; 2] = [vec![], vec![]];
            let mut keep = vec![];
            for (p, r) in readers.into_iter().enumerate() {
                let (arrived, rb, wb) = r.await.map_err(|e| format!("reader task: {e}"))??;
                out[p] = arrived;
                keep.push((rb, wb));
            }
            Ok(out)
        };
        match tokio::time::timeout(std::time::Duration::from_secs(60), body).await {
            Ok(o) => o,
            Err(_) => Err("stalled: not all messages were delivered within 60 s".to_string()),
        }
    })
}

/// Grid of two-peer configurations; returns (configurations, messages).
pub fn run_two_peers(ctx: &Ctx) -> (u64, u64) {
    use rayon::prelude::*;
    let segs: &[usize] = if ctx.thorough { &[1, 2, 64, 65, 129, 200] } else { &[2, 65, 129] };
    let pipes: &[usize] = &[4096, 1 << 26];
    let mut jobs = vec![];
    for &s0 in segs {
        for &s1 in segs {
            for &p in pipes {
                jobs.push((s0, s1, p));
            }
        }
    }
    let n: Vec<u64> = jobs
        .par_iter()
        .map(|&(s0, s1, pipe)| {
            let per_peer = [
                vec![AnyMessage::BlockFetch(proto::blockfetch::Message::StartBatch), block(s0, 21), block(2, 22), AnyMessage::BlockFetch(proto::blockfetch::Message::BatchDone), ka(5)],
                vec![block(s1, 31), ka(6), block(1, 32), AnyMessage::BlockFetch(proto::blockfetch::Message::BatchDone)],
            ];
            let r1 = execute_two_peers(&per_peer, pipe);
            let r2 = execute_two_peers(&per_peer, pipe);
            if r1 != r2 {
                mc_core::report::machinery_failure(&format!("C20 iface: two runs of the two-peer configuration ({s0}, {s1}, pipe {pipe}) differ"));
            }
            let case = json!({"stack": "network2", "part": "interface-two-peers", "segments": [s0, s1], "pipe": pipe});
            match r1 {
                Err(e) => {
                    let kind = if e.starts_with("stalled") { "stalled" } else { "error" };
                    ctx.violation(format!("C20:net2:iface2:{kind}"), format!("two peers, first messages of {s0} / {s1} segments, pipe {pipe}: {e}"), case);
                }
                Ok(arr) => {
                    for p in 0..2 {
                        // per channel of this peer: arrival order = dispatch order
                        let mut want: BTreeMap<u16, Vec<usize>> = BTreeMap::new();
                        for (i, m) in per_peer[p].iter().enumerate() {
                            want.entry(m.channel()).or_default().push(i);
                        }
                        let mut got: BTreeMap<u16, Vec<usize>> = BTreeMap::new();
                        for &i in &arr[p] {
                            let ch = per_peer[p].get(i).map(|m| m.channel()).unwrap_or(u16::MAX);
                            got.entry(ch).or_default().push(i);
                        }
                        if got != want {
                            ctx.violation(
                                "C20:net2:iface2:delivery".to_string(),
                                format!("two peers, first messages of {s0} / {s1} segments, pipe {pipe}: peer {p} received {got:?}, dispatched {want:?} (usize::MAX = a message that was not dispatched to this peer)"),
                                case.clone(),
                            );
                        }
                    }
                }
            }
            (per_peer[0].len() + per_peer[1].len()) as u64
        })
        .collect();
    (n.len() as u64, n.iter().sum())
}

pub fn run_part(ctx: &Ctx) -> PartResult {
    use rayon::prelude::*;
    let segs: &[usize] = if ctx.thorough { &[1, 2, 3, 31, 32, 33, 63, 64, 65, 127, 128, 129, 130, 200, 300] } else { &[1, 2, 32, 64, 65, 129, 200] };
    let pipes: &[usize] = if ctx.thorough { &[4096, 65543, 1 << 20, 1 << 26] } else { &[4096, 1 << 26] };
    let mut jobs = vec![];
    for (si, sh) in shapes().into_iter().enumerate() {
        for &s in segs {
            for &p in pipes {
                jobs.push((si, sh.name, sh.build, s, p, sh.disconnect));
            }
        }
    }
    let results: Vec<(Value, String, u64, Option<(String, String, Value)>)> = jobs
        .par_iter()
        .map(|(_si, name, build, s, p, disc)| {
            let msgs = build(*s);
            let o1 = execute(&msgs, *p, *disc);
            let o2 = execute(&msgs, *p, *disc);
            if o1 != o2 {
                mc_core::report::machinery_failure(&format!("C20 iface: two runs of {name} segments={s} pipe={p} differ (uncontrolled nondeterminism)"));
            }
            let case = json!({"stack": "network2", "part": "interface", "shape": name, "first_message_segments": s, "pipe": p});
            // oracle: per channel, arrival indices = dispatch indices of that channel, in order
            let mut want: BTreeMap<u16, Vec<usize>> = BTreeMap::new();
            for (i, m) in msgs.iter().enumerate() {
                want.entry(m.channel()).or_default().push(i);
            }
            let mut got: BTreeMap<u16, Vec<usize>> = BTreeMap::new();
            for (c, i) in &o1.arrived {
                got.entry(*c).or_default().push(*i);
            }
            let (class, viol) = if let Some(e) = &o1.error {
                let kind = if e.starts_with("stalled") { "stalled" } else { "error" };
                (kind.to_string(), Some((format!("C20:net2:iface:{kind}"), format!("{name}, first message of {s} segments, pipe {p}: {e}; arrived {:?}", o1.arrived), case.clone())))
            } else if got == want {
                ("in-order".to_string(), None)
            } else {
                let mut sorted = got.clone();
                for v in sorted.values_mut() {
                    v.sort();
                }
                let lost = got.values().map(|v| v.len()).sum::<usize>() < msgs.len() && got.iter().all(|(c, v)| want.get(c).map(|w| w.starts_with(v)).unwrap_or(false));
                if lost {
                    (
                        "lost-before-disconnect".to_string(),
                        Some((
                            "C20:net2:iface:queued-sends-lost-at-disconnect".to_string(),
                            format!("{name}, first message of {s} segments, pipe {p}: messages dispatched before Disconnect never arrived: dispatched {want:?}, arrived {got:?}"),
                            case.clone(),
                        )),
                    )
                } else if sorted == want {
                    (
                        "reordered".to_string(),
                        Some((
                            "C20:net2:iface:queued-sends-reordered".to_string(),
                            format!("{name}, first message of {s} segments, pipe {p}: messages queued with InterfaceCommand::Send on one mini-protocol arrived in another order: dispatch indices per channel {want:?}, arrival {got:?}"),
                            case.clone(),
                        )),
                    )
                } else {
                    (
                        "corrupt".to_string(),
                        Some(("C20:net2:iface:delivery-corrupt".to_string(), format!("{name}, first message of {s} segments, pipe {p}: delivered messages are not the dispatched ones: expected {want:?}, got {got:?}"), case.clone())),
                    )
                }
            };
            (json!({"shape": name, "first_message_segments": s, "pipe": p, "outcome": class, "arrival_order": o1.arrived.iter().map(|x| x.1).collect::<Vec<_>>(), "sent_event_order": o1.sent_events}), class, msgs.len() as u64, viol)
        })
        .collect();
    let mut res = PartResult { configs: 0, messages: 0, outcomes: BTreeMap::new(), per_config: vec![], samples: vec![] };
    for (v, class, n, viol) in results {
        res.configs += 1;
        res.messages += n;
        *res.outcomes.entry(class).or_default() += 1;
        if res.samples.len() < 2 {
            res.samples.push(v.clone());
        }
        res.per_config.push(v);
        if let Some((fp, what, case)) = viol {
            ctx.violation(fp, what, case);
        }
    }
    res
}
