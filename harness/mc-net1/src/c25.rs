//! C25 — handshake negotiation accepts only the highest common version.
//! GRID, complete over a small universe: every pair of version tables over 4
//! version numbers where each version is {absent, data A, data B(other magic)}
//! (thorough adds data C = A's magic with different non-magic fields,
//! D = A's magic in the two-field form). net1: the real
//! `handshake::Server::handshake` over the plexer rig, proposal injected raw,
//! reply read back from the wire. net2: the real `ResponderBehavior` receives
//! `Recv(Propose)`, outputs drained.

use mc_core::{catch, cov, json, Ctx, Level, Value};
use mc_net1::rig::Rig;
use pallas_network::miniprotocols::handshake as hs1;
use pallas_network::multiplexer::ChannelBuffer;
use pallas_network2::behavior::responder::handshake::{HandshakeResponder, HandshakeResponderConfig};
use pallas_network2::behavior::responder::ResponderBehavior;
use pallas_network2::behavior::AnyMessage;
use pallas_network2::protocol::handshake as hs2;
use pallas_network2::{Behavior, BehaviorOutput, InterfaceCommand, InterfaceEvent, PeerId};
use rayon::prelude::*;
use std::collections::{BTreeMap, BTreeSet};
use std::sync::atomic::{AtomicU64, Ordering};
use std::sync::Mutex;

const VERSIONS: [u64; 4] = [11, 12, 13, 14];
const VERSIONS5: [u64; 5] = [11, 12, 13, 14, 15];
const MAGIC_A: u64 = 764824073;
const MAGIC_B: u64 = 42;

/// (magic, initiator_only, peer_sharing, query)
type Data = (u64, bool, Option<u8>, Option<bool>);

fn data(opt: u8) -> Option<Data> {
    match opt {
        0 => None,
        1 => Some((MAGIC_A, false, Some(1), Some(false))),
        2 => Some((MAGIC_B, false, Some(1), Some(false))),
        3 => Some((MAGIC_A, true, Some(0), Some(false))),
        4 => Some((MAGIC_A, false, None, None)),
        // the two-field form on the OTHER network, and the four-field form with everything
        // switched off: the pair that differs in shape and in magic only
        5 => Some((MAGIC_B, false, None, None)),
        _ => Some((MAGIC_A, false, Some(0), Some(false))),
    }
}

type Table = BTreeMap<u64, Data>;

fn table(code: usize, opts: usize) -> Table {
    table_over(code, opts, &VERSIONS)
}

fn table_over(code: usize, opts: usize, versions: &[u64]) -> Table {
    let mut t = BTreeMap::new();
    let mut c = code;
    for &v in versions {
        if let Some(d) = data((c % opts) as u8) {
            t.insert(v, d);
        }
        c /= opts;
    }
    t
}

#[derive(Debug, Clone, PartialEq)]
enum Reply {
    Accept(u64, Data),
    VersionMismatch(Vec<u64>),
    RefusedOther(String),
    Other(String),
}

fn net1_table(t: &Table) -> hs1::n2n::VersionTable {
    hs1::n2n::VersionTable { values: t.iter().map(|(k, d)| (*k, hs1::n2n::VersionData::new(d.0, d.1, d.2, d.3))).collect() }
}

fn run_net1(client: &Table, server: &Table) -> Result<(Reply, Option<(u64, Data)>), String> {
    let mut rig = Rig::new(4096);
    let (cch, sch) = rig.pair(0);
    let ct = net1_table(client);
    let st = net1_table(server);
    let out = rig.drive(async move {
        let mut raw = ChannelBuffer::new(cch);
        let mut srv = hs1::N2NServer::new(sch);
        raw.send_msg_chunks(&hs1::Message::<hs1::n2n::VersionData>::Propose(ct)).await.map_err(|e| format!("raw send: {e}"))?;
        let r = srv.handshake(st).await.map_err(|e| format!("server.handshake: {e}"))?;
        let reply: hs1::Message<hs1::n2n::VersionData> = raw.recv_full_msg().await.map_err(|e| format!("raw recv: {e}"))?;
        Ok::<_, String>((r, reply, srv.is_done()))
    });
    let (r, reply, done) = out.ok_or_else(|| "handshake blocked (system quiescent)".to_string())??;
    if !done {
        return Err("server not in Done state after handshake".into());
    }
    let conv = |d: &hs1::n2n::VersionData| (d.network_magic, d.initiator_only_diffusion_mode, d.peer_sharing, d.query);
    let reply = match reply {
        hs1::Message::Accept(v, d) => Reply::Accept(v, conv(&d)),
        hs1::Message::Refuse(hs1::RefuseReason::VersionMismatch(l)) => Reply::VersionMismatch(l),
        hs1::Message::Refuse(o) => Reply::RefusedOther(format!("{o:?}")),
        o => Reply::Other(format!("{o:?}")),
    };
    Ok((reply, r.map(|(v, d)| (v, conv(&d)))))
}

// ---- node-to-client data of pallas-network: (magic, query flag or none = bare-magic form)

fn n2c_data(d: &Data) -> hs1::n2c::VersionData {
    hs1::n2c::VersionData::new(d.0, d.3)
}

/// The fields of n2c version data are private: read them back from the encoding
/// (a bare unsigned magic, or `[magic, query]`).
fn n2c_view(d: &hs1::n2c::VersionData) -> Result<Data, String> {
    let b = minicbor::to_vec(d).map_err(|e| format!("cannot encode n2c version data: {e}"))?;
    let n = mc_core::refcbor::parse_one(&b).map_err(|e| format!("n2c version data is not CBOR: {e:?}"))?;
    if let Some(m) = n.as_u64() {
        return Ok((m, false, None, None));
    }
    let a = n.as_array().ok_or("n2c version data: neither uint nor array")?;
    let m = a.first().and_then(|x| x.as_u64()).ok_or("n2c version data: magic")?;
    let q = match a.get(1).map(|x| x.span(&b)) {
        Some([0xf5]) => true,
        Some([0xf4]) => false,
        _ => return Err("n2c version data: query flag".into()),
    };
    Ok((m, false, None, Some(q)))
}

fn run_net1_n2c(client: &Table, server: &Table) -> Result<(Reply, Option<(u64, Data)>), String> {
    let mut rig = Rig::new(4096);
    let (cch, sch) = rig.pair(0);
    let mk = |t: &Table| hs1::n2c::VersionTable { values: t.iter().map(|(k, d)| (*k, n2c_data(d))).collect() };
    let (ct, st) = (mk(client), mk(server));
    let out = rig.drive(async move {
        let mut raw = ChannelBuffer::new(cch);
        let mut srv = hs1::N2CServer::new(sch);
        raw.send_msg_chunks(&hs1::Message::<hs1::n2c::VersionData>::Propose(ct)).await.map_err(|e| format!("raw send: {e}"))?;
        let r = srv.handshake(st).await.map_err(|e| format!("server.handshake: {e}"))?;
        let reply: hs1::Message<hs1::n2c::VersionData> = raw.recv_full_msg().await.map_err(|e| format!("raw recv: {e}"))?;
        Ok::<_, String>((r, reply, srv.is_done()))
    });
    let (r, reply, done) = out.ok_or_else(|| "handshake blocked (system quiescent)".to_string())??;
    if !done {
        return Err("server not in Done state after handshake".into());
    }
    let reply = match reply {
        hs1::Message::Accept(v, d) => Reply::Accept(v, n2c_view(&d)?),
        hs1::Message::Refuse(hs1::RefuseReason::VersionMismatch(l)) => Reply::VersionMismatch(l),
        hs1::Message::Refuse(o) => Reply::RefusedOther(format!("{o:?}")),
        o => Reply::Other(format!("{o:?}")),
    };
    let acc = match r {
        Some((v, d)) => Some((v, n2c_view(&d)?)),
        None => None,
    };
    Ok((reply, acc))
}

/// n2c data options: {absent, A/false, B/false, A/true, A bare, B bare}
fn data_n2c(opt: u8) -> Option<Data> {
    match opt {
        0 => None,
        1 => Some((MAGIC_A, false, None, Some(false))),
        2 => Some((MAGIC_B, false, None, Some(false))),
        3 => Some((MAGIC_A, false, None, Some(true))),
        4 => Some((MAGIC_A, false, None, None)),
        _ => Some((MAGIC_B, false, None, None)),
    }
}

fn run_net2(client: &Table, server: &Table) -> Result<(Reply, Option<(u64, Data)>), String> {
    let mk = |t: &Table| hs2::n2n::VersionTable { values: t.iter().map(|(k, d)| (*k, hs2::n2n::VersionData::new(d.0, d.1, d.2, d.3))).collect() };
    let mut b = ResponderBehavior::default();
    b.handshake = HandshakeResponder::new(HandshakeResponderConfig { supported_version: mk(server) });
    let pid = PeerId { host: "10.0.0.1".into(), port: 3001 };
    let waker = futures::task::noop_waker();
    let mut cx = std::task::Context::from_waker(&waker);
    let mut drain = |b: &mut ResponderBehavior| {
        let mut v = vec![];
        while let std::task::Poll::Ready(Some(o)) = futures::StreamExt::poll_next_unpin(b, &mut cx) {
            v.push(o);
        }
        v
    };
    b.handle_io(InterfaceEvent::Connected(pid.clone()));
    let _ = drain(&mut b);
    b.handle_io(InterfaceEvent::Recv(pid.clone(), vec![AnyMessage::Handshake(hs2::Message::Propose(mk(client)))]));
    let outs = drain(&mut b);
    let conv = |d: &hs2::n2n::VersionData| (d.network_magic, d.initiator_only_diffusion_mode, d.peer_sharing, d.query);
    let mut replies = vec![];
    let mut init = None;
    for o in outs {
        match o {
            BehaviorOutput::InterfaceCommand(InterfaceCommand::Send(p, AnyMessage::Handshake(m))) if p == pid => replies.push(match m {
                hs2::Message::Accept(v, d) => Reply::Accept(v, conv(&d)),
                hs2::Message::Refuse(hs2::RefuseReason::VersionMismatch(l)) => Reply::VersionMismatch(l),
                hs2::Message::Refuse(o) => Reply::RefusedOther(format!("{o:?}")),
                o => Reply::Other(format!("{o:?}")),
            }),
            BehaviorOutput::ExternalEvent(pallas_network2::behavior::responder::ResponderEvent::PeerInitialized(p, (v, d))) if p == pid => init = Some((v, conv(&d))),
            _ => {}
        }
    }
    if replies.len() != 1 {
        return Err(format!("expected exactly one handshake reply, got {replies:?}"));
    }
    Ok((replies.remove(0), init))
}

fn oracle(client: &Table, server: &Table, reply: &Reply, accepted: &Option<(u64, Data)>) -> Result<&'static str, (String, String)> {
    let common: Vec<u64> = client.keys().filter(|k| server.contains_key(k)).cloned().collect();
    match reply {
        Reply::Accept(v, d) => {
            if !common.contains(v) {
                return Err(("accept-not-common".into(), format!("accepted version {v} is not offered by both sides")));
            }
            if let Some(h) = common.iter().max() {
                if h > v {
                    return Err(("accept-not-highest".into(), format!("accepted {v} although {h} is offered by both")));
                }
            }
            let (cm, sm) = (client[v].0, server[v].0);
            if cm != sm || d.0 != cm {
                return Err(("accept-magic-mismatch".into(), format!("accepted version {v}: client magic {cm}, server magic {sm}, accepted params magic {}", d.0)));
            }
            match accepted {
                Some((av, ad)) if av == v && ad == d => {}
                other => return Err(("accept-inconsistent".into(), format!("wire says Accept({v},{d:?}) but the responder reports {other:?}"))),
            }
            Ok("accept")
        }
        other => {
            if accepted.is_some() {
                return Err(("accept-inconsistent".into(), format!("responder reports acceptance {accepted:?} but the wire reply is {other:?}")));
            }
            if common.is_empty() {
                match other {
                    Reply::VersionMismatch(l) => {
                        let got: BTreeSet<u64> = l.iter().cloned().collect();
                        let want: BTreeSet<u64> = server.keys().cloned().collect();
                        if got != want || l.len() != want.len() {
                            return Err(("mismatch-list".into(), format!("VersionMismatch lists {l:?}, responder's versions are {want:?}")));
                        }
                        Ok("version-mismatch")
                    }
                    o => Err(("disjoint-not-mismatch".into(), format!("disjoint tables answered with {o:?}"))),
                }
            } else {
                // common versions exist but the responder did not accept: allowed
                Ok("refused-with-common-version")
            }
        }
    }
}

pub fn run(ctx: Ctx) -> ! {
    let opts: usize = if ctx.thorough { 7 } else { 3 };
    let n = opts.pow(VERSIONS.len() as u32);
    let evals = AtomicU64::new(0);
    let outcomes: Mutex<BTreeMap<String, u64>> = Default::default();
    let distinct: Mutex<BTreeSet<String>> = Default::default();
    let mut passes: Vec<(usize, Vec<u64>)> = vec![(opts, VERSIONS.to_vec())];
    if ctx.thorough {
        // a fifth version number with the three basic options
        passes.push((3, VERSIONS5.to_vec()));
    } else {
        // all seven data options (shapes x magics x switched-off parameters) on two versions
        passes.push((7, vec![13, 14]));
    }
    // node-to-client negotiation of pallas-network: every pair of tables over three n2c versions
    // (two in quick) x the six data options (both encodings of the version data x both magics)
    {
        let versions: Vec<u64> = if ctx.thorough { vec![32783, 32784, 32785] } else { vec![32783, 32784] };
        let pn = 6usize.pow(versions.len() as u32);
        let mk = |code: usize| -> Table {
            let mut t = BTreeMap::new();
            let mut c = code;
            for &v in &versions {
                if let Some(d) = data_n2c((c % 6) as u8) {
                    t.insert(v, d);
                }
                c /= 6;
            }
            t
        };
        (0..pn * pn).into_par_iter().for_each(|code| {
            let (c, s) = (mk(code / pn), mk(code % pn));
            let stack = "network-n2c";
            evals.fetch_add(1, Ordering::Relaxed);
            let case = || json!({"stack": stack, "client_table": format!("{c:?}"), "server_table": format!("{s:?}")});
            match catch(|| run_net1_n2c(&c, &s)) {
                Err(p) => ctx.violation(p.site(), format!("{stack} handshake responder panicked: {} at {}", p.message, p.location), case()),
                Ok(Err(e)) => ctx.violation(format!("C25:{stack}:error"), e, case()),
                Ok(Ok((reply, acc))) => match oracle(&c, &s, &reply, &acc) {
                    Ok(class) => {
                        *outcomes.lock().unwrap().entry(format!("{stack}:{class}")).or_default() += 1;
                    }
                    Err((fp, what)) => ctx.violation(format!("C25:{stack}:{fp}"), format!("{what}; reply {reply:?}"), case()),
                },
            }
        });
    }
    for (popts, versions) in &passes {
    let pn = popts.pow(versions.len() as u32);
    (0..pn * pn).into_par_iter().for_each(|code| {
        let (c, s) = (table_over(code / pn, *popts, versions), table_over(code % pn, *popts, versions));
        for stack in ["network", "network2"] {
            evals.fetch_add(1, Ordering::Relaxed);
            let case = || json!({"stack": stack, "client_table": format!("{c:?}"), "server_table": format!("{s:?}")});
            let r = catch(|| if stack == "network" { run_net1(&c, &s) } else { run_net2(&c, &s) });
            match r {
                Err(p) => ctx.violation(p.site(), format!("{stack} handshake responder panicked: {} at {}", p.message, p.location), case()),
                Ok(Err(e)) => ctx.violation(format!("C25:{stack}:error"), e, case()),
                Ok(Ok((reply, acc))) => match oracle(&c, &s, &reply, &acc) {
                    Ok(class) => {
                        *outcomes.lock().unwrap().entry(format!("{stack}:{class}")).or_default() += 1;
                        let mut d = distinct.lock().unwrap();
                        if d.len() < 200_000 {
                            // the order in which a refusal lists the responder's versions is not
                            // part of the outcome (it follows a HashMap)
                            let shape = match &reply {
                                Reply::VersionMismatch(l) => {
                                    let mut l = l.clone();
                                    l.sort();
                                    Reply::VersionMismatch(l)
                                }
                                o => o.clone(),
                            };
                            d.insert(format!("{stack}:{shape:?}:{}", c.len() * 10 + s.len()));
                        }
                    }
                    Err((fp, what)) => ctx.violation(format!("C25:{stack}:{fp}"), format!("{what}; reply {reply:?}"), case()),
                },
            }
        }
    });
    }
    let outcomes = outcomes.into_inner().unwrap();
    for k in ["network:accept", "network2:accept", "network:version-mismatch", "network2:version-mismatch"] {
        if !outcomes.contains_key(k) && ctx.violation_count() == 0 {
            mc_core::report::machinery_failure(&format!("C25: outcome class {k} never reached (vacuous)"));
        }
    }
    let samples: Vec<Value> = vec![
        json!({"client": format!("{:?}", table(5, opts)), "server": format!("{:?}", table(7, opts))}),
        json!({"client": format!("{:?}", table(n - 1, opts)), "server": format!("{:?}", table(1, opts))}),
    ];
    let cov = cov! {
        "evaluations" => evals.load(Ordering::Relaxed),
        "distinct_nontrivial" => distinct.lock().unwrap().len(),
        "rule" => "evaluation = one (client table, responder table, stack) negotiation on the real responder; tables = every assignment of {absent, A, B(other magic)[, C(same magic, other fields), D(two-field form), E(two-field form, other magic), F(four-field form, everything off)]} to versions 11..14, all pairs (quick: the three basic options on 11..14 plus all seven options on versions 13, 14); distinct_nontrivial = distinct (stack, reply message, table sizes) observed",
        "samples" => samples,
        "outcome_classes" => outcomes,
        "table_pairs" => n * n,
        "exhaustive" => true,
    };
    ctx.finish(Level::Exploration, cov, &["version numbers 11..14 (all carry the four-field version data); tables of up to 4 versions, not 16", "a refusal although a common version exists is allowed by the property and only counted"])
}
