//! C20 — the multiplexer delivers each protocol's chunks in order, exactly once.
//! SCHED: two real `Plexer`s joined by an in-memory duplex pipe (hook H1); the
//! four real `Muxer::run` / `Demuxer::run` loops and the agent bodies are tasks
//! of the owned scheduler (mc_core::sched). Every schedule within the delay
//! bound is executed; at quiescence each receiver must hold exactly its
//! sender's chunk sequence.
//! A second part drives pallas-network2's `write_segment` / `read_full_msgs`
//! over the same kind of pipe (hook H2).

use mc_core::sched::{self, yield_now, Execution, Tasks};
use mc_core::{cov, json, Ctx, Level, Value};
use pallas_network::multiplexer::{AgentChannel, Bearer, Plexer};
use std::cell::RefCell;
use std::collections::BTreeSet;
use std::rc::Rc;

#[derive(Clone, Debug)]
pub struct Flow {
    /// protocol number
    pub proto: u16,
    /// true: the side-A agent is the client (sends with the client role)
    pub a_is_client: bool,
    /// chunks A sends to B on this flow
    pub a_to_b: Vec<Vec<u8>>,
    /// chunks B sends to A on this flow
    pub b_to_a: Vec<Vec<u8>>,
    /// B starts receiving only after A has enqueued all its chunks (a lagging
    /// consumer: fills the 100-slot agent queue and everything behind it)
    pub lag_receiver: bool,
    /// side B does not subscribe to this protocol at all: what A sends on it has
    /// no receiver and must vanish without reaching anybody else
    pub b_absent: bool,
}

#[derive(Clone, Debug)]
pub struct Scenario {
    pub name: &'static str,
    pub pipe: usize,
    pub flows: Vec<Flow>,
}

fn chunk(flow: u8, dir: u8, seq: u8, len: usize) -> Vec<u8> {
    // payload identifies (flow, direction, seq) so that a leak is visible
    (0..len).map(|i| match i {
        0 => 0xc0 | (flow << 2) | dir,
        1 => seq,
        _ => (i as u8) ^ 0x5a,
    }).collect()
}

#[derive(Default, Debug)]
pub struct Obs {
    /// per receiver id: chunks received, in order
    pub received: Vec<Vec<Vec<u8>>>,
    /// global order of receive events (receiver id)
    pub order: Vec<usize>,
    pub errors: Vec<String>,
}

async fn send_all(ch: &mut AgentChannel, send: Vec<Vec<u8>>, obs: &Rc<RefCell<Obs>>) {
    for c in send {
        if let Err(e) = ch.enqueue_chunk(c).await {
            obs.borrow_mut().errors.push(format!("enqueue error: {e}"));
        }
        yield_now().await;
    }
}

/// Scripted agent: sends its chunks (at once, or after having received what it
/// expects), then keeps listening: anything further is a duplicate or a leak.
async fn agent_body(
    mut ch: AgentChannel,
    send: Vec<Vec<u8>>,
    expect: usize,
    rid: usize,
    obs: Rc<RefCell<Obs>>,
    send_first: bool,
    done_tx: Option<tokio::sync::oneshot::Sender<()>>,
    wait_rx: Option<tokio::sync::oneshot::Receiver<()>>,
) {
    let mut pending = Some(send);
    if send_first {
        send_all(&mut ch, pending.take().unwrap(), &obs).await;
        if let Some(tx) = done_tx {
            let _ = tx.send(());
        }
    }
    if let Some(rx) = wait_rx {
        // blocking wait (not a spin loop): the peer signals when it is done sending
        let _ = rx.await;
    }
    let mut got = 0usize;
    loop {
        if got >= expect {
            if let Some(s) = pending.take() {
                send_all(&mut ch, s, &obs).await;
            }
        }
        match ch.dequeue_chunk().await {
            Ok(c) => {
                let mut o = obs.borrow_mut();
                o.received[rid].push(c);
                o.order.push(rid);
                got += 1;
            }
            Err(e) => {
                obs.borrow_mut().errors.push(format!("dequeue error on receiver {rid}: {e}"));
                return;
            }
        }
        yield_now().await;
    }
}

pub fn build(sc: &Scenario) -> (Tasks, Rc<RefCell<Obs>>) {
    let (pa, pb) = tokio::io::duplex(sc.pipe);
    let mut plex_a = Plexer::new(Bearer::Mem(pa));
    let mut plex_b = Plexer::new(Bearer::Mem(pb));
    let obs = Rc::new(RefCell::new(Obs::default()));
    let mut tasks = Tasks::new();
    #[allow(clippy::type_complexity)]
    let mut agents: Vec<(String, AgentChannel, Vec<Vec<u8>>, usize, usize, bool, Option<tokio::sync::oneshot::Sender<()>>, Option<tokio::sync::oneshot::Receiver<()>>)> = vec![];
    for (i, f) in sc.flows.iter().enumerate() {
        if f.b_absent {
            // only side A has an agent on this protocol; receiver ids stay aligned
            let cha = if f.a_is_client { plex_a.subscribe_client(f.proto) } else { plex_a.subscribe_server(f.proto) };
            agents.push((format!("A{i}"), cha, f.a_to_b.clone(), 0, 2 * i, true, None, None));
            continue;
        }
        let (cha, chb) = if f.a_is_client {
            (plex_a.subscribe_client(f.proto), plex_b.subscribe_server(f.proto))
        } else {
            (plex_a.subscribe_server(f.proto), plex_b.subscribe_client(f.proto))
        };
        // receiver ids: 2*i = A side of flow i, 2*i+1 = B side
        let (tx, rx) = if f.lag_receiver {
            let (t, r) = tokio::sync::oneshot::channel();
            (Some(t), Some(r))
        } else {
            (None, None)
        };
        agents.push((format!("A{i}"), cha, f.a_to_b.clone(), f.b_to_a.len(), 2 * i, true, tx, None));
        agents.push((format!("B{i}"), chb, f.b_to_a.clone(), f.a_to_b.len(), 2 * i + 1, f.a_to_b.is_empty(), None, rx));
    }
    obs.borrow_mut().received = vec![vec![]; 2 * sc.flows.len()];
    let (mut da, mut ma) = plex_a.into_parts();
    let (mut db, mut mb) = plex_b.into_parts();
    // the real loops
    let o = obs.clone();
    tasks.spawn("muxA", async move {
        if let Err(e) = ma.run().await {
            o.borrow_mut().errors.push(format!("muxA: {e}"));
        }
    });
    let o = obs.clone();
    tasks.spawn("demuxB", async move {
        if let Err(e) = db.run().await {
            o.borrow_mut().errors.push(format!("demuxB: {e}"));
        }
    });
    let o = obs.clone();
    tasks.spawn("muxB", async move {
        if let Err(e) = mb.run().await {
            o.borrow_mut().errors.push(format!("muxB: {e}"));
        }
    });
    let o = obs.clone();
    tasks.spawn("demuxA", async move {
        if let Err(e) = da.run().await {
            o.borrow_mut().errors.push(format!("demuxA: {e}"));
        }
    });
    for (name, ch, send, expect, rid, send_first, tx, rx) in agents {
        tasks.spawn(&name, agent_body(ch, send, expect, rid, obs.clone(), send_first, tx, rx));
    }
    (tasks, obs)
}

/// Expected chunk sequence per receiver id.
pub fn expected(sc: &Scenario) -> Vec<Vec<Vec<u8>>> {
    let mut v = vec![];
    for f in &sc.flows {
        v.push(f.b_to_a.clone()); // A side receives what B sent
        // nobody listens on B for an absent subscription: nothing may be recorded
        v.push(if f.b_absent { vec![] } else { f.a_to_b.clone() });
    }
    v
}

pub fn scenarios(thorough: bool) -> Vec<Scenario> {
    let mut v = vec![];
    let pipes: &[usize] = if thorough { &[8, 9, 24, 4096] } else { &[8, 24, 4096] };
    for &pipe in pipes {
        // S1: two client protocols, one direction, 2+1 chunks, sizes 0,1,7,8,9
        v.push(Scenario {
            name: "S1-two-protocols-one-direction",
            pipe,
            flows: vec![
                Flow { proto: 2, a_is_client: true, a_to_b: vec![chunk(0, 0, 0, 7), chunk(0, 0, 1, 0)], b_to_a: vec![], lag_receiver: false, b_absent: false },
                Flow { proto: 3, a_is_client: true, a_to_b: vec![chunk(1, 0, 0, 9)], b_to_a: vec![], lag_receiver: false, b_absent: false },
            ],
        });
        // S2: both directions on one protocol, plus a second protocol the other way
        v.push(Scenario {
            name: "S2-both-directions",
            pipe,
            flows: vec![
                Flow { proto: 2, a_is_client: true, a_to_b: vec![chunk(0, 0, 0, 8), chunk(0, 0, 1, 1)], b_to_a: vec![chunk(0, 1, 0, 2)], lag_receiver: false, b_absent: false },
                Flow { proto: 5, a_is_client: false, a_to_b: vec![], b_to_a: vec![chunk(1, 1, 0, 9)], lag_receiver: false, b_absent: false },
            ],
        });
        // S3: the SAME protocol number as client and as server on both sides
        v.push(Scenario {
            name: "S3-same-protocol-both-roles",
            pipe,
            flows: vec![
                Flow { proto: 7, a_is_client: true, a_to_b: vec![chunk(0, 0, 0, 3), chunk(0, 0, 1, 8)], b_to_a: vec![], lag_receiver: false, b_absent: false },
                Flow { proto: 7, a_is_client: false, a_to_b: vec![chunk(1, 0, 0, 3)], b_to_a: vec![], lag_receiver: false, b_absent: false },
            ],
        });
    }
    // S4: one maximum-size chunk next to small ones
    v.push(Scenario {
        name: "S4-max-size-chunk",
        pipe: 4096,
        flows: vec![
            Flow { proto: 2, a_is_client: true, a_to_b: vec![chunk(0, 0, 0, 65535), chunk(0, 0, 1, 2)], b_to_a: vec![], lag_receiver: false, b_absent: false },
            Flow { proto: 3, a_is_client: true, a_to_b: vec![chunk(1, 0, 0, 5)], b_to_a: vec![chunk(1, 1, 0, 4)], lag_receiver: false, b_absent: false },
        ],
    });
    // S7: traffic for a protocol the peer never subscribed to (and for the same
    // protocol number in the other role) next to ordinary flows: it must reach nobody
    for &pipe in &[8usize, 4096] {
        v.push(Scenario {
            name: "S7-unsubscribed-protocol",
            pipe,
            flows: vec![
                Flow { proto: 2, a_is_client: true, a_to_b: vec![chunk(0, 0, 0, 3), chunk(0, 0, 1, 9)], b_to_a: vec![chunk(0, 1, 0, 2)], lag_receiver: false, b_absent: false },
                Flow { proto: 9, a_is_client: true, a_to_b: vec![chunk(1, 0, 0, 8), chunk(1, 0, 1, 1)], b_to_a: vec![], lag_receiver: false, b_absent: true },
                Flow { proto: 2, a_is_client: false, a_to_b: vec![chunk(2, 0, 0, 4)], b_to_a: vec![], lag_receiver: false, b_absent: true },
            ],
        });
    }
    // S6: a consumer that lags behind by more than the 100-slot agent queue (the
    // demuxer has to hold back), next to a small flow on another protocol
    v.push(Scenario {
        name: "S6-lagging-consumer-over-queue-capacity",
        pipe: 4096,
        flows: vec![
            Flow { proto: 2, a_is_client: true, a_to_b: (0..104u8).map(|i| chunk(0, 0, i, 2)).collect(), b_to_a: vec![], lag_receiver: true, b_absent: false },
            Flow { proto: 3, a_is_client: true, a_to_b: vec![chunk(1, 0, 0, 5)], b_to_a: vec![chunk(1, 1, 0, 4)], lag_receiver: false, b_absent: false },
        ],
    });
    if thorough {
        // S5: three flows, six agents
        v.push(Scenario {
            name: "S5-six-agents",
            pipe: 8,
            flows: vec![
                Flow { proto: 2, a_is_client: true, a_to_b: vec![chunk(0, 0, 0, 2), chunk(0, 0, 1, 9)], b_to_a: vec![], lag_receiver: false, b_absent: false },
                Flow { proto: 3, a_is_client: false, a_to_b: vec![], b_to_a: vec![chunk(1, 1, 0, 8), chunk(1, 1, 1, 0)], lag_receiver: false, b_absent: false },
                Flow { proto: 2, a_is_client: false, a_to_b: vec![chunk(2, 0, 0, 7)], b_to_a: vec![], lag_receiver: false, b_absent: false },
            ],
        });
    }
    v
}

fn describe(sc: &Scenario) -> Value {
    json!({"name": sc.name, "pipe_bytes": sc.pipe, "flows": sc.flows.iter().map(|f| json!({
        "protocol": f.proto, "A_role": if f.a_is_client {"client"} else {"server"},
        "A_to_B_chunk_lens": f.a_to_b.iter().map(|c| c.len()).collect::<Vec<_>>(),
        "B_to_A_chunk_lens": f.b_to_a.iter().map(|c| c.len()).collect::<Vec<_>>()})).collect::<Vec<_>>()})
}

pub struct PartResult {
    pub schedules: u64,
    pub points: u64,
    pub distinct_orders: usize,
    pub samples: Vec<Value>,
    pub per_scenario: Vec<Value>,
    pub capped: bool,
    #[allow(dead_code)]
    pub completed_bound: usize,
}

pub fn check_exec(ctx: &Ctx, sc: &Scenario, x: &Execution, obs: &Obs, want: &[Vec<Vec<u8>>]) -> bool {
    let case = || json!({"scenario": describe(sc), "schedule": x.choices, "polled": x.polled});
    let mut ok = true;
    if !x.quiescent {
        ctx.violation(format!("C20:{}:no-quiescence", sc.name), "schedule did not reach quiescence within the horizon (livelock?)", case());
        return false;
    }
    if !obs.errors.is_empty() {
        ctx.violation(format!("C20:{}:error", sc.name), format!("errors: {:?}", obs.errors), case());
        ok = false;
    }
    for (rid, w) in want.iter().enumerate() {
        let got = &obs.received[rid];
        if got != w {
            let kind = if got.len() < w.len() && w.starts_with(got) {
                "lost-or-deadlock"
            } else if got.len() > w.len() {
                "extra-or-duplicate"
            } else {
                "wrong-content-or-order"
            };
            ctx.violation(
                format!("C20:{}:{kind}", sc.name),
                format!("receiver {rid} got {} chunks {:?}, expected {} chunks {:?}", got.len(), got.iter().map(|c| hex::encode(&c[..c.len().min(4)])).collect::<Vec<_>>(), w.len(), w.iter().map(|c| hex::encode(&c[..c.len().min(4)])).collect::<Vec<_>>()),
                case(),
            );
            ok = false;
        }
    }
    ok
}

pub fn run_part(ctx: &Ctx, bound_max: usize, max_schedules: u64) -> PartResult {
    let scs = scenarios(ctx.thorough);
    let mut res = PartResult { schedules: 0, points: 0, distinct_orders: 0, samples: vec![], per_scenario: vec![], capped: false, completed_bound: bound_max };
    use rayon::prelude::*;
    let outs: Vec<(Value, u64, u64, usize, bool, Vec<Value>)> = scs
        .par_iter()
        .map(|sc| {
            let want = expected(sc);
            let horizon = 400 + sc.flows.iter().map(|f| f.a_to_b.iter().chain(f.b_to_a.iter()).map(|c| 40 + 4 * c.len() / sc.pipe.max(1)).sum::<usize>()).sum::<usize>();
            // determinism gate: the default schedule twice, identical observations
            let first = {
                let (t, o) = build(sc);
                let x = sched::run(t, &[], horizon).expect("run");
                let r = (x.polled.clone(), o.borrow().order.clone());
                r
            };
            let second = {
                let (t, o) = build(sc);
                let x = sched::run(t, &[], horizon).expect("run");
                let r = (x.polled.clone(), o.borrow().order.clone());
                r
            };
            if first != second {
                mc_core::report::machinery_failure(&format!("C20 {}: default schedule is not deterministic", sc.name));
            }
            let mut orders: BTreeSet<Vec<usize>> = BTreeSet::new();
            let mut samples = vec![];
            let mut sched_total = 0u64;
            let mut points_total = 0u64;
            let mut capped = false;
            let mut per_bound = vec![];
            // S4 moves 64 KiB through a 4 KiB pipe: many forced points, keep its bound lower
            let bmax = if sc.name.starts_with("S4") || sc.name.starts_with("S6") { bound_max.min(if ctx.thorough { 2 } else { 1 }) } else { bound_max };
            // iterate the bound (0,1,2,...): the first counterexample has the fewest deviations
            let mut prev = 0u64;
            for bound in 0..=bmax {
                let b = || build(sc);
                let mut n_bad = 0;
                let mut check = |x: &Execution, o: Rc<RefCell<Obs>>| {
                    let o = o.borrow();
                    if !check_exec(ctx, sc, x, &o, &want) {
                        n_bad += 1;
                    }
                    orders.insert(o.order.clone());
                    if samples.len() < 2 && x.choices.iter().filter(|c| **c != 0).count() == bound {
                        samples.push(json!({"scenario": sc.name, "pipe": sc.pipe, "bound": bound, "choices_nonzero_at": x.choices.iter().enumerate().filter(|(_, c)| **c != 0).map(|(i, c)| json!([i, c])).collect::<Vec<_>>(), "points": x.choices.len(), "delivery_order": o.order}));
                    }
                };
                let st = match sched::explore(&b, &mut check, bound, horizon, max_schedules) {
                    Ok(s) => s,
                    Err(e) => mc_core::report::machinery_failure(&format!("C20 {}: replay divergence {e:?}", sc.name)),
                };
                // explore(bound) re-runs the lower bounds too; count what is new
                per_bound.push(json!({"bound": bound, "schedules_up_to_bound": st.schedules, "new": st.schedules - prev, "max_points": st.max_points}));
                prev = st.schedules;
                sched_total = st.schedules;
                points_total = st.scheduling_points;
                if st.capped {
                    capped = true;
                    break;
                }
                if n_bad > 0 {
                    break;
                }
            }
            (json!({"scenario": describe(sc), "bounds": per_bound, "distinct_delivery_orders": orders.len()}), sched_total, points_total, orders.len(), capped, samples)
        })
        .collect();
    for (v, s, p, d, c, sm) in outs {
        res.per_scenario.push(v);
        res.schedules += s;
        res.points += p;
        res.distinct_orders += d;
        res.capped |= c;
        if res.samples.len() < 6 {
            res.samples.extend(sm.into_iter().take(1));
        }
    }
    res
}

pub fn run(ctx: Ctx) -> ! {
    let bound = if ctx.thorough { 4 } else { 3 };
    let cap = if ctx.thorough { 30_000_000 } else { 3_000_000 };
    let r1 = run_part(&ctx, bound, cap);
    let r2 = crate::c20_net2::run_part(&ctx);
    let r3 = crate::c20_iface::run_part(&ctx);
    let r4 = crate::c20_iface::run_two_peers(&ctx);
    if r3.configs == 0 || r4.0 == 0 {
        mc_core::report::machinery_failure("C20: the interface grids ran no configuration (vacuous)");
    }
    // vacuity guard: schedules must have produced more than one delivery interleaving
    if r1.per_scenario.iter().all(|s| s["distinct_delivery_orders"].as_u64().unwrap_or(0) <= 1) {
        mc_core::report::machinery_failure("C20: no scenario produced more than one delivery order (vacuous)");
    }
    let mut samples = r1.samples.clone();
    samples.extend(r2.samples.clone());
    let cov = cov! {
        "states" => r1.points + r2.points,
        "transitions" => r1.points + r2.points,
        "traces_validated_against_impl" => r1.schedules + r2.schedules + r3.configs,
        "samples" => samples,
        "schedules_net1" => r1.schedules,
        "schedules_net2" => r2.schedules,
        "delay_bound_completed" => bound,
        "capped" => r1.capped || r2.capped,
        "distinct_outcomes(delivery orders summed over scenarios)" => r1.distinct_orders + r2.distinct_orders,
        "net1_scenarios" => r1.per_scenario,
        "net2_scenarios" => r2.per_scenario,
        "net2_interface_grid" => json!({"configurations": r3.configs, "messages_dispatched": r3.messages, "outcomes": r3.outcomes, "per_configuration": r3.per_config, "two_peer_configurations": r4.0, "two_peer_messages": r4.1,
            "rule": "one configuration = (queue shape, segments of the first large message, pipe capacity) executed on the real TcpInterface (dispatch(Send) for the whole queue, then the event loop) over an in-memory bearer inside a current-thread tokio runtime; each configuration run twice with identical observations; oracle: per mini-protocol arrival order = dispatch order, exactly once"}),
        "rule" => "states/transitions = scheduling points (one poll of one task of the real Muxer::run / Demuxer::run loops or an agent body) summed over all executed schedules; traces = complete schedules run to quiescence on the real code; every schedule with at most the stated number of deviations from the default scheduler is enumerated exactly once",
    };
    ctx.finish(
        Level::ModelChecking,
        cov,
        &[
            "tasks interact only through tokio mpsc channels and the duplex pipe (linearizable, runtime-agnostic); preemption inside a single poll is not modelled",
            "Plexer::spawn (two tokio::spawn calls) is replaced by Plexer::into_parts + the owned scheduler; the loops themselves are the real ones",
            "at most 6 agents x 2 chunks, delay bound as stated; not 200-chunk runs, not OS sockets",
            "interface grid: the schedule inside one configuration is the current-thread tokio runtime's own (deterministic, checked by running twice); the grid varies what that schedule depends on (message sizes against the cooperative budget, pipe capacity, queue shape)",
        ],
    )
}
