//! Library part of mc-net1: the deterministic plexer rig, reusable by other
//! harness crates.
pub mod rig;
