mod c20;
mod c20_iface;
mod c20_net2;
mod c25;

fn main() {
    let ctx = mc_core::Ctx::from_args();
    match ctx.prop.as_str() {
        "C20" => c20::run(ctx),
        "C25" => c25::run(ctx),
        p => mc_core::report::machinery_failure(&format!("mc-net1 does not serve {p} yet")),
    }
}
