mod c20;
mod c20_net2;

fn main() {
    let ctx = mc_core::Ctx::from_args();
    match ctx.prop.as_str() {
        "C20" => c20::run(ctx),
        p => mc_core::report::machinery_failure(&format!("mc-net1 does not serve {p} yet")),
    }
}
