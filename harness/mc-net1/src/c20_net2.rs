//! C20, pallas-network2 half: logical senders share the real write half behind
//! the interface's `SharedWriter` and go through the interface's real
//! per-message send path (`interface::send`, hook H5 `verif_send`: lock the
//! writer, `write_message`); a reader task loops on the real `read_full_msgs`. Every
//! schedule within the delay bound is executed over an in-memory pipe (H2).

use mc_core::sched::{self, yield_now, Execution, Tasks};
use mc_core::{json, Ctx, Value};
use pallas_network2::bearer::Bearer;
use pallas_network2::behavior::AnyMessage;
use pallas_network2::protocol as proto;
use pallas_network2::Message as _;
use std::cell::RefCell;
use std::collections::{BTreeSet, HashMap};
use std::rc::Rc;
use std::sync::Arc;

pub struct PartResult {
    pub schedules: u64,
    pub points: u64,
    pub distinct_orders: usize,
    pub samples: Vec<Value>,
    pub per_scenario: Vec<Value>,
    pub capped: bool,
}

#[derive(Default)]
struct Obs {
    /// (channel, encoded payload) of every message yielded by the reader, in order
    got: Vec<(u16, Vec<u8>)>,
    errors: Vec<String>,
}

struct Sc {
    name: &'static str,
    pipe: usize,
    senders: Vec<Vec<AnyMessage>>,
    mode: u16,
}

fn scenarios(thorough: bool) -> Vec<Sc> {
    let ka = |c: u16| AnyMessage::KeepAlive(proto::keepalive::Message::KeepAlive(c));
    let cs_req = || AnyMessage::ChainSync(proto::chainsync::Message::RequestNext);
    let cs_find = || AnyMessage::ChainSync(proto::chainsync::Message::FindIntersect(vec![proto::Point::Origin, proto::Point::Specific(7, vec![9; 32])]));
    let bf_block = |n: usize| AnyMessage::BlockFetch(proto::blockfetch::Message::Block((0..n).map(|i| i as u8).collect()));
    let mut v = vec![];
    let pipes: &[usize] = if thorough { &[8, 9, 24, 4096] } else { &[8, 24, 4096] };
    for &pipe in pipes {
        v.push(Sc { name: "N1-two-senders", pipe, senders: vec![vec![cs_find(), cs_req()], vec![ka(1), ka(0xffff)]], mode: 0 });
        v.push(Sc { name: "N2-three-senders-server-mode", pipe, senders: vec![vec![cs_req()], vec![ka(7)], vec![bf_block(20), bf_block(0)]], mode: proto::PROTOCOL_SERVER });
    }
    // a message larger than one segment (two segments) next to small ones
    v.push(Sc { name: "N3-multi-segment-message", pipe: 4096, senders: vec![vec![bf_block(70_000), bf_block(3)], vec![ka(2), ka(3)]], mode: 0 });
    // the same with the responder's mode bit on the wire (the initiator's read side strips it
    // before it files partial payloads under the channel)
    v.push(Sc { name: "N3s-multi-segment-message-server-mode", pipe: 4096, senders: vec![vec![bf_block(70_000), bf_block(3)], vec![ka(2), ka(3)]], mode: proto::PROTOCOL_SERVER });
    // (two sends on ONE protocol at once are not a scenario here: since the interface keeps one
    // operation per peer in flight, `send` never runs twice on one writer; queued sends on one
    // protocol are explored on the real TcpInterface in c20_iface.rs)
    v
}

fn build(sc: &Sc) -> (Tasks, Rc<RefCell<Obs>>) {
    let (a, b) = tokio::io::duplex(sc.pipe);
    let (_ra, wa) = Bearer::Mem(a).into_split();
    let (mut rb, _wb) = Bearer::Mem(b).into_split();
    let obs = Rc::new(RefCell::new(Obs::default()));
    let mut tasks = Tasks::new();
    let writer = Arc::new(tokio::sync::Mutex::new(wa));
    let total: usize = sc.senders.iter().map(|s| s.len()).sum();
    let o = obs.clone();
    tasks.spawn("reader", async move {
        let _keep = (_ra, _wb);
        let mut partial: HashMap<u16, Vec<u8>> = HashMap::new();
        loop {
            match rb.read_full_msgs::<AnyMessage>(&mut partial).await {
                Ok(msgs) => {
                    let mut ob = o.borrow_mut();
                    for m in msgs {
                        ob.got.push((m.channel(), m.payload()));
                    }
                    if ob.got.len() >= total && partial.values().any(|p| !p.is_empty()) {
                        ob.errors.push(format!("left-over bytes after all messages: {:?}", partial.iter().map(|(k, v)| (*k, v.len())).collect::<Vec<_>>()));
                    }
                }
                Err(e) => {
                    o.borrow_mut().errors.push(format!("reader: {e}"));
                    return;
                }
            }
            yield_now().await;
        }
    });
    for (i, msgs) in sc.senders.iter().enumerate() {
        let w = writer.clone();
        let msgs = msgs.clone();
        let o = obs.clone();
        let mode = sc.mode;
        tasks.spawn(&format!("sender{i}"), async move {
            for (k, m) in msgs.into_iter().enumerate() {
                if let Err(e) = pallas_network2::interface::verif_send(w.clone(), m, k as u32, mode).await {
                    o.borrow_mut().errors.push(format!("sender{i}: {e}"));
                }
                yield_now().await;
            }
        });
    }
    (tasks, obs)
}

pub fn run_part(ctx: &Ctx) -> PartResult {
    use rayon::prelude::*;
    let scs = scenarios(ctx.thorough);
    let bound_max = if ctx.thorough { 5 } else { 4 };
    let outs: Vec<(Value, u64, u64, usize, bool, Vec<Value>)> = scs
        .par_iter()
        .map(|sc| {
            // expected per-channel sequences
            let mut want: HashMap<u16, Vec<Vec<u8>>> = HashMap::new();
            for s in &sc.senders {
                for m in s {
                    want.entry(m.channel()).or_default().push(m.payload());
                }
            }
            let mut want_n = want.clone();
            if sc.name.starts_with("N4") {
                for v in want_n.values_mut() {
                    v.sort();
                }
            }
            let horizon = 3000;
            let mut orders: BTreeSet<Vec<u16>> = BTreeSet::new();
            let mut samples = vec![];
            let mut total = (0u64, 0u64);
            let mut capped = false;
            let mut per_bound = vec![];
            let bmax = if sc.name.starts_with("N3") || sc.name.starts_with("N4") { 1 } else { bound_max };
            for bound in 0..=bmax {
                let b = || build(sc);
                let mut bad = 0;
                let mut check = |x: &Execution, o: Rc<RefCell<Obs>>| {
                    let o = o.borrow();
                    let case = || json!({"stack": "network2", "scenario": sc.name, "pipe": sc.pipe, "schedule": x.choices});
                    if !x.quiescent {
                        ctx.violation(format!("C20:net2:{}:no-quiescence", sc.name), "no quiescence within the horizon", case());
                        bad += 1;
                        return;
                    }
                    if !o.errors.is_empty() {
                        ctx.violation(format!("C20:net2:{}:error", sc.name), format!("{:?}", o.errors), case());
                        bad += 1;
                    }
                    let mut got: HashMap<u16, Vec<Vec<u8>>> = HashMap::new();
                    for (c, p) in &o.got {
                        got.entry(*c).or_default().push(p.clone());
                    }
                    if sc.name.starts_with("N4") {
                        for v in got.values_mut() {
                            v.sort();
                        }
                    }
                    if got != want_n {
                        ctx.violation(
                            format!("C20:net2:{}:delivery", sc.name),
                            format!("per-channel message sequences differ: got {:?} expected {:?}", got.iter().map(|(k, v)| (*k, v.len())).collect::<Vec<_>>(), want.iter().map(|(k, v)| (*k, v.len())).collect::<Vec<_>>()),
                            case(),
                        );
                        bad += 1;
                    }
                    orders.insert(o.got.iter().map(|g| g.0).collect());
                    if samples.is_empty() && bound > 0 {
                        samples.push(json!({"stack": "network2", "scenario": sc.name, "pipe": sc.pipe, "bound": bound, "points": x.choices.len(), "delivery_order_channels": o.got.iter().map(|g| g.0).collect::<Vec<_>>()}));
                    }
                };
                let st = match sched::explore(&b, &mut check, bound, horizon, if ctx.thorough { 20_000_000 } else { 2_000_000 }) {
                    Ok(s) => s,
                    Err(e) => mc_core::report::machinery_failure(&format!("C20 net2 {}: replay divergence {e:?}", sc.name)),
                };
                per_bound.push(json!({"bound": bound, "schedules_up_to_bound": st.schedules, "max_points": st.max_points}));
                total = (st.schedules, st.scheduling_points);
                if st.capped {
                    capped = true;
                    break;
                }
                if bad > 0 {
                    break;
                }
            }
            (json!({"scenario": sc.name, "pipe_bytes": sc.pipe, "senders": sc.senders.iter().map(|s| s.len()).collect::<Vec<_>>(), "bounds": per_bound, "distinct_delivery_orders": orders.len()}), total.0, total.1, orders.len(), capped, samples)
        })
        .collect();
    let mut res = PartResult { schedules: 0, points: 0, distinct_orders: 0, samples: vec![], per_scenario: vec![], capped: false };
    for (v, s, p, d, c, sm) in outs {
        res.per_scenario.push(v);
        res.schedules += s;
        res.points += p;
        res.distinct_orders += d;
        res.capped |= c;
        if res.samples.len() < 3 {
            res.samples.extend(sm);
        }
    }
    res
}
