//! Shared driver for C12 / C13: walks the complete evolution history of a real
//! KES key (one of the 14 sum / compact-sum types) and records plain-data
//! observations; the oracles live in c12.rs / c13.rs.

use mc_core::catch;
use mc_core::panics::PanicInfo;
use pallas_crypto::kes::summed_kes::*;
use pallas_crypto::kes::traits::{KesCompactSig, KesSig, KesSk};

#[derive(Default, Clone)]
pub struct SigObs {
    pub msg: usize,
    pub bytes: Vec<u8>,
    /// `from_bytes(to_bytes(sig))` is `Ok`, equals `sig`, and serialises to the same bytes.
    pub roundtrip_err: Option<String>,
    /// The deserialised copy verifies at the harness' period count t.
    pub roundtrip_verifies: Option<bool>,
    /// (period p, verify(p, pk, msg) is Ok, error text)
    pub verify: Vec<(u32, bool, String)>,
}

#[derive(Default, Clone)]
pub struct Step {
    /// number of successful `update` calls before this state
    pub t: u32,
    pub period: u32,
    pub pk: [u8; 32],
    pub buf: Vec<u8>,
    pub sigs: Vec<SigObs>,
    /// error of the `update` attempted in this state (None = it succeeded)
    pub update_err: Option<String>,
    /// buffer and reported period after a failed update
    pub after_failed_update: Option<(Vec<u8>, u32)>,
}

#[derive(Default)]
pub struct Walk {
    pub keygen_pk: [u8; 32],
    pub seed_after_keygen: [u8; 32],
    pub steps: Vec<Step>,
    pub panic: Option<(String, PanicInfo)>,
    pub updates_attempted: u64,
}

#[derive(Default)]
pub struct Resume {
    pub period: u32,
    pub pk: [u8; 32],
    pub sig: Vec<u8>,
    pub update_ok: bool,
    pub buf_after: Vec<u8>,
}

pub type Periods<'p> = &'p (dyn Fn(u32) -> Vec<u32> + Sync);

#[derive(Clone, Copy)]
pub struct KesType {
    pub name: &'static str,
    pub family: &'static str,
    pub depth: u32,
    #[allow(dead_code)]
    pub compact: bool,
    pub buf_len: usize,
    pub walk: fn(&[u8; 32], &[Vec<u8>], Periods) -> Walk,
    pub resume: fn(&[u8], &[u8]) -> Result<Resume, String>,
}

macro_rules! guard {
    ($w:ident, $op:expr, $e:expr) => {
        match catch(|| $e) {
            Ok(v) => v,
            Err(p) => {
                $w.panic = Some(($op.to_string(), p));
                break;
            }
        }
    };
}

macro_rules! kes_type {
    ($sk:ident, $sig:ident, $depth:expr, $compact:expr) => {{
        fn walk(seed: &[u8; 32], msgs: &[Vec<u8>], periods: Periods) -> Walk {
            let mut w = Walk::default();
            let mut buf = vec![0u8; $sk::SIZE + 4];
            let mut s = *seed;
            {
                let b = &mut buf[..];
                let sr = &mut s[..];
                let (mut sk, pk) = match catch(move || $sk::keygen(b, sr)) {
                    Ok(v) => v,
                    Err(p) => {
                        w.panic = Some(("keygen".to_string(), p));
                        return w;
                    }
                };
                w.keygen_pk.copy_from_slice(pk.as_bytes());
                let total: u32 = 1 << $depth;
                let mut t: u32 = 0;
                #[allow(clippy::never_loop)]
                loop {
                    let mut st = Step { t, ..Default::default() };
                    st.period = guard!(w, "get_period", sk.get_period());
                    let tp = guard!(w, "to_pk", sk.to_pk());
                    st.pk.copy_from_slice(tp.as_bytes());
                    st.buf = guard!(w, "as_bytes", sk.as_bytes().to_vec());
                    let mut broke = false;
                    for (mi, m) in msgs.iter().enumerate() {
                        let sig = match catch(|| sk.sign(m)) {
                            Ok(v) => v,
                            Err(p) => {
                                w.panic = Some(("sign".to_string(), p));
                                broke = true;
                                break;
                            }
                        };
                        let mut so = SigObs { msg: mi, ..Default::default() };
                        so.bytes = match catch(|| sig.to_bytes().to_vec()) {
                            Ok(v) => v,
                            Err(p) => {
                                w.panic = Some(("Sig::to_bytes".to_string(), p));
                                broke = true;
                                break;
                            }
                        };
                        match catch(|| $sig::from_bytes(&so.bytes)) {
                            Err(p) => {
                                w.panic = Some(("Sig::from_bytes".to_string(), p));
                                broke = true;
                                break;
                            }
                            Ok(Err(e)) => so.roundtrip_err = Some(format!("from_bytes failed: {e}")),
                            Ok(Ok(s2)) => {
                                so.roundtrip_err = if s2 != sig {
                                    Some("from_bytes(to_bytes(sig)) != sig".to_string())
                                } else if s2.to_bytes()[..] != so.bytes[..] {
                                    Some("to_bytes(from_bytes(bytes)) != bytes".to_string())
                                } else {
                                    None
                                };
                                so.roundtrip_verifies = catch(|| s2.verify(t, &pk, m).is_ok()).ok();
                            }
                        }
                        for p in periods(t) {
                            match catch(|| sig.verify(p, &pk, m)) {
                                Ok(r) => so.verify.push((p, r.is_ok(), r.err().map(|e| e.to_string()).unwrap_or_default())),
                                Err(pn) => {
                                    w.panic = Some((format!("Sig::verify(period {p})"), pn));
                                    broke = true;
                                    break;
                                }
                            }
                        }
                        if broke {
                            break;
                        }
                        st.sigs.push(so);
                    }
                    if broke {
                        w.steps.push(st);
                        break;
                    }
                    w.updates_attempted += 1;
                    match catch(|| sk.update()) {
                        Err(p) => {
                            w.panic = Some(("update".to_string(), p));
                            w.steps.push(st);
                            break;
                        }
                        Ok(Ok(())) => {
                            st.update_err = None;
                            w.steps.push(st);
                        }
                        Ok(Err(e)) => {
                            st.update_err = Some(e.to_string());
                            let after = guard!(w, "as_bytes", sk.as_bytes().to_vec());
                            let per = guard!(w, "get_period", sk.get_period());
                            st.after_failed_update = Some((after, per));
                            w.steps.push(st);
                            break;
                        }
                    }
                    t += 1;
                    if t > total {
                        // the implementation never refused to evolve: stop, the oracle reports it
                        break;
                    }
                }
                // sk dropped here (zeroises the buffer)
            }
            w.seed_after_keygen = s;
            w
        }
        fn resume(state: &[u8], msg: &[u8]) -> Result<Resume, String> {
            let mut b = state.to_vec();
            catch(move || {
                let mut sk = $sk::from_bytes(&mut b).map_err(|e| e.to_string())?;
                let mut r = Resume { period: sk.get_period(), ..Default::default() };
                r.pk.copy_from_slice(sk.to_pk().as_bytes());
                r.sig = sk.sign(msg).to_bytes().to_vec();
                r.update_ok = sk.update().is_ok();
                r.buf_after = sk.as_bytes().to_vec();
                Ok(r)
            })
            .unwrap_or_else(|p| Err(format!("panic: {} at {}", p.message, p.location)))
        }
        KesType {
            name: stringify!($sk),
            family: if $compact { "sum_compact_kes" } else { "sum_kes" },
            depth: $depth,
            compact: $compact,
            buf_len: $sk::SIZE + 4,
            walk,
            resume,
        }
    }};
}

pub fn all_types() -> Vec<KesType> {
    vec![
        kes_type!(Sum1Kes, Sum1KesSig, 1, false),
        kes_type!(Sum2Kes, Sum2KesSig, 2, false),
        kes_type!(Sum3Kes, Sum3KesSig, 3, false),
        kes_type!(Sum4Kes, Sum4KesSig, 4, false),
        kes_type!(Sum5Kes, Sum5KesSig, 5, false),
        kes_type!(Sum6Kes, Sum6KesSig, 6, false),
        kes_type!(Sum7Kes, Sum7KesSig, 7, false),
        kes_type!(Sum1CompactKes, Sum1CompactKesSig, 1, true),
        kes_type!(Sum2CompactKes, Sum2CompactKesSig, 2, true),
        kes_type!(Sum3CompactKes, Sum3CompactKesSig, 3, true),
        kes_type!(Sum4CompactKes, Sum4CompactKesSig, 4, true),
        kes_type!(Sum5CompactKes, Sum5CompactKesSig, 5, true),
        kes_type!(Sum6CompactKes, Sum6CompactKesSig, 6, true),
        kes_type!(Sum7CompactKes, Sum7CompactKesSig, 7, true),
    ]
}

pub fn pattern(len: usize, salt: u64) -> Vec<u8> {
    let mut x: u64 = 0x1357_9bdf_0246_8ace ^ salt.wrapping_mul(0x9e37_79b9_7f4a_7c15);
    (0..len)
        .map(|_| {
            x = x.wrapping_mul(6364136223846793005).wrapping_add(1442695040888963407);
            (x >> 56) as u8
        })
        .collect()
}
