//! C10 — Blake2b hashing, hash values and nonce derivations match the reference.
//! GRID. Reference digest: mc_core::blake2b (own RFC 7693 implementation,
//! checked against the RFC vector at start-up). Reference CBOR bytes: refcbor.

use mc_core::blake2b::blake2b as refb2b;
use mc_core::refcbor::{Kind, Node};
use mc_core::{catch, cov, json, Ctx, Level, Value};
use pallas_codec::minicbor::{self, data::Int, data::Tag, encode, Encode, Encoder};
use pallas_crypto::hash::{Hash, Hasher};
use pallas_crypto::nonce::{generate_epoch_nonce, generate_rolling_nonce};
use rayon::prelude::*;
use std::collections::BTreeSet;
use std::str::FromStr;
use std::sync::Mutex;

// ---------------------------------------------------------------- plumbing

/// The three instantiations behind one interface (the constructors are
/// generated per size by a macro in pallas, so each is exercised separately).
trait H {
    const BITS: usize;
    fn chunks(parts: &[&[u8]]) -> Vec<u8>;
    fn oneshot(d: &[u8]) -> Vec<u8>;
    fn tagged(d: &[u8], tag: u8) -> Vec<u8>;
    fn cbor<T: Encode<()>>(v: &T) -> Vec<u8>;
    fn tagged_cbor<T: Encode<()>>(v: &T, tag: u8) -> Vec<u8>;
}
macro_rules! imp {
    ($n:ident, $bits:literal) => {
        struct $n;
        impl H for $n {
            const BITS: usize = $bits;
            fn chunks(parts: &[&[u8]]) -> Vec<u8> {
                let mut h = Hasher::<$bits>::new();
                for p in parts {
                    h.input(p);
                }
                h.finalize().to_vec()
            }
            fn oneshot(d: &[u8]) -> Vec<u8> {
                Hasher::<$bits>::hash(d).to_vec()
            }
            fn tagged(d: &[u8], tag: u8) -> Vec<u8> {
                Hasher::<$bits>::hash_tagged(d, tag).to_vec()
            }
            fn cbor<T: Encode<()>>(v: &T) -> Vec<u8> {
                Hasher::<$bits>::hash_cbor(v).to_vec()
            }
            fn tagged_cbor<T: Encode<()>>(v: &T, tag: u8) -> Vec<u8> {
                Hasher::<$bits>::hash_tagged_cbor(v, tag).to_vec()
            }
        }
    };
}
imp!(H160, 160);
imp!(H224, 224);
imp!(H256, 256);

/// Drives the real minicbor encoder from a refcbor node, one encoder call per
/// head / payload, so the Hasher's `Write` impl sees the item in many pieces.
struct Enc<'a>(&'a Node);
impl<C> Encode<C> for Enc<'_> {
    fn encode<W: encode::Write>(&self, e: &mut Encoder<W>, ctx: &mut C) -> Result<(), encode::Error<W::Error>> {
        match &self.0.kind {
            Kind::UInt(v, _) => {
                e.u64(*v)?;
            }
            Kind::NInt(n, _) => {
                e.int(Int::try_from(-1i128 - *n as i128).expect("in CBOR int range"))?;
            }
            Kind::Bytes(b, _) => {
                e.bytes(b)?;
            }
            Kind::BytesIndef(ch) => {
                e.begin_bytes()?;
                for (c, _) in ch {
                    e.bytes(c)?;
                }
                e.end()?;
            }
            Kind::Text(b, _) => {
                e.str(std::str::from_utf8(b).expect("utf8"))?;
            }
            Kind::TextIndef(ch) => {
                e.begin_str()?;
                for (c, _) in ch {
                    e.str(std::str::from_utf8(c).expect("utf8"))?;
                }
                e.end()?;
            }
            Kind::Array(v, Some(_)) => {
                e.array(v.len() as u64)?;
                for x in v {
                    Enc(x).encode(e, ctx)?;
                }
            }
            Kind::Array(v, None) => {
                e.begin_array()?;
                for x in v {
                    Enc(x).encode(e, ctx)?;
                }
                e.end()?;
            }
            Kind::Map(v, Some(_)) => {
                e.map(v.len() as u64)?;
                for (k, x) in v {
                    Enc(k).encode(e, ctx)?;
                    Enc(x).encode(e, ctx)?;
                }
            }
            Kind::Map(v, None) => {
                e.begin_map()?;
                for (k, x) in v {
                    Enc(k).encode(e, ctx)?;
                    Enc(x).encode(e, ctx)?;
                }
                e.end()?;
            }
            Kind::Tag(t, _, inner) => {
                e.tag(Tag::new(*t))?;
                Enc(inner).encode(e, ctx)?;
            }
            Kind::Simple(20, _) => {
                e.bool(false)?;
            }
            Kind::Simple(21, _) => {
                e.bool(true)?;
            }
            Kind::Simple(22, _) => {
                e.null()?;
            }
            Kind::Simple(23, _) => {
                e.undefined()?;
            }
            Kind::Simple(x, _) => {
                e.simple(*x)?;
            }
            Kind::Float(4, bits) => {
                e.f32(f32::from_bits(*bits as u32))?;
            }
            Kind::Float(8, bits) => {
                e.f64(f64::from_bits(*bits))?;
            }
            Kind::Float(_, _) => panic!("harness: f16 not generated"),
        }
        Ok(())
    }
}

fn pattern(len: usize, salt: u64) -> Vec<u8> {
    // deterministic, non-periodic in 128 (the Blake2b block size)
    let mut x: u64 = 0x9e37_79b9_7f4a_7c15 ^ salt.wrapping_mul(0xd6e8_feb8_6659_fd93);
    (0..len)
        .map(|_| {
            x = x.wrapping_mul(6364136223846793005).wrapping_add(1442695040888963407);
            (x >> 56) as u8
        })
        .collect()
}

struct St<'a> {
    ctx: &'a Ctx,
    evals: std::sync::atomic::AtomicU64,
    distinct: Mutex<BTreeSet<String>>,
    /// split cases are distinct by construction ((bits, length, cut points) is
    /// enumerated once), so they are counted instead of stored
    split_ok: std::sync::atomic::AtomicU64,
}
impl St<'_> {
    fn tick(&self, n: u64) {
        self.evals.fetch_add(n, std::sync::atomic::Ordering::Relaxed);
    }
    fn nontrivial(&self, keys: Vec<String>) {
        let mut d = self.distinct.lock().unwrap();
        d.extend(keys);
    }
}

// ---------------------------------------------------------------- sections

/// Incremental hashing: every 2-way split of every length, every 3-way split
/// of the short ones, plus one-shot `hash`.
fn section_splits<T: H>(st: &St, thorough: bool) {
    let mut lens: Vec<usize> = (0..=272).collect();
    lens.extend([383, 384, 385, 511, 512, 513, 1024, 4096]);
    let three_max = if thorough { 272 } else { 48 };
    lens.par_iter().for_each(|&l| {
        let data = pattern(l, l as u64);
        let want = refb2b(T::BITS / 8, &data);
        let mut ok = 0u64;
        let mut n = 0u64;
        let bad = |kind: &str, parts: Vec<usize>, got: Vec<u8>| {
            st.ctx.violation(
                format!("Hasher::{kind}:digest"),
                format!("Hasher<{}> over {} bytes fed as chunks {:?} gave {}, RFC 7693 digest is {}", T::BITS, l, parts, hex::encode(&got), hex::encode(&want)),
                json!({"bits": T::BITS, "data": hex::encode(&data), "chunk_lengths": parts, "api": kind}),
            );
        };
        let panicked = |p: mc_core::panics::PanicInfo, parts: Vec<usize>| {
            st.ctx.violation(p.site(), format!("Hasher<{}> panicked: {} at {}", T::BITS, p.message, p.location), json!({"bits": T::BITS, "data": hex::encode(&data), "chunk_lengths": parts}));
        };
        n += 1;
        match catch(|| T::oneshot(&data)) {
            Ok(g) if g == want => ok += 1,
            Ok(g) => bad("hash", vec![l], g),
            Err(p) => panicked(p, vec![l]),
        }
        for i in 0..=l {
            n += 1;
            match catch(|| T::chunks(&[&data[..i], &data[i..]])) {
                Ok(g) if g == want => {
                    if i > 0 && i < l {
                        ok += 1;
                    }
                }
                Ok(g) => bad("input+finalize", vec![i, l - i], g),
                Err(p) => panicked(p, vec![i, l - i]),
            }
        }
        if l <= three_max {
            for i in 0..=l {
                for j in i..=l {
                    n += 1;
                    match catch(|| T::chunks(&[&data[..i], &data[i..j], &data[j..]])) {
                        Ok(g) if g == want => {
                            if i > 0 && j > i && j < l {
                                ok += 1;
                            }
                        }
                        Ok(g) => bad("input+finalize", vec![i, j - i, l - j], g),
                        Err(p) => panicked(p, vec![i, j - i, l - j]),
                    }
                }
            }
        }
        // byte-at-a-time for every length
        n += 1;
        let parts: Vec<&[u8]> = data.chunks(1).collect();
        match catch(|| T::chunks(&parts)) {
            Ok(g) if g == want => {
                if l > 1 {
                    ok += 1
                }
            }
            Ok(g) => bad("input+finalize", vec![1; l], g),
            Err(p) => panicked(p, vec![1; l]),
        }
        st.tick(n);
        st.split_ok.fetch_add(ok, std::sync::atomic::Ordering::Relaxed);
    });
}

fn section_tagged<T: H>(st: &St) {
    let payloads: Vec<Vec<u8>> = vec![vec![], vec![0x00], pattern(28, 1), pattern(127, 2), pattern(128, 3), pattern(129, 4)];
    (0u32..256).into_par_iter().for_each(|tag| {
        let tag = tag as u8;
        let mut keys = vec![];
        for p in &payloads {
            let mut cat = vec![tag];
            cat.extend_from_slice(p);
            let want = refb2b(T::BITS / 8, &cat);
            st.tick(1);
            match catch(|| T::tagged(p, tag)) {
                Ok(g) if g == want => keys.push(format!("tagged:{}:{tag}:{}", T::BITS, p.len())),
                Ok(g) => st.ctx.violation(
                    "Hasher::hash_tagged:digest",
                    format!("Hasher<{}>::hash_tagged({} bytes, tag {tag:#04x}) = {}, Blake2b(tag || bytes) = {}", T::BITS, p.len(), hex::encode(&g), hex::encode(&want)),
                    json!({"bits": T::BITS, "tag": tag, "payload": hex::encode(p)}),
                ),
                Err(pn) => st.ctx.violation(pn.site(), format!("hash_tagged panicked: {} at {}", pn.message, pn.location), json!({"bits": T::BITS, "tag": tag, "payload": hex::encode(p)})),
            }
        }
        st.nontrivial(keys);
    });
}

/// Minimal-form CBOR items (what minicbor's encoder emits): leaves and
/// containers nested to depth 3.
fn cbor_items() -> Vec<Node> {
    let mut leaves: Vec<Node> = vec![];
    for v in [0u64, 1, 23, 24, 255, 256, 65535, 65536, u32::MAX as u64, 1 << 32, u64::MAX] {
        leaves.push(Node::uint(v));
    }
    for n in [0u64, 23, 24, 255, 256, 65535, 65536, u32::MAX as u64, 1 << 32, i64::MAX as u64, u64::MAX] {
        leaves.push(Node::nint(n));
    }
    for l in [0usize, 1, 23, 24, 28, 32, 127, 128, 129, 255, 256, 300] {
        leaves.push(Node::bytes(&pattern(l, 77 + l as u64)));
    }
    for s in ["", "a", "hi", "0123456789abcdefghijklmn", "\u{20ac}\u{10ffff}"] {
        leaves.push(Node::text(s));
    }
    leaves.push(Node::new(Kind::BytesIndef(vec![])));
    leaves.push(Node::new(Kind::BytesIndef(vec![(b"a".to_vec(), 0), (pattern(24, 5), 1)])));
    leaves.push(Node::new(Kind::TextIndef(vec![(b"h".to_vec(), 0), (b"i".to_vec(), 0)])));
    leaves.push(Node::null());
    leaves.push(Node::undefined());
    leaves.push(Node::bool(true));
    leaves.push(Node::bool(false));
    leaves.push(Node::new(Kind::Simple(16, 0)));
    leaves.push(Node::new(Kind::Simple(255, 1)));
    leaves.push(Node::new(Kind::Float(4, 1.5f32.to_bits() as u64)));
    leaves.push(Node::new(Kind::Float(8, (-0.1f64).to_bits())));

    fn containers(children: &[Node]) -> Vec<Node> {
        let mut lists: Vec<Vec<Node>> = vec![vec![]];
        for c in children {
            lists.push(vec![c.clone()]);
        }
        for (i, a) in children.iter().enumerate() {
            let b = &children[(i * 7 + 3) % children.len()];
            lists.push(vec![a.clone(), b.clone()]);
        }
        // one long list so that the length head needs a 1-byte argument
        lists.push((0..25).map(|i| children[i % children.len()].clone()).collect());
        let mut out = vec![];
        for l in lists {
            let n = l.len() as u64;
            out.push(Node::array(l.clone()));
            out.push(Node::array_indef(l.clone()));
            out.push(Node::tag(258, Node::array(l.clone())));
            out.push(Node::map(l.iter().map(|k| (k.clone(), Node::uint(n))).collect()));
            out.push(Node::map_indef(l.iter().map(|v| (Node::uint(n), v.clone())).collect()));
            if let Some(f) = l.first() {
                out.push(Node::tag(24, f.clone()));
                out.push(Node::tag(u64::MAX, f.clone()));
            }
        }
        out
    }
    let pick = |v: &[Node], n: usize| -> Vec<Node> {
        let step = (v.len() / n).max(1);
        v.iter().step_by(step).take(n).cloned().collect()
    };
    let d1 = containers(&leaves);
    let mut rep1 = pick(&leaves, 8);
    rep1.extend(pick(&d1, 24));
    let d2 = containers(&rep1);
    let mut rep2 = pick(&leaves, 3);
    rep2.extend(pick(&d2, 12));
    let d3 = containers(&rep2);
    let mut all = leaves;
    all.extend(d1);
    all.extend(d2);
    all.extend(d3);
    let mut seen = BTreeSet::new();
    all.retain(|n| seen.insert(n.to_vec()));
    all
}

fn section_cbor<T: H>(st: &St, items: &[Node]) {
    items.par_iter().enumerate().for_each(|(idx, node)| {
        let bytes = node.to_vec();
        // harness self-check: the wrapper must make minicbor emit exactly the
        // refcbor bytes, otherwise the expected digest would be about other bytes
        match catch(|| minicbor::to_vec(Enc(node))) {
            Ok(Ok(b)) if b == bytes => {}
            other => mc_core::report::machinery_failure(&format!("C10: encoder wrapper and refcbor disagree on {}: {:?}", hex::encode(&bytes), other.map(|r| r.map(|b| hex::encode(b)).map_err(|e| e.to_string())).map_err(|p| p.message))),
        }
        let mut keys = vec![];
        st.tick(1);
        let want = refb2b(T::BITS / 8, &bytes);
        match catch(|| T::cbor(&Enc(node))) {
            Ok(g) if g == want => keys.push(format!("cbor:{}:{}", T::BITS, hex::encode(&want))),
            Ok(g) => st.ctx.violation(
                "Hasher::hash_cbor:digest",
                format!("Hasher<{}>::hash_cbor(item {}) = {}, Blake2b(encoding) = {}", T::BITS, hex::encode(&bytes), hex::encode(&g), hex::encode(&want)),
                json!({"bits": T::BITS, "cbor": hex::encode(&bytes)}),
            ),
            Err(p) => st.ctx.violation(p.site(), format!("hash_cbor panicked: {} at {}", p.message, p.location), json!({"bits": T::BITS, "cbor": hex::encode(&bytes)})),
        }
        // all 256 tags on every 16th item, four tags on the others
        let tags: Vec<u8> = if idx % 16 == 0 { (0..=255).collect() } else { vec![0, 1, 3, 0xff] };
        for tag in tags {
            let mut cat = vec![tag];
            cat.extend_from_slice(&bytes);
            let want = refb2b(T::BITS / 8, &cat);
            st.tick(1);
            match catch(|| T::tagged_cbor(&Enc(node), tag)) {
                Ok(g) if g == want => keys.push(format!("tcbor:{}:{}", T::BITS, hex::encode(&want))),
                Ok(g) => st.ctx.violation(
                    "Hasher::hash_tagged_cbor:digest",
                    format!("Hasher<{}>::hash_tagged_cbor(item {}, tag {tag:#04x}) = {}, Blake2b(tag || encoding) = {}", T::BITS, hex::encode(&bytes), hex::encode(&g), hex::encode(&want)),
                    json!({"bits": T::BITS, "tag": tag, "cbor": hex::encode(&bytes)}),
                ),
                Err(p) => st.ctx.violation(p.site(), format!("hash_tagged_cbor panicked: {} at {}", p.message, p.location), json!({"bits": T::BITS, "tag": tag, "cbor": hex::encode(&bytes)})),
            }
        }
        st.nontrivial(keys);
    });
}

/// hash_cbor on ordinary Rust / pallas values (not the harness wrapper); the
/// expected encoding is written with refcbor.
fn section_cbor_native(st: &St) {
    let h32 = Hash::<32>::new(pattern(32, 9).try_into().unwrap());
    let h28 = Hash::<28>::new(pattern(28, 10).try_into().unwrap());
    let mut keys = vec![];
    let mut one = |name: &str, got: Result<Vec<u8>, mc_core::panics::PanicInfo>, expect: Node, tag: Option<u8>| {
        st.tick(1);
        let mut cat = vec![];
        if let Some(t) = tag {
            cat.push(t);
        }
        cat.extend(expect.to_vec());
        let want = refb2b(32, &cat);
        match got {
            Ok(g) if g == want => keys.push(format!("native:{name}:{tag:?}")),
            Ok(g) => st.ctx.violation(
                if tag.is_some() { "Hasher::hash_tagged_cbor:digest" } else { "Hasher::hash_cbor:digest" },
                format!("Hasher<256> over the CBOR of {name} (tag {tag:?}) = {}, Blake2b of {} = {}", hex::encode(&g), hex::encode(&cat), hex::encode(&want)),
                json!({"value": name, "tag": tag, "expected_preimage": hex::encode(&cat)}),
            ),
            Err(p) => st.ctx.violation(p.site(), format!("hash_cbor({name}) panicked: {} at {}", p.message, p.location), json!({"value": name})),
        }
    };
    one("5u64", catch(|| Hasher::<256>::hash_cbor(&5u64).to_vec()), Node::uint(5), None);
    one("u64::MAX", catch(|| Hasher::<256>::hash_cbor(&u64::MAX).to_vec()), Node::uint(u64::MAX), None);
    one("-25i64", catch(|| Hasher::<256>::hash_cbor(&-25i64).to_vec()), Node::int(-25), None);
    one("\"hi\"", catch(|| Hasher::<256>::hash_cbor(&"hi").to_vec()), Node::text("hi"), None);
    one("vec![1u64,2,300]", catch(|| Hasher::<256>::hash_cbor(&vec![1u64, 2, 300]).to_vec()), Node::array(vec![Node::uint(1), Node::uint(2), Node::uint(300)]), None);
    one("Option::<u64>::None", catch(|| Hasher::<256>::hash_cbor(&Option::<u64>::None).to_vec()), Node::null(), None);
    one("Hash<32>", catch(|| Hasher::<256>::hash_cbor(&h32).to_vec()), Node::bytes(h32.as_ref()), None);
    one("Hash<28>", catch(|| Hasher::<256>::hash_cbor(&h28).to_vec()), Node::bytes(h28.as_ref()), None);
    one("(7u64, Hash<28>)", catch(|| Hasher::<256>::hash_cbor(&(7u64, h28)).to_vec()), Node::array(vec![Node::uint(7), Node::bytes(h28.as_ref())]), None);
    one("Hash<32> tag 1", catch(|| Hasher::<256>::hash_tagged_cbor(&h32, 1).to_vec()), Node::bytes(h32.as_ref()), Some(1));
    one("vec![1u64,2,300] tag 0", catch(|| Hasher::<256>::hash_tagged_cbor(&vec![1u64, 2, 300], 0).to_vec()), Node::array(vec![Node::uint(1), Node::uint(2), Node::uint(300)]), Some(0));
    st.nontrivial(keys);
}

fn own_hex(b: &[u8]) -> String {
    b.iter().map(|x| format!("{x:02x}")).collect()
}

/// Hash<N> as a value: hex / CBOR / serde round trips and rejection of every
/// wrong length 0..=40.
fn section_hash_values<const N: usize>(st: &St, rejected: &Mutex<u64>) {
    let mut keys = vec![];
    let case = |b: &[u8]| json!({"N": N, "bytes": hex::encode(b)});
    let mut values: Vec<Vec<u8>> = vec![vec![0u8; N], vec![0xff; N], (0..N as u8).collect(), pattern(N, 21), pattern(N, 22), refb2b(N, b"C10")];
    values.push((0..N).map(|i| if i == N - 1 { 0x0a } else { 0xa0 }).collect());
    for v in &values {
        let arr: [u8; N] = v.clone().try_into().unwrap();
        let h = Hash::<N>::new(arr);
        let hx = own_hex(v);
        // hex
        st.tick(1);
        match catch(|| (h.to_string(), Hash::<N>::from_str(&hx))) {
            Ok((s, Ok(back))) if s == hx && back.as_ref() == &v[..] => keys.push(format!("hex-rt:{N}:{hx}")),
            Ok((s, back)) => st.ctx.violation("Hash:hex-roundtrip", format!("Hash<{N}> {hx}: to_string = {s}, from_str = {back:?}"), case(v)),
            Err(p) => st.ctx.violation(p.site(), format!("Hash<{N}> hex round trip panicked: {} at {}", p.message, p.location), case(v)),
        }
        // CBOR
        st.tick(1);
        let want = Node::bytes(v).to_vec();
        match catch(|| {
            let enc = minicbor::to_vec(h).map_err(|e| e.to_string())?;
            let dec: Hash<N> = minicbor::decode(&enc).map_err(|e| e.to_string())?;
            let dec_ref: Hash<N> = minicbor::decode(&want).map_err(|e| e.to_string())?;
            Ok::<_, String>((enc, dec, dec_ref))
        }) {
            Ok(Ok((enc, dec, dec_ref))) if enc == want && dec == h && dec_ref == h => keys.push(format!("cbor-rt:{N}:{hx}")),
            Ok(other) => st.ctx.violation("Hash:cbor-roundtrip", format!("Hash<{N}> {hx}: CBOR round trip gave {:?}, expected encoding {}", other.map(|(e, d, r)| (hex::encode(e), d, r)), hex::encode(&want)), case(v)),
            Err(p) => st.ctx.violation(p.site(), format!("Hash<{N}> CBOR round trip panicked: {} at {}", p.message, p.location), case(v)),
        }
        // serde (hex string)
        st.tick(1);
        match catch(|| {
            let s = serde_json::to_string(&h).map_err(|e| e.to_string())?;
            let back: Hash<N> = serde_json::from_str(&s).map_err(|e| e.to_string())?;
            Ok::<_, String>((s, back))
        }) {
            Ok(Ok((s, back))) if s == format!("\"{hx}\"") && back == h => keys.push(format!("serde-rt:{N}:{hx}")),
            Ok(other) => st.ctx.violation("Hash:serde-roundtrip", format!("Hash<{N}> {hx}: serde round trip gave {other:?}"), case(v)),
            Err(p) => st.ctx.violation(p.site(), format!("Hash<{N}> serde round trip panicked: {} at {}", p.message, p.location), case(v)),
        }
    }
    // wrong lengths
    for l in 0..=40usize {
        let b = pattern(l, 300 + l as u64);
        let hx = own_hex(&b);
        let right = l == N;
        let cb = Node::bytes(&b).to_vec();
        let checks: Vec<(&str, Result<Option<Vec<u8>>, mc_core::panics::PanicInfo>)> = vec![
            ("Hash::from_str", catch(|| Hash::<N>::from_str(&hx).ok().map(|h| h.to_vec()))),
            ("Hash::decode", catch(|| minicbor::decode::<Hash<N>>(&cb).ok().map(|h| h.to_vec()))),
            ("Hash::deserialize", catch(|| serde_json::from_str::<Hash<N>>(&format!("\"{hx}\"")).ok().map(|h| h.to_vec()))),
        ];
        for (site, r) in checks {
            st.tick(1);
            match r {
                Err(p) => st.ctx.violation(p.site(), format!("{site} of a {l}-byte value into Hash<{N}> panicked: {} at {}", p.message, p.location), case(&b)),
                Ok(Some(got)) if right && got == b => keys.push(format!("len-ok:{site}:{N}")),
                Ok(None) if !right => {
                    *rejected.lock().unwrap() += 1;
                    keys.push(format!("len-rej:{site}:{N}:{l}"));
                }
                Ok(Some(got)) if !right => st.ctx.violation(format!("{site}:accepts-wrong-length"), format!("{site} accepted a {l}-byte string as Hash<{N}> (value {})", hex::encode(got)), case(&b)),
                Ok(other) => st.ctx.violation(format!("{site}:rejects-right-length"), format!("{site} on a {N}-byte string gave {:?}", other.map(hex::encode)), case(&b)),
            }
        }
        // odd number of hex digits (one nibble more than l bytes)
        let odd = format!("{hx}a");
        st.tick(1);
        match catch(|| Hash::<N>::from_str(&odd).ok().map(|h| h.to_vec())) {
            Err(p) => st.ctx.violation(p.site(), format!("Hash::<{N}>::from_str({odd}) panicked: {} at {}", p.message, p.location), json!({"N": N, "hex": odd})),
            Ok(None) => {
                *rejected.lock().unwrap() += 1;
                keys.push(format!("len-rej-odd:{N}:{l}"));
            }
            Ok(Some(got)) => st.ctx.violation("Hash::from_str:accepts-wrong-length", format!("Hash::<{N}>::from_str accepted the {}-digit string {odd} as {}", odd.len(), hex::encode(got)), json!({"N": N, "hex": odd})),
        }
    }
    st.nontrivial(keys);
}

fn h32(b: &[u8]) -> Hash<32> {
    Hash::<32>::new(b.try_into().unwrap())
}

fn section_nonces(st: &St) {
    // The reference composition is itself anchored on chain data (epoch nonce
    // and eta_v values published for mainnet); a mismatch here is a harness error.
    {
        let nc = hex::decode("e86e133bd48ff5e79bec43af1ac3e348b539172f33e502d2c96735e8c51bd04d").unwrap();
        let nh = hex::decode("d7a1ff2a365abed59c9ae346cba842b6d3df06d055dba79a113e0704b44cc3e9").unwrap();
        let want = "e536a0081ddd6d19786e9d708a85819a5c3492c0da7349f59c8ad3e17e4acd98";
        if hex::encode(refb2b(32, &[nc, nh].concat())) != want {
            mc_core::report::machinery_failure("C10: reference epoch-nonce composition does not reproduce the mainnet vector");
        }
        let prev = hex::decode("1a3be38bcbb7911969283716ad7aa550250226b76a61fc51cc9a9a35d9276d81").unwrap();
        let vrf = hex::decode("36ec5378d1f5041a59eb8d96e61de96f0950fb41b49ff511f7bc7fd109d4383e1d24be7034e6749c6612700dd5ceb0c66577b88a19ae286b1321d15bce1ab736").unwrap();
        let want = "2af15f57076a8ff225746624882a77c8d2736fe41d3db70154a22b50af851246";
        if hex::encode(refb2b(32, &[prev, refb2b(32, &vrf)].concat())) != want {
            mc_core::report::machinery_failure("C10: reference rolling-nonce composition does not reproduce the mainnet vector");
        }
    }
    let hs: Vec<Vec<u8>> = vec![vec![0u8; 32], vec![0xff; 32], (0..32u8).collect(), pattern(32, 41), pattern(32, 42), refb2b(32, b"nonce")];
    let extras: Vec<Option<Vec<u8>>> = vec![None, Some(vec![]), Some(vec![0x00]), Some(pattern(32, 43)), Some(vec![0u8; 32]), Some(pattern(64, 44)), Some(pattern(129, 45))];
    let mut keys = vec![];
    for nc in &hs {
        for nh in &hs {
            for ee in &extras {
                st.tick(1);
                let base = refb2b(32, &[nc.clone(), nh.clone()].concat());
                let want = match ee {
                    None => base,
                    Some(e) => refb2b(32, &[base, e.clone()].concat()),
                };
                let case = json!({"nc": hex::encode(nc), "nh": hex::encode(nh), "extra_entropy": ee.as_ref().map(hex::encode)});
                match catch(|| generate_epoch_nonce(h32(nc), h32(nh), ee.as_deref()).to_vec()) {
                    Ok(g) if g == want => keys.push(format!("epoch:{}", hex::encode(&want))),
                    Ok(g) => st.ctx.violation("nonce:generate_epoch_nonce", format!("generate_epoch_nonce = {}, Praos composition = {}", hex::encode(g), hex::encode(&want)), case),
                    Err(p) => st.ctx.violation(p.site(), format!("generate_epoch_nonce panicked: {} at {}", p.message, p.location), case),
                }
            }
        }
    }
    let vrfs: Vec<Vec<u8>> = vec![vec![0u8; 32], vec![0xff; 32], pattern(32, 51), pattern(32, 52), vec![0u8; 64], vec![0xff; 64], pattern(64, 53), pattern(64, 54), (0..64u8).collect()];
    for prev in &hs {
        for v in &vrfs {
            st.tick(1);
            let want = refb2b(32, &[prev.clone(), refb2b(32, v)].concat());
            let case = json!({"previous_eta_v": hex::encode(prev), "eta_vrf_0": hex::encode(v)});
            match catch(|| generate_rolling_nonce(h32(prev), v).to_vec()) {
                Ok(g) if g == want => keys.push(format!("rolling:{}", hex::encode(&want))),
                Ok(g) => st.ctx.violation("nonce:generate_rolling_nonce", format!("generate_rolling_nonce = {}, Praos composition = {}", hex::encode(g), hex::encode(&want)), case),
                Err(p) => st.ctx.violation(p.site(), format!("generate_rolling_nonce panicked on a {}-byte VRF output: {} at {}", v.len(), p.message, p.location), case),
            }
        }
    }
    // a chain of 64 rolling steps (each output feeds the next)
    let mut prev_i = vec![0x11u8; 32];
    let mut prev_r = prev_i.clone();
    for k in 0..64u64 {
        st.tick(1);
        let v = pattern(if k % 2 == 0 { 64 } else { 32 }, 600 + k);
        prev_r = refb2b(32, &[prev_r.clone(), refb2b(32, &v)].concat());
        match catch(|| generate_rolling_nonce(h32(&prev_i), &v).to_vec()) {
            Ok(g) => {
                if g == prev_r {
                    keys.push(format!("rolling:{}", hex::encode(&g)));
                } else {
                    st.ctx.violation("nonce:generate_rolling_nonce", format!("step {k} of a rolling chain: got {}, reference {}", hex::encode(&g), hex::encode(&prev_r)), json!({"previous_eta_v": hex::encode(&prev_i), "eta_vrf_0": hex::encode(&v)}));
                }
                prev_i = g;
            }
            Err(p) => {
                st.ctx.violation(p.site(), format!("generate_rolling_nonce panicked: {} at {}", p.message, p.location), json!({"previous_eta_v": hex::encode(&prev_i), "eta_vrf_0": hex::encode(&v)}));
                break;
            }
        }
    }
    st.nontrivial(keys);
}

pub fn run(ctx: Ctx) -> ! {
    // reference self-check (RFC 7693 appendix A)
    if hex::encode(refb2b(64, b"abc")) != "ba80a53f981c4d0d6a2797b69f12f6e94c212f14685ac4b74b12bb6fdbffa2d17d87c5392aab792dc252d5de4533cc9518d38aa8dbf1925ab92386edd4009923" {
        mc_core::report::machinery_failure("C10: reference Blake2b fails the RFC 7693 vector");
    }
    let st = St { ctx: &ctx, evals: Default::default(), distinct: Mutex::new(BTreeSet::new()), split_ok: Default::default() };
    let thorough = ctx.thorough;

    section_splits::<H160>(&st, thorough);
    section_splits::<H224>(&st, thorough);
    section_splits::<H256>(&st, thorough);
    let after_splits = st.evals.load(std::sync::atomic::Ordering::Relaxed);

    section_tagged::<H160>(&st);
    section_tagged::<H224>(&st);
    section_tagged::<H256>(&st);

    let items = cbor_items();
    section_cbor::<H160>(&st, &items);
    section_cbor::<H224>(&st, &items);
    section_cbor::<H256>(&st, &items);
    section_cbor_native(&st);
    let after_cbor = st.evals.load(std::sync::atomic::Ordering::Relaxed);

    let rejected = Mutex::new(0u64);
    section_hash_values::<20>(&st, &rejected);
    section_hash_values::<28>(&st, &rejected);
    section_hash_values::<32>(&st, &rejected);
    let after_values = st.evals.load(std::sync::atomic::Ordering::Relaxed);

    section_nonces(&st);
    let evals = st.evals.load(std::sync::atomic::Ordering::Relaxed);

    let distinct = st.distinct.lock().unwrap();
    let split_ok = st.split_ok.load(std::sync::atomic::Ordering::Relaxed);
    if ctx.violation_count() == 0 && split_ok == 0 {
        mc_core::report::machinery_failure("C10: no split case compared");
    }
    let rejected = *rejected.lock().unwrap();
    if ctx.violation_count() == 0 {
        // 3 sizes x 3 parsers x 40 wrong lengths + 3 x 41 odd-length strings
        if rejected != 3 * 3 * 40 + 3 * 41 {
            mc_core::report::machinery_failure(&format!("C10: {rejected} wrong-length rejections observed, expected {}", 3 * 3 * 40 + 3 * 41));
        }
        for prefix in ["tagged:", "cbor:", "tcbor:", "native:", "hex-rt:", "cbor-rt:", "serde-rt:", "len-ok:", "epoch:", "rolling:"] {
            if !distinct.iter().any(|k| k.starts_with(prefix)) {
                mc_core::report::machinery_failure(&format!("C10: no successful comparison in section {prefix}"));
            }
        }
    }
    let samples: Vec<Value> = vec![
        json!({"section": "split", "bits": 256, "len": 200, "chunks": [127, 73], "digest": hex::encode(refb2b(32, &pattern(200, 200)))}),
        json!({"section": "hash_tagged", "bits": 224, "tag": 1, "payload_len": 28}),
        json!({"section": "hash_cbor", "item": hex::encode(items[items.len() / 2].to_vec())}),
        json!({"section": "hash_tagged_cbor", "tag": 3, "item": hex::encode(items[items.len() - 1].to_vec())}),
        json!({"section": "Hash<28> wrong length", "bytes": 27, "hex": own_hex(&pattern(27, 327))}),
        json!({"section": "epoch nonce", "nc": "00..00", "nh": "ff..ff", "extra_entropy": "32 bytes"}),
        json!({"section": "rolling nonce", "eta_vrf_0_len": 64}),
    ];
    let cov = cov! {
        "evaluations" => evals,
        "distinct_nontrivial" => distinct.len() as u64 + split_ok,
        "rule" => "evaluation = one call into pallas compared with the independent reference: (a) Hasher<160|224|256> fed every 2-way split (and every 3-way split up to the stated length, and byte-at-a-time) of a fixed pseudo-random message of every length 0..=272 and 383..385, 511..513, 1024, 4096 vs own RFC 7693 Blake2b; (b) hash_tagged for all 256 tags x 6 payloads; (c) hash_cbor / hash_tagged_cbor on every minimal-form CBOR item of a depth-3 grammar driven through the real minicbor encoder (all 256 tags on every 16th item, 4 tags otherwise) and on native values, vs Blake2b(tag || refcbor bytes); (d) Hash<20|28|32> hex / CBOR / serde round trips and every length 0..=40 (+ odd digit counts) through from_str / CBOR decode / deserialize; (e) epoch nonce over 6x6 hashes x 7 extra-entropy options, rolling nonce over 6 x 9 VRF outputs (32/64 bytes) and a 64-step chain. distinct_nontrivial = distinct (section, parameters) cases whose comparison succeeded and that are not degenerate (splits with an empty chunk are not counted)",
        "samples" => samples,
        "complete_subspaces" => ["all 2-way splits of each listed length", "all 3-way splits up to the stated length", "all 256 tag bytes", "all lengths 0..=40 against Hash<20|28|32>"],
        "evaluations_incremental_hashing" => after_splits,
        "evaluations_tagged_and_cbor" => after_cbor - after_splits,
        "evaluations_hash_values" => after_values - after_cbor,
        "evaluations_nonces" => evals - after_values,
        "cbor_items" => items.len(),
        "three_way_splits_up_to_length" => if thorough { 272 } else { 48 },
        "wrong_length_rejections_observed" => rejected,
    };
    drop(distinct);
    ctx.finish(
        Level::Exploration,
        cov,
        &[
            "one message content per length (pseudo-random, fixed); Blake2b's dependence on content is covered only through the reference comparison on these messages",
            "generate_rolling_nonce with VRF outputs that are not 32 or 64 bytes panics as documented and is excluded",
            "feature `relaxed` of pallas-crypto is off (the length-checked decoder is the one compiled)",
            "minicbor's encoder is trusted to call Write::write_all with the bytes it reports through to_vec (cross-checked against refcbor for every item)",
        ],
    )
}
