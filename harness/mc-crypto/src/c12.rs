//! C12 — KES keys sign verifiably for exactly their current period.
//! SEQ / model checking: the history is the evolution sequence. The model is
//! the abstract KES automaton of depth d: states t = 0..2^d-1, `update` leads
//! from t to t+1 and is refused in 2^d-1; observations period(t) = t, public
//! key constant, verify(p) accepts iff p = t. The complete history of every
//! sum / compact-sum type of depth 1..7 is replayed on the real key for every
//! seed of the grid and every observation is compared with the model.

use crate::kes::{self, KesType, Walk};
use mc_core::{cov, json, Ctx, Level, Value};
use rayon::prelude::*;
use std::collections::BTreeSet;

#[derive(Default)]
struct Stats {
    states: u64,
    transitions: u64,
    traces: u64,
    verify_calls: u64,
    accepted_at_own_period: u64,
    rejected_at_other_period: u64,
    sig_roundtrips: u64,
    resumed: u64,
    resume_mismatch: u64,
    failed_update_changed_buffer: u64,
    buffers: BTreeSet<Vec<u8>>,
    sample: Option<Value>,
}

fn check_walk(ctx: &Ctx, ty: &KesType, seed: &[u8; 32], msgs: &[Vec<u8>], w: &Walk) -> Stats {
    let mut s = Stats::default();
    let total: u32 = 1 << ty.depth;
    let fam = ty.family;
    let base = |t: u32| json!({"type": ty.name, "depth": ty.depth, "seed": hex::encode(seed), "updates": t});
    if let Some((op, p)) = &w.panic {
        ctx.violation(p.site(), format!("{}::{op} panicked after {} updates: {} at {}", ty.name, w.steps.len().saturating_sub(1), p.message, p.location), base(w.steps.len().saturating_sub(1) as u32));
    }
    let mut trace = vec![];
    for (i, st) in w.steps.iter().enumerate() {
        let t = st.t;
        debug_assert_eq!(i as u32, t);
        if t >= total {
            // only reachable when update succeeded in the last period (reported below)
            break;
        }
        s.states += 1;
        s.buffers.insert([ty.name.as_bytes(), &st.buf].concat());
        if st.period != t {
            ctx.violation(format!("{fam}:get_period"), format!("{} evolved {t} times reports period {}", ty.name, st.period), base(t));
        }
        if st.pk != w.keygen_pk {
            ctx.violation(format!("{fam}:to_pk-changes"), format!("{} evolved {t} times: to_pk = {}, keygen returned {}", ty.name, hex::encode(st.pk), hex::encode(w.keygen_pk)), base(t));
        }
        let mut ok_at: BTreeSet<u32> = BTreeSet::new();
        for so in &st.sigs {
            let mcase = || {
                let mut c = base(t);
                c["message"] = json!(hex::encode(&msgs[so.msg]));
                c
            };
            s.sig_roundtrips += 1;
            if let Some(e) = &so.roundtrip_err {
                ctx.violation(format!("{fam}:signature-bytes-roundtrip"), format!("{} period {t}: {e} (signature {})", ty.name, hex::encode(&so.bytes)), mcase());
            } else if so.roundtrip_verifies == Some(false) {
                ctx.violation(format!("{fam}:signature-bytes-roundtrip"), format!("{} period {t}: the signature restored from its bytes no longer verifies", ty.name), mcase());
            }
            let mut seen_own = false;
            for (p, ok, err) in &so.verify {
                s.verify_calls += 1;
                if *p == t {
                    seen_own = true;
                    if *ok {
                        s.accepted_at_own_period += 1;
                        ok_at.insert(*p);
                    } else {
                        ctx.violation(format!("{fam}:verify-rejects-own-period"), format!("{} evolved {t} times: its signature does not verify at period {t}: {err}", ty.name), mcase());
                    }
                } else if *ok {
                    ok_at.insert(*p);
                    let mut c = mcase();
                    c["verified_at_period"] = json!(p);
                    ctx.violation(format!("{fam}:verify-accepts-other-period"), format!("{} evolved {t} times: its signature also verifies at period {p}", ty.name), c);
                } else {
                    s.rejected_at_other_period += 1;
                }
            }
            if !seen_own && w.panic.is_none() {
                mc_core::report::machinery_failure("C12: own period missing from the verification set");
            }
        }
        // transition
        match (&st.update_err, t + 1 == total) {
            (None, false) | (Some(_), true) => {}
            (Some(e), false) => {
                ctx.violation(format!("{fam}:update-fails-early"), format!("{}::update failed at period {t} of {total}: {e}", ty.name), base(t));
            }
            (None, true) => {
                if w.steps.len() as u32 > total {
                    ctx.violation(format!("{fam}:update-succeeds-in-last-period"), format!("{}::update succeeded at period {t} = 2^{} - 1", ty.name, ty.depth), base(t));
                }
            }
        }
        if let Some((after, per)) = &st.after_failed_update {
            // the refused update is not an evolution: the key has still evolved
            // t times and must go on reporting period t (statement: "a key evolved
            // t times reports period t")
            if *per != st.period {
                ctx.violation(format!("{fam}:period-after-refused-update"), format!("{} evolved {t} times reports period {per} after the refused update (expected {})", ty.name, st.period), base(t));
            }
            if after != &st.buf {
                s.failed_update_changed_buffer += 1;
            }
        }
        if trace.len() < 4 || t + 1 == total {
            trace.push(json!({"t": t, "period": st.period, "pk_unchanged": st.pk == w.keygen_pk, "verifies_at": ok_at, "update": st.update_err.clone().unwrap_or_else(|| "ok".into())}));
        }
        // differential from this (non-initial) state: a key restored from the
        // buffer behaves like the evolved one. Diagnostic, not part of the verdict.
        if let Some(so) = st.sigs.last() {
            s.resumed += 1;
            match (ty.resume)(&st.buf, &msgs[so.msg]) {
                Err(_) => s.resume_mismatch += 1,
                Ok(r) => {
                    let next = match (&st.update_err, w.steps.get(i + 1), &st.after_failed_update) {
                        (None, Some(n), _) => Some(&n.buf),
                        (Some(_), _, Some((a, _))) => Some(a),
                        _ => None,
                    };
                    if r.period != st.period || r.pk != st.pk || r.sig != so.bytes || r.update_ok != st.update_err.is_none() || next.map(|n| n != &r.buf_after).unwrap_or(false) {
                        s.resume_mismatch += 1;
                    }
                }
            }
        }
    }
    if w.panic.is_none() && (w.steps.len() as u32) < total && w.steps.last().map(|l| l.update_err.is_none()).unwrap_or(true) {
        mc_core::report::machinery_failure(&format!("C12: walk of {} stopped after {} states without a failing update", ty.name, w.steps.len()));
    }
    s.traces = 1;
    s.transitions = w.updates_attempted;
    s.sample = Some(json!({"type": ty.name, "seed": hex::encode(seed), "trace(first states and last)": trace}));
    s
}

pub fn seeds(n: usize) -> Vec<[u8; 32]> {
    let mut v: Vec<[u8; 32]> = vec![[0u8; 32], [0xff; 32], core::array::from_fn(|i| i as u8)];
    let mut k = 0;
    while v.len() < n {
        v.push(kes::pattern(32, 900 + k).try_into().unwrap());
        k += 1;
    }
    v.truncate(n);
    v
}

pub fn run(ctx: Ctx) -> ! {
    let types = kes::all_types();
    let seeds = seeds(if ctx.thorough { 16 } else { 3 });
    let mut msgs: Vec<Vec<u8>> = vec![vec![], kes::pattern(33, 1)];
    if ctx.thorough {
        msgs.push(kes::pattern(1, 2));
        msgs.push(kes::pattern(1024, 3));
    }
    let mut jobs: Vec<(KesType, [u8; 32])> = types.iter().flat_map(|t| seeds.iter().map(move |s| (*t, *s))).collect();
    jobs.sort_by_key(|(t, _)| std::cmp::Reverse(t.depth));
    let per: Vec<Stats> = jobs
        .par_iter()
        .map(|(ty, seed)| {
            let total: u32 = 1 << ty.depth;
            let all = move |_t: u32| (0..total).collect::<Vec<u32>>();
            let w = (ty.walk)(seed, &msgs, &all);
            check_walk(&ctx, ty, seed, &msgs, &w)
        })
        .collect();
    let mut tot = Stats::default();
    let mut samples = vec![];
    for (i, s) in per.into_iter().enumerate() {
        tot.states += s.states;
        tot.transitions += s.transitions;
        tot.traces += s.traces;
        tot.verify_calls += s.verify_calls;
        tot.accepted_at_own_period += s.accepted_at_own_period;
        tot.rejected_at_other_period += s.rejected_at_other_period;
        tot.sig_roundtrips += s.sig_roundtrips;
        tot.resumed += s.resumed;
        tot.resume_mismatch += s.resume_mismatch;
        tot.failed_update_changed_buffer += s.failed_update_changed_buffer;
        tot.buffers.extend(s.buffers);
        // one sample per construction at a small depth, plus one deep one
        let (ty, _) = &jobs[i];
        if let Some(v) = s.sample {
            if (ty.depth == 2 || ty.depth == 7) && samples.len() < 4 && jobs[..i].iter().filter(|(t, _)| t.name == ty.name).count() == 1 {
                samples.push(v);
            }
        }
    }
    let expect_states: u64 = seeds.len() as u64 * 2 * (1..=7).map(|d| 1u64 << d).sum::<u64>();
    let expect_rejects: u64 = seeds.len() as u64 * 2 * msgs.len() as u64 * (1..=7).map(|d| (1u64 << d) * ((1u64 << d) - 1)).sum::<u64>();
    if ctx.violation_count() == 0
        && (tot.states != expect_states
            || tot.transitions != expect_states
            || tot.accepted_at_own_period != expect_states * msgs.len() as u64
            || tot.rejected_at_other_period != expect_rejects
            || tot.buffers.len() as u64 != expect_states)
    {
        mc_core::report::machinery_failure(&format!(
            "C12: coverage differs from the stated space: states {} (expected {expect_states}), transitions {}, accepted {}, rejected {} (expected {expect_rejects}), distinct buffers {}",
            tot.states,
            tot.transitions,
            tot.accepted_at_own_period,
            tot.rejected_at_other_period,
            tot.buffers.len()
        ));
    }
    if tot.resume_mismatch > 0 {
        ctx.note(format!("diagnostic: {} of {} keys restored with from_bytes(as_bytes()) behaved differently from the evolved key", tot.resume_mismatch, tot.resumed));
    }
    if tot.failed_update_changed_buffer > 0 {
        ctx.note(format!("diagnostic: the refused update changed the key buffer in {} walks", tot.failed_update_changed_buffer));
    }
    let cov = cov! {
        "states" => tot.states,
        "transitions" => tot.transitions,
        "traces_validated_against_impl" => tot.traces,
        "samples" => samples,
        "rule" => "state = (KES type, seed, number of updates t); every state of every type Sum{1..7}Kes and Sum{1..7}CompactKes is reached by replaying update^t on a real key made by keygen; in each state get_period, to_pk, sign (each message), Sig::to_bytes/from_bytes and verify at EVERY period 0..2^d-1 are compared with the model (period = t, key unchanged, accept iff p = t); transitions = update calls including the refused one in state 2^d-1; a trace = one maximal evolution history (2^d - 1 updates + the refused update) per (type, seed)",
        "exhaustive" => true,
        "fixpoint" => true,
        "kes_types" => types.len(),
        "seeds" => seeds.len(),
        "messages" => msgs.len(),
        "verify_calls" => tot.verify_calls,
        "accepted_at_own_period" => tot.accepted_at_own_period,
        "rejected_at_other_period" => tot.rejected_at_other_period,
        "signature_roundtrips" => tot.sig_roundtrips,
        "distinct_key_buffers" => tot.buffers.len(),
        "states_resumed_from_bytes(diagnostic)" => tot.resumed,
        "resume_mismatches(diagnostic)" => tot.resume_mismatch,
    };
    ctx.finish(
        Level::ModelChecking,
        cov,
        &[
            "seeds and messages are a fixed grid (all-zero, all-ff, counter, pseudo-random fill); the evolution space per seed (all periods of all depths 1..7) is complete",
            "periods >= 2^depth (out of range) are not given to verify",
            "the refused update leaving the buffer untouched and from_bytes(as_bytes()) resuming identically are logged as diagnostics only (not stated by the property)",
        ],
    )
}
