//! C14 — constant-time byte comparisons agree with ordinary comparisons.
//! GRID, complete: all 2^16 pairs of length 1; length 2 either over one
//! representative pair for every (accumulator state, byte difference) of the
//! fold (quick) or all 2^32 pairs (thorough); lengths 3 and 4 over a 5-value
//! byte alphabet; one-/two-difference families at lengths 8..64.
//! Oracle: slice `==` and slice `cmp` of the standard library.

use mc_core::{catch, cov, json, Ctx, Level, Value};
use pallas_crypto::memsec::{memcmp, memeq};
use rayon::prelude::*;
use std::cmp::Ordering;

const NSTATE: usize = 511; // differences / accumulator values -255..=255

fn call_eq(a: &[u8], b: &[u8]) -> bool {
    unsafe { memeq(a.as_ptr(), b.as_ptr(), a.len()) }
}
fn call_cmp(a: &[u8], b: &[u8]) -> Ordering {
    unsafe { memcmp(a.as_ptr(), b.as_ptr(), a.len()) }
}

struct Acc {
    evals: u64,
    eq_true: u64,
    eq_false: u64,
    less: u64,
    equal: u64,
    greater: u64,
    /// (state before, byte difference) transitions of the reverse fold that
    /// the evaluated pairs drove memcmp through (harness-side model of the
    /// accumulator: the difference of the lowest-index differing byte seen so far).
    trans: Vec<u64>,
    /// (xor accumulator before, byte xor) transitions of memeq's fold.
    xtrans: Vec<u64>,
    bad_eq: Vec<(Vec<u8>, Vec<u8>, bool)>,
    bad_cmp: Vec<(Vec<u8>, Vec<u8>, Ordering)>,
    bad_eq_n: u64,
    bad_cmp_n: u64,
    panics: Vec<(Vec<u8>, Vec<u8>, mc_core::panics::PanicInfo)>,
}

impl Acc {
    fn new() -> Acc {
        Acc {
            evals: 0,
            eq_true: 0,
            eq_false: 0,
            less: 0,
            equal: 0,
            greater: 0,
            trans: vec![0u64; (NSTATE * NSTATE + 63) / 64],
            xtrans: vec![0u64; 256 * 256 / 64],
            bad_eq: vec![],
            bad_cmp: vec![],
            bad_eq_n: 0,
            bad_cmp_n: 0,
            panics: vec![],
        }
    }
    fn merge(mut self, o: Acc) -> Acc {
        self.evals += o.evals;
        self.eq_true += o.eq_true;
        self.eq_false += o.eq_false;
        self.less += o.less;
        self.equal += o.equal;
        self.greater += o.greater;
        for (x, y) in self.trans.iter_mut().zip(o.trans.iter()) {
            *x |= *y;
        }
        for (x, y) in self.xtrans.iter_mut().zip(o.xtrans.iter()) {
            *x |= *y;
        }
        self.bad_eq_n += o.bad_eq_n;
        self.bad_cmp_n += o.bad_cmp_n;
        // keep the smallest witnesses (shortest, then lexicographic) so that the
        // reported case does not depend on how rayon split the work
        self.bad_eq.extend(o.bad_eq);
        self.bad_eq.sort_by(|x, y| (x.0.len(), &x.0, &x.1).cmp(&(y.0.len(), &y.0, &y.1)));
        self.bad_eq.truncate(4);
        self.bad_cmp.extend(o.bad_cmp);
        self.bad_cmp.sort_by(|x, y| (x.0.len(), &x.0, &x.1).cmp(&(y.0.len(), &y.0, &y.1)));
        self.bad_cmp.truncate(4);
        self.panics.extend(o.panics);
        self.panics.sort_by(|x, y| (x.0.len(), &x.0, &x.1).cmp(&(y.0.len(), &y.0, &y.1)));
        self.panics.truncate(4);
        self
    }

    /// One pair, both functions, against the standard-library oracle. Not
    /// wrapped in `catch` itself: callers wrap whole batches (see `block`).
    #[inline]
    fn pair(&mut self, a: &[u8], b: &[u8]) {
        debug_assert!(a.len() == b.len() && !a.is_empty());
        self.evals += 1;
        let e = call_eq(a, b);
        let o = call_cmp(a, b);
        let want_e = a == b;
        let want_o = a.cmp(b);
        if e {
            self.eq_true += 1
        } else {
            self.eq_false += 1
        }
        match o {
            Ordering::Less => self.less += 1,
            Ordering::Equal => self.equal += 1,
            Ordering::Greater => self.greater += 1,
        }
        if e != want_e {
            self.bad_eq_n += 1;
            if self.bad_eq.len() < 4 {
                self.bad_eq.push((a.to_vec(), b.to_vec(), e));
            }
        }
        if o != want_o {
            self.bad_cmp_n += 1;
            if self.bad_cmp.len() < 4 {
                self.bad_cmp.push((a.to_vec(), b.to_vec(), o));
            }
        }
        // model of the folds, for the coverage metric only
        let mut st: i32 = 0;
        let mut xs: usize = 0;
        for i in (0..a.len()).rev() {
            let d = a[i] as i32 - b[i] as i32;
            let idx = (st + 255) as usize * NSTATE + (d + 255) as usize;
            self.trans[idx / 64] |= 1 << (idx % 64);
            if d != 0 {
                st = d;
            }
        }
        for i in 0..a.len() {
            let x = (a[i] ^ b[i]) as usize;
            let idx = xs * 256 + x;
            self.xtrans[idx / 64] |= 1 << (idx % 64);
            xs |= x;
        }
    }

    /// Evaluate pairs `get(0..n)` inside `catch`; a panic is attributed to the
    /// exact pair and the enumeration continues with the next one.
    fn block(&mut self, n: usize, get: impl Fn(usize, &mut Vec<u8>, &mut Vec<u8>)) {
        let mut a: Vec<u8> = Vec::with_capacity(64);
        let mut b: Vec<u8> = Vec::with_capacity(64);
        let mut start = 0usize;
        while start < n {
            let mut pos = start;
            let r = catch(|| {
                for k in start..n {
                    pos = k;
                    get(k, &mut a, &mut b);
                    self.pair(&a, &b);
                }
            });
            match r {
                Ok(()) => break,
                Err(p) => {
                    get(pos, &mut a, &mut b);
                    self.evals += 1;
                    if self.panics.len() < 4 {
                        self.panics.push((a.clone(), b.clone(), p));
                    }
                    start = pos + 1;
                }
            }
        }
    }
}

fn popcount(v: &[u64]) -> u64 {
    v.iter().map(|x| x.count_ones() as u64).sum()
}

fn rep(d: i32) -> (u8, u8) {
    if d >= 0 {
        (d as u8, 0)
    } else {
        (0, (-d) as u8)
    }
}

pub fn run(ctx: Ctx) -> ! {
    let thorough = ctx.thorough;
    let mut total = Acc::new();

    // ---- length 1: all 2^16 pairs
    let l1 = (0u32..256)
        .into_par_iter()
        .fold(Acc::new, |mut acc, a| {
            acc.block(256, |k, x, y| {
                x.clear();
                y.clear();
                x.push(a as u8);
                y.push(k as u8);
            });
            acc
        })
        .reduce(Acc::new, Acc::merge);
    let len1_pairs = l1.evals;
    total = total.merge(l1);

    // ---- length 2
    let len2_pairs;
    let len2_mode;
    if thorough {
        // all 2^32 pairs: outer = (a0,b0), inner = all (a1,b1)
        let l2 = (0u32..65536)
            .into_par_iter()
            .fold(Acc::new, |mut acc, o| {
                let (a0, b0) = ((o >> 8) as u8, o as u8);
                acc.block(65536, |k, x, y| {
                    x.clear();
                    y.clear();
                    x.extend_from_slice(&[a0, (k >> 8) as u8]);
                    y.extend_from_slice(&[b0, k as u8]);
                });
                acc
            })
            .reduce(Acc::new, Acc::merge);
        len2_pairs = l2.evals;
        len2_mode = "all 2^32 pairs";
        total = total.merge(l2);
    } else {
        // one representative pair for every (state after byte 1, difference at byte 0):
        // byte 1 is processed first by the reverse fold
        let l2 = (-255i32..=255)
            .into_par_iter()
            .fold(Acc::new, |mut acc, d1| {
                let (a1, b1) = rep(d1);
                acc.block(NSTATE, |k, x, y| {
                    let (a0, b0) = rep(k as i32 - 255);
                    x.clear();
                    y.clear();
                    x.extend_from_slice(&[a0, a1]);
                    y.extend_from_slice(&[b0, b1]);
                });
                acc
            })
            .reduce(Acc::new, Acc::merge);
        len2_pairs = l2.evals;
        len2_mode = "one representative pair per (accumulator state, difference): 511 x 511";
        total = total.merge(l2);
    }

    // ---- lengths 3 and 4 over {00,01,7f,80,ff}
    const AL: [u8; 5] = [0x00, 0x01, 0x7f, 0x80, 0xff];
    let strings = |n: usize| -> Vec<Vec<u8>> {
        let mut v: Vec<Vec<u8>> = vec![vec![]];
        for _ in 0..n {
            v = v.into_iter().flat_map(|s| AL.iter().map(move |&c| [s.clone(), vec![c]].concat())).collect();
        }
        v
    };
    let mut len34_pairs = 0u64;
    for n in [3usize, 4] {
        let ss = strings(n);
        let part = ss
            .par_iter()
            .fold(Acc::new, |mut acc, a| {
                acc.block(ss.len(), |k, x, y| {
                    x.clear();
                    y.clear();
                    x.extend_from_slice(a);
                    y.extend_from_slice(&ss[k]);
                });
                acc
            })
            .reduce(Acc::new, Acc::merge);
        len34_pairs += part.evals;
        total = total.merge(part);
    }

    // ---- longer strings: equal, one difference at every position, two
    // differences of either sign at every position pair (the lower index decides)
    let mut long_pairs = 0u64;
    for n in [8usize, 31, 32, 33, 64] {
        let base: Vec<u8> = (0..n).map(|i| (i as u8).wrapping_mul(37).wrapping_add(0x40) | 1).map(|x| x.clamp(1, 254)).collect();
        let mut cases: Vec<(Vec<u8>, Vec<u8>)> = vec![(base.clone(), base.clone())];
        for i in 0..n {
            for di in [-1i32, 1] {
                let mut b = base.clone();
                b[i] = (b[i] as i32 + di) as u8;
                cases.push((base.clone(), b.clone()));
                cases.push((b.clone(), base.clone()));
                let mut z = base.clone();
                z[i] = if di < 0 { 0 } else { 255 };
                cases.push((base.clone(), z));
                for j in i + 1..n {
                    for dj in [-1i32, 1] {
                        let mut c = b.clone();
                        c[j] = (c[j] as i32 + dj) as u8;
                        cases.push((base.clone(), c.clone()));
                        cases.push((c, base.clone()));
                    }
                }
            }
        }
        let part = cases
            .par_chunks(256)
            .fold(Acc::new, |mut acc, ch| {
                acc.block(ch.len(), |k, x, y| {
                    x.clear();
                    y.clear();
                    x.extend_from_slice(&ch[k].0);
                    y.extend_from_slice(&ch[k].1);
                });
                acc
            })
            .reduce(Acc::new, Acc::merge);
        long_pairs += part.evals;
        total = total.merge(part);
    }

    // ---- verdicts
    let case = |a: &[u8], b: &[u8]| json!({"a": hex::encode(a), "b": hex::encode(b), "len": a.len()});
    for (a, b, got) in &total.bad_eq {
        ctx.violation(
            "memeq:wrong-result",
            format!("memeq({}, {}) = {got}, strings are {}", hex::encode(a), hex::encode(b), if a == b { "equal" } else { "different" }),
            case(a, b),
        );
    }
    for (a, b, got) in &total.bad_cmp {
        ctx.violation(
            "memcmp:wrong-ordering",
            format!("memcmp({}, {}) = {got:?}, lexicographic order is {:?}", hex::encode(a), hex::encode(b), a.cmp(b)),
            case(a, b),
        );
    }
    for (a, b, p) in &total.panics {
        ctx.violation(p.site(), format!("memeq/memcmp panicked on non-empty equal-length input: {} at {}", p.message, p.location), case(a, b));
    }
    if total.bad_eq_n + total.bad_cmp_n > 0 {
        ctx.note(format!("wrong memeq results: {}, wrong memcmp results: {}", total.bad_eq_n, total.bad_cmp_n));
    }

    // ---- vacuity guards
    let trans = popcount(&total.trans);
    let xtrans = popcount(&total.xtrans);
    if trans != (NSTATE * NSTATE) as u64 {
        mc_core::report::machinery_failure(&format!("C14: only {trans} of {} (state, difference) transitions of the memcmp fold were realised", NSTATE * NSTATE));
    }
    if xtrans != 256 * 256 {
        mc_core::report::machinery_failure(&format!("C14: only {xtrans} of 65536 (accumulator, xor) transitions of the memeq fold were realised"));
    }
    if len1_pairs != 65536 || (thorough && len2_pairs != 1u64 << 32) || (!thorough && len2_pairs != (NSTATE * NSTATE) as u64) {
        mc_core::report::machinery_failure(&format!("C14: enumeration incomplete (len1 {len1_pairs}, len2 {len2_pairs})"));
    }
    if total.panics.is_empty() && total.bad_eq_n == 0 && total.bad_cmp_n == 0 && (total.eq_true == 0 || total.eq_false == 0 || total.less == 0 || total.equal == 0 || total.greater == 0) {
        mc_core::report::machinery_failure("C14: an outcome class (true/false, Less/Equal/Greater) was never observed");
    }

    let samples: Vec<Value> = [
        (vec![0x00u8], vec![0x00u8]),
        (vec![0x00], vec![0xff]),
        (vec![0x80, 0x00], vec![0x7f, 0xff]),
        (vec![0x01, 0xff], vec![0x01, 0x00]),
        (vec![0xff, 0x00, 0x01, 0x7f], vec![0xff, 0x00, 0x01, 0x80]),
    ]
    .iter()
    .map(|(a, b)| {
        let r = catch(|| (call_eq(a, b), call_cmp(a, b)));
        json!({"a": hex::encode(a), "b": hex::encode(b), "memeq": r.as_ref().ok().map(|x| x.0), "memcmp": r.as_ref().ok().map(|x| format!("{:?}", x.1)), "expected_eq": a == b, "expected_cmp": format!("{:?}", a.cmp(b))})
    })
    .collect();

    let cov = cov! {
        "evaluations" => total.evals,
        "distinct_nontrivial" => trans,
        "rule" => "evaluation = one pair (a,b) of equal-length non-empty strings given to BOTH memeq and memcmp and compared with slice == / slice cmp; distinct_nontrivial = number of distinct (accumulator state before, byte difference) transitions of memcmp's reverse fold realised by the evaluated pairs (harness-side model of the accumulator; 511 x 511 possible), measured with a bitmap",
        "samples" => samples,
        "exhaustive" => true,
        "len1_pairs" => len1_pairs,
        "len2_pairs" => len2_pairs,
        "len2_mode" => len2_mode,
        "len3_len4_pairs_over_00_01_7f_80_ff" => len34_pairs,
        "long_family_pairs(len 8,31,32,33,64: equal / one difference / two differences)" => long_pairs,
        "memeq_fold_transitions(acc,xor)_realised_of_65536" => xtrans,
        "outcomes" => json!({"memeq_true": total.eq_true, "memeq_false": total.eq_false, "Less": total.less, "Equal": total.equal, "Greater": total.greater}),
        "closure_argument" => "memcmp folds bytes from the last index to the first with res' = (res & mask(diff)) | diff, diff in [-255,255]; res is 0 initially and after any prefix is 0 or the last non-zero diff, hence in [-255,255]; every such value is reachable after one byte, so the length-2 enumeration drives the fold through every (res, diff) transition and the final sign extraction is applied to every res in [-255,255] by the length-1 enumeration; longer strings only repeat these transitions. The same holds for memeq's (acc |= xor) fold with 256 x 256 transitions.",
    };
    ctx.finish(
        Level::Exploration,
        cov,
        &["strings longer than 2 bytes are covered by the closure argument plus structured families, not enumerated", "timing behaviour (constant-time-ness) is not examined, only results", "len = 0 panics as documented and is outside the property"],
    )
}
