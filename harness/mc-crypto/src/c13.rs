//! C13 — KES evolution erases all signing material of past periods.
//! SEQ / model checking over the complete evolution history of every sum /
//! compact-sum type. Oracle: an independent seed-tree model (own Blake2b,
//! ed25519-dalek, sha2) that is first BOUND to the implementation (same root
//! public key; model leaf key p verifies the implementation's period-p
//! signature) and then tells, for every reachable key state t, which 32-byte
//! values would let an attacker re-derive a signing key of a period < t. None
//! of them may occur at any offset of `as_bytes()`.

use crate::kes::{self, KesType};
use ed25519_dalek::{Signature as DSig, SigningKey, Verifier, VerifyingKey};
use mc_core::blake2b::blake2b_256;
use mc_core::{cov, json, Ctx, Level, Value};
use rayon::prelude::*;
use sha2::{Digest, Sha512};
use std::collections::BTreeMap;

/// One node of the model tree, covering leaves lo..hi.
struct MNode {
    seed: [u8; 32],
    lo: u32,
    hi: u32,
    /// right child of its parent (its seed is what the implementation keeps
    /// for a subtree that lies wholly in the future)
    is_right: bool,
    leaf_pk: Option<[u8; 32]>,
}

/// `left = H(01 || s)`, `right = H(02 || s)`; a leaf's seed is its Ed25519
/// secret key; an inner node's key is H(pk_left || pk_right). Returns the
/// subtree's public key.
fn build(seed: [u8; 32], depth: u32, lo: u32, is_right: bool, out: &mut Vec<MNode>) -> [u8; 32] {
    if depth == 0 {
        let pk = SigningKey::from_bytes(&seed).verifying_key().to_bytes();
        out.push(MNode { seed, lo, hi: lo + 1, is_right, leaf_pk: Some(pk) });
        return pk;
    }
    let half = 1u32 << (depth - 1);
    out.push(MNode { seed, lo, hi: lo + 2 * half, is_right, leaf_pk: None });
    let l = blake2b_256(&[&[1u8][..], &seed].concat());
    let r = blake2b_256(&[&[2u8][..], &seed].concat());
    let pl = build(l, depth - 1, lo, false, out);
    let pr = build(r, depth - 1, lo + half, true, out);
    blake2b_256(&[pl, pr].concat())
}

/// Every (offset, value, description) at which a forbidden 32-byte value occurs.
fn find_forbidden(buf: &[u8], forbidden: &BTreeMap<[u8; 32], String>) -> Vec<(usize, [u8; 32], String)> {
    let mut hits = vec![];
    for off in 0..=buf.len().saturating_sub(32) {
        let win: [u8; 32] = buf[off..off + 32].try_into().unwrap();
        if let Some(d) = forbidden.get(&win) {
            hits.push((off, win, d.clone()));
        }
    }
    hits
}

#[derive(Default)]
struct Stats {
    scanner_selftests: u64,
    states: u64,
    transitions: u64,
    traces_bound: u64,
    windows: u64,
    forbidden_values: u64,
    leaf_bindings: u64,
    expected_present_checks: u64,
    seed_not_zeroed: u64,
    sample: Option<Value>,
}

fn check(ctx: &Ctx, ty: &KesType, seed: &[u8; 32]) -> Stats {
    let mut s = Stats::default();
    let total: u32 = 1 << ty.depth;
    let msg = kes::pattern(40, 13);
    let msgs = vec![msg.clone()];
    let own = |t: u32| vec![t];
    let w = (ty.walk)(seed, &msgs, &own);
    let base = |t: u32| json!({"type": ty.name, "depth": ty.depth, "seed": hex::encode(seed), "updates": t});
    if let Some((op, p)) = &w.panic {
        ctx.violation(p.site(), format!("{}::{op} panicked: {} at {}", ty.name, p.message, p.location), base(w.steps.len() as u32));
        return s;
    }
    if w.steps.len() as u32 != total {
        // evolution itself is wrong (C12's subject); the model cannot be bound
        mc_core::report::machinery_failure(&format!("C13: {} walked {} states instead of {total}; see C12", ty.name, w.steps.len()));
    }

    // ---- model and binding
    let mut nodes = vec![];
    let root_pk = build(*seed, ty.depth, 0, false, &mut nodes);
    if root_pk != w.keygen_pk {
        mc_core::report::machinery_failure(&format!(
            "C13: seed-tree model is not the implementation's derivation: model root key {} but {}::keygen returned {}",
            hex::encode(root_pk),
            ty.name,
            hex::encode(w.keygen_pk)
        ));
    }
    for st in &w.steps {
        let leaf = nodes.iter().find(|n| n.leaf_pk.is_some() && n.lo == st.t).expect("leaf");
        let sig = &st.sigs[0].bytes;
        let ok = VerifyingKey::from_bytes(&leaf.leaf_pk.unwrap())
            .ok()
            .and_then(|vk| DSig::from_slice(&sig[..64]).ok().map(|sg| vk.verify(&msg, &sg).is_ok()))
            .unwrap_or(false);
        if !ok {
            mc_core::report::machinery_failure(&format!("C13: model leaf key {} does not verify the period-{} signature of {}", st.t, st.t, ty.name));
        }
        s.leaf_bindings += 1;
    }
    s.traces_bound = 1;
    if w.seed_after_keygen != [0u8; 32] {
        s.seed_not_zeroed += 1;
    }

    // ---- forbidden-set scan of every reachable key state
    let mut trace = vec![];
    for st in &w.steps {
        let t = st.t;
        s.states += 1;
        let mut forbidden: BTreeMap<[u8; 32], String> = BTreeMap::new();
        for n in nodes.iter().filter(|n| n.lo < t) {
            if n.leaf_pk.is_some() {
                forbidden.insert(n.seed, format!("leaf-seed:Ed25519 secret key of period {}", n.lo));
                let h: [u8; 64] = Sha512::digest(n.seed).into();
                let mut scalar: [u8; 32] = h[..32].try_into().unwrap();
                forbidden.insert(scalar, format!("expanded-key:unclamped SHA-512 half of period {}", n.lo));
                scalar[0] &= 248;
                scalar[31] &= 63;
                scalar[31] |= 64;
                forbidden.insert(scalar, format!("expanded-key:secret scalar of period {}", n.lo));
                forbidden.insert(h[32..].try_into().unwrap(), format!("expanded-key:nonce prefix of period {}", n.lo));
            } else if n.lo == 0 && n.hi == total {
                forbidden.insert(n.seed, "master-seed:derives every period".to_string());
            } else {
                forbidden.insert(n.seed, format!("node-seed:derives periods {}..{}", n.lo, n.hi - 1));
            }
        }
        s.forbidden_values += forbidden.len() as u64;
        let mut scan = |buf: &[u8], what: &str| {
            for (off, win, desc) in find_forbidden(buf, &forbidden) {
                let (kind, rest) = desc.split_once(':').unwrap();
                let mut c = base(t);
                c["offset"] = json!(off);
                c["value"] = json!(hex::encode(win));
                c["state"] = json!(what);
                ctx.violation(format!("{}:retains-{kind}", ty.family), format!("{} at period {t}: key buffer offset {off} holds the {kind} ({rest})", ty.name), c);
            }
            s.windows += (buf.len() - 31) as u64;
        };
        scan(&st.buf, "after update");
        if let Some((after, _)) = &st.after_failed_update {
            if after != &st.buf {
                scan(after, "after the refused update");
            }
        }
        // scanner self-test in the last state: a planted past seed at an odd
        // offset of a copy of the real buffer must be found
        if t + 1 == total {
            let (val, _) = forbidden.iter().next().expect("non-empty in the last state");
            let mut planted = st.buf.clone();
            let off = 33.min(planted.len() - 32);
            planted[off..off + 32].copy_from_slice(val);
            if !find_forbidden(&planted, &forbidden).iter().any(|(o, w, _)| *o == off && w == val) {
                mc_core::report::machinery_failure("C13: scanner self-test failed (planted past seed not found)");
            }
            s.scanner_selftests += 1;
        }
        // the model must describe what IS there as well: current leaf key at the
        // start of the buffer, and the seed of every wholly-future right sibling
        let leaf = nodes.iter().find(|n| n.leaf_pk.is_some() && n.lo == t).unwrap();
        if st.buf[..32] != leaf.seed {
            mc_core::report::machinery_failure(&format!("C13: {} at period {t}: the buffer does not start with the model's current leaf key; the model does not describe this layout", ty.name));
        }
        s.expected_present_checks += 1;
        let mut future_present = 0;
        for n in nodes.iter().filter(|n| n.is_right && n.lo > t) {
            // parent covers t  <=>  sibling range [2*lo - hi, lo) contains t
            let sib_lo = n.lo - (n.hi - n.lo);
            if sib_lo <= t && t < n.lo {
                s.expected_present_checks += 1;
                if !st.buf.windows(32).any(|w| w == n.seed) {
                    mc_core::report::machinery_failure(&format!("C13: {} at period {t}: seed of the future subtree {}..{} is not in the buffer; the model does not describe this layout", ty.name, n.lo, n.hi - 1));
                }
                future_present += 1;
            }
        }
        if trace.len() < 3 || t + 1 == total {
            trace.push(json!({"t": t, "forbidden_values": forbidden.len(), "windows": st.buf.len() - 31, "future_subtree_seeds_present": future_present}));
        }
    }
    s.transitions = w.updates_attempted;
    s.sample = Some(json!({"type": ty.name, "seed": hex::encode(seed), "buffer_len": ty.buf_len, "trace(first states and last)": trace}));
    s
}

pub fn run(ctx: Ctx) -> ! {
    let types = kes::all_types();
    // the all-zero seed is excluded on purpose: erasure writes zeros, so an
    // erased master seed and a retained one could not be told apart
    let nseeds = if ctx.thorough { 16 } else { 3 };
    let seeds: Vec<[u8; 32]> = crate::c12::seeds(nseeds + 1).into_iter().skip(1).collect();
    let mut jobs: Vec<(KesType, [u8; 32])> = types.iter().flat_map(|t| seeds.iter().map(move |s| (*t, *s))).collect();
    jobs.sort_by_key(|(t, _)| std::cmp::Reverse(t.depth));
    let per: Vec<Stats> = jobs.par_iter().map(|(ty, seed)| check(&ctx, ty, seed)).collect();
    let mut tot = Stats::default();
    let mut samples = vec![];
    for (i, s) in per.into_iter().enumerate() {
        tot.states += s.states;
        tot.transitions += s.transitions;
        tot.traces_bound += s.traces_bound;
        tot.windows += s.windows;
        tot.forbidden_values += s.forbidden_values;
        tot.leaf_bindings += s.leaf_bindings;
        tot.expected_present_checks += s.expected_present_checks;
        tot.seed_not_zeroed += s.seed_not_zeroed;
        tot.scanner_selftests += s.scanner_selftests;
        let (ty, _) = &jobs[i];
        if let Some(v) = s.sample {
            if (ty.depth == 3 || ty.depth == 7) && samples.len() < 4 && jobs[..i].iter().filter(|(t, _)| t.name == ty.name).count() == 0 {
                samples.push(v);
            }
        }
    }
    let expect_states: u64 = seeds.len() as u64 * 2 * (1..=7).map(|d| 1u64 << d).sum::<u64>();
    if ctx.violation_count() == 0 && (tot.states != expect_states || tot.traces_bound != jobs.len() as u64 || tot.forbidden_values == 0 || tot.windows == 0) {
        mc_core::report::machinery_failure(&format!("C13: coverage differs from the stated space: states {} (expected {expect_states}), bound traces {} of {}", tot.states, tot.traces_bound, jobs.len()));
    }
    if tot.seed_not_zeroed > 0 {
        ctx.note(format!("diagnostic: the caller's seed buffer was not all-zero after keygen in {} walks (not part of the key buffer, hence outside the property)", tot.seed_not_zeroed));
    }
    let cov = cov! {
        "states" => tot.states,
        "transitions" => tot.transitions,
        "traces_validated_against_impl" => tot.traces_bound,
        "samples" => samples,
        "rule" => "state = (KES type, seed, number of updates t), reached by update^t on a real key; a trace = the maximal evolution history of one (type, seed); it counts as validated when the independent seed-tree model (left = Blake2b-256(01||s), right = Blake2b-256(02||s), leaf seed = Ed25519 secret, node key = Blake2b-256(pk_l||pk_r)) reproduces keygen's public key and each of its 2^d leaf keys verifies (ed25519-dalek) the implementation's signature of that period. In every state every 32-byte window of as_bytes() is looked up in F(t) = {Ed25519 secret, SHA-512 expansion halves (raw, clamped scalar, nonce prefix) of every leaf p < t} + {seed of every inner node, master seed included, whose subtree contains a leaf p < t}",
        "exhaustive" => true,
        "fixpoint" => true,
        "kes_types" => types.len(),
        "seeds" => seeds.len(),
        "windows_scanned" => tot.windows,
        "forbidden_values_summed_over_states" => tot.forbidden_values,
        "leaf_keys_bound_to_signatures" => tot.leaf_bindings,
        "expected_material_found(current leaf key, future subtree seeds)" => tot.expected_present_checks,
        "caller_seed_buffer_not_zeroed(diagnostic)" => tot.seed_not_zeroed,
        "scanner_selftests_passed(planted past seed found)" => tot.scanner_selftests,
    };
    ctx.finish(
        Level::ModelChecking,
        cov,
        &[
            "material is searched for as contiguous 32-byte values (verbatim seed, SHA-512 halves, clamped scalar) at every byte offset; other encodings of a past key (split, masked, re-hashed) are outside the model",
            "only the key buffer (as_bytes) is inspected, not stack temporaries or the caller's seed buffer",
            "the all-zero seed is excluded because zero is the erasure pattern; seeds are all-ff, counter and pseudo-random fills",
            "Blake2b preimage resistance: a retained value that is not in F(t) cannot derive a past key",
        ],
    )
}
