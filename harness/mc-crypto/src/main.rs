mod c10;
mod c11;
mod c12;
mod c13;
mod c14;
mod kes;

fn main() {
    let ctx = mc_core::Ctx::from_args();
    match ctx.prop.as_str() {
        "C10" => c10::run(ctx),
        "C11" => c11::run(ctx),
        "C12" => c12::run(ctx),
        "C13" => c13::run(ctx),
        "C14" => c14::run(ctx),
        p => mc_core::report::machinery_failure(&format!("mc-crypto does not serve {p}")),
    }
}
