//! C11 — Ed25519 signing and verification agree with RFC 8032.
//! GRID; the single-bit tamper sets are complete for every (seed, message).
//! Reference: ed25519-dalek (checked against the RFC 8032 section 7.1 vectors
//! at start-up), SHA-512 from sha2 for the seed expansion.

use ed25519_dalek::hazmat::{raw_sign, ExpandedSecretKey};
use ed25519_dalek::{Signature as DSig, Signer, SigningKey, Verifier, VerifyingKey};
use mc_core::{catch, cov, json, Ctx, Level, Value};
use pallas_crypto::key::ed25519::{PublicKey, SecretKey, SecretKeyExtended, Signature};
use rayon::prelude::*;
use sha2::{Digest, Sha512};
use std::sync::atomic::{AtomicU64, Ordering};

const RFC: [(&str, &str, &str, &str); 3] = [
    (
        "9d61b19deffd5a60ba844af492ec2cc44449c5697b326919703bac031cae7f60",
        "d75a980182b10ab7d54bfed3c964073a0ee172f3daa62325af021a68f707511a",
        "",
        "e5564300c360ac729086e2cc806e828a84877f1eb8e5d974d873e065224901555fb8821590a33bacc61e39701cf9b46bd25bf5f0595bbe24655141438e7a100b",
    ),
    (
        "4ccd089b28ff96da9db6c346ec114e0f5b8a319f35aba624da8cf6ed4fb8a6fb",
        "3d4017c3e843895a92b70aa74d1b7ebc9c982ccf2ec4968cc0cd55f12af4660c",
        "72",
        "92a009a9f0d4cab8720e820b5f642540a2b27b5416503f8fb3762223ebdb69da085ac1e43e15996e458f3613d0f11d8c387b2eaeb4302aeeb00d291612bb0c00",
    ),
    (
        "c5aa8df43f9f837bedb7442f31dcb7b166d38535076f094b85ce3a2e0b4458f7",
        "fc51cd8e6218a1a38da47ed00230f0580816ed13ba3303ac5deb911548908025",
        "af82",
        "6291d657deec24024827e69c3abe01a30ce548a284743a445e3680d7db5ac3ac18ff9b538d16f290ae67f760984dc6594a7c15e9716ed28dc027beceea1ec40a",
    ),
];

/// Group order L, little endian.
const L: [u8; 32] = [
    0xed, 0xd3, 0xf5, 0x5c, 0x1a, 0x63, 0x12, 0x58, 0xd6, 0x9c, 0xf7, 0xa2, 0xde, 0xf9, 0xde, 0x14, 0, 0, 0, 0, 0, 0, 0, 0, 0, 0, 0, 0, 0, 0, 0, 0x10,
];
fn s_canonical(s: &[u8]) -> bool {
    for i in (0..32).rev() {
        if s[i] < L[i] {
            return true;
        }
        if s[i] > L[i] {
            return false;
        }
    }
    false
}

fn pattern(len: usize, salt: u64) -> Vec<u8> {
    let mut x: u64 = 0x243f_6a88_85a3_08d3 ^ salt.wrapping_mul(0x9e37_79b9_7f4a_7c15);
    (0..len)
        .map(|_| {
            x = x.wrapping_mul(6364136223846793005).wrapping_add(1442695040888963407);
            (x >> 56) as u8
        })
        .collect()
}

fn expand(seed: &[u8; 32]) -> [u8; 64] {
    let mut h: [u8; 64] = Sha512::digest(seed).into();
    h[0] &= 0b1111_1000;
    h[31] &= 0b0011_1111;
    h[31] |= 0b0100_0000;
    h
}

fn ref_verify(key: &[u8; 32], msg: &[u8], sig: &[u8; 64]) -> (bool, &'static str) {
    let Ok(vk) = VerifyingKey::from_bytes(key) else { return (false, "key-does-not-decode") };
    if !s_canonical(&sig[32..]) {
        // dalek rejects this too; classified here for the coverage metric
        return (vk.verify(msg, &DSig::from_bytes(sig)).is_ok(), "s-not-canonical");
    }
    (vk.verify(msg, &DSig::from_bytes(sig)).is_ok(), "equation")
}

fn pallas_verify(key: &[u8; 32], msg: &[u8], sig: &[u8; 64]) -> bool {
    PublicKey::from(*key).verify(msg, &Signature::from(*sig))
}

#[derive(Default)]
struct Counters {
    evals: AtomicU64,
    sign_cases: AtomicU64,
    tamper_equation: AtomicU64,
    tamper_parse: AtomicU64,
    tamper_accepted_by_both: AtomicU64,
    ext_cases: AtomicU64,
}

pub fn run(ctx: Ctx) -> ! {
    // ---- reference self-check on the RFC 8032 vectors
    for (sk, pk, msg, sig) in RFC {
        let seed: [u8; 32] = hex::decode(sk).unwrap().try_into().unwrap();
        let m = hex::decode(msg).unwrap();
        let d = SigningKey::from_bytes(&seed);
        if hex::encode(d.verifying_key().as_bytes()) != pk || hex::encode(d.sign(&m).to_bytes()) != sig {
            mc_core::report::machinery_failure("C11: reference implementation does not reproduce the RFC 8032 test vectors");
        }
        // and the expanded-key path of the reference
        let esk = ExpandedSecretKey::from_bytes(&expand(&seed));
        let vk = VerifyingKey::from(&esk);
        if hex::encode(vk.as_bytes()) != pk || hex::encode(raw_sign::<Sha512>(&esk, &m, &vk).to_bytes()) != sig {
            mc_core::report::machinery_failure("C11: reference expanded-key signing does not reproduce the RFC 8032 test vectors");
        }
    }

    // ---- grid
    let mut seeds: Vec<[u8; 32]> = vec![[0u8; 32], [0xff; 32], core::array::from_fn(|i| i as u8)];
    for (sk, _, _, _) in RFC {
        seeds.push(hex::decode(sk).unwrap().try_into().unwrap());
    }
    let nseeds = if ctx.thorough { 32 } else { 8 };
    let mut k = 0u64;
    while seeds.len() < nseeds {
        seeds.push(pattern(32, 1000 + k).try_into().unwrap());
        k += 1;
    }
    let mut lens: Vec<usize> = if ctx.thorough { (0..=130).collect() } else { (0..=16).collect() };
    if !ctx.thorough {
        lens.extend([63, 64, 65, 127, 128, 129]);
    }
    lens.push(1024);
    let cases: Vec<(usize, usize)> = (0..seeds.len()).flat_map(|s| lens.iter().map(move |&l| (s, l))).collect();
    let c = Counters::default();

    cases.par_iter().for_each(|&(si, len)| {
        let seed = seeds[si];
        let msg = pattern(len, (si as u64) << 16 | len as u64);
        let case = || json!({"seed": hex::encode(seed), "message": hex::encode(&msg)});

        // reference
        let dsk = SigningKey::from_bytes(&seed);
        let dpk = dsk.verifying_key().to_bytes();
        let dsig = dsk.sign(&msg).to_bytes();

        // ---- standard key: derive, sign, verify
        c.evals.fetch_add(1, Ordering::Relaxed);
        let r = catch(|| {
            let sk = SecretKey::from(seed);
            let pk = sk.public_key();
            let sig = sk.sign(&msg);
            let ok = pk.verify(&msg, &sig);
            let pkb: [u8; 32] = pk.into();
            let sgb: [u8; 64] = sig.as_ref().try_into().unwrap();
            (pkb, sgb, ok)
        });
        let (pkb, sgb) = match r {
            Err(p) => {
                ctx.violation(p.site(), format!("SecretKey public_key/sign/verify panicked: {} at {}", p.message, p.location), case());
                return;
            }
            Ok((pkb, sgb, ok)) => {
                let mut good = true;
                if pkb != dpk {
                    good = false;
                    ctx.violation("SecretKey::public_key:differs-from-rfc8032", format!("public key {} but RFC 8032 derivation gives {}", hex::encode(pkb), hex::encode(dpk)), case());
                }
                if sgb != dsig {
                    good = false;
                    ctx.violation("SecretKey::sign:differs-from-rfc8032", format!("signature {} but RFC 8032 signing gives {}", hex::encode(sgb), hex::encode(dsig)), case());
                }
                if !ok {
                    good = false;
                    ctx.violation("PublicKey::verify:rejects-own-signature", "signature made by SecretKey::sign does not verify under SecretKey::public_key".to_string(), case());
                }
                let (rv, _) = ref_verify(&pkb, &msg, &sgb);
                if rv != ok {
                    good = false;
                    ctx.violation("PublicKey::verify:differs-from-reference", format!("pallas verdict {ok}, reference verdict {rv} on the key's own signature"), case());
                }
                if good {
                    c.sign_cases.fetch_add(1, Ordering::Relaxed);
                }
                (pkb, sgb)
            }
        };

        // ---- extended key expanded from the same seed
        c.evals.fetch_add(1, Ordering::Relaxed);
        let ext = expand(&seed);
        match catch(|| {
            let xk = SecretKeyExtended::from_bytes(ext).map_err(|e| e.to_string())?;
            let pk = xk.public_key();
            let sig = xk.sign(&msg);
            let ok = pk.verify(&msg, &sig);
            let pkb: [u8; 32] = pk.into();
            let sgb: [u8; 64] = sig.as_ref().try_into().unwrap();
            Ok::<_, String>((pkb, sgb, ok))
        }) {
            Err(p) => ctx.violation(p.site(), format!("SecretKeyExtended from_bytes/public_key/sign/verify panicked: {} at {}", p.message, p.location), case()),
            Ok(Err(e)) => ctx.violation("SecretKeyExtended::from_bytes:rejects-clamped-key", format!("the clamped SHA-512 expansion of a seed was rejected: {e}"), json!({"extended_key": hex::encode(ext)})),
            Ok(Ok((xpk, xsig, ok))) => {
                let mut good = true;
                if xpk != dpk {
                    good = false;
                    ctx.violation("SecretKeyExtended::public_key:differs-from-rfc8032", format!("extended key's public key {} but RFC 8032 gives {}", hex::encode(xpk), hex::encode(dpk)), json!({"extended_key": hex::encode(ext)}));
                }
                if xsig != dsig {
                    good = false;
                    ctx.violation("SecretKeyExtended::sign:differs-from-rfc8032", format!("extended key's signature {} but RFC 8032 gives {}", hex::encode(xsig), hex::encode(dsig)), json!({"extended_key": hex::encode(ext), "message": hex::encode(&msg)}));
                }
                if !ok || !ref_verify(&xpk, &msg, &xsig).0 {
                    good = false;
                    ctx.violation("PublicKey::verify:rejects-own-signature", "signature made by SecretKeyExtended::sign does not verify under its public key".to_string(), json!({"extended_key": hex::encode(ext), "message": hex::encode(&msg)}));
                }
                if good {
                    c.ext_cases.fetch_add(1, Ordering::Relaxed);
                }
            }
        }

        // ---- every single-bit tampering of signature, key, message
        let tamper = |what: &str, bit: usize, key: &[u8; 32], m: &[u8], sig: &[u8; 64]| {
            c.evals.fetch_add(1, Ordering::Relaxed);
            let (rv, class) = ref_verify(key, m, sig);
            match catch(|| pallas_verify(key, m, sig)) {
                Err(p) => ctx.violation(p.site(), format!("PublicKey::verify panicked on a tampered {what}: {} at {}", p.message, p.location), json!({"key": hex::encode(key), "message": hex::encode(m), "signature": hex::encode(sig)})),
                Ok(pv) => {
                    if pv != rv {
                        ctx.violation(
                            format!("PublicKey::verify:differs-from-reference:tampered-{what}:{}", if pv { "accepts" } else { "rejects" }),
                            format!("{what} bit {bit} flipped: pallas verdict {pv}, reference verdict {rv} ({class})"),
                            json!({"tampered": what, "bit": bit, "key": hex::encode(key), "message": hex::encode(m), "signature": hex::encode(sig)}),
                        );
                    } else if rv {
                        c.tamper_accepted_by_both.fetch_add(1, Ordering::Relaxed);
                    } else if class == "equation" {
                        c.tamper_equation.fetch_add(1, Ordering::Relaxed);
                    } else {
                        c.tamper_parse.fetch_add(1, Ordering::Relaxed);
                    }
                }
            }
        };
        // (descriptor list so that the verifications of one case run in parallel)
        let mut jobs: Vec<(u8, usize)> = vec![];
        jobs.extend((0..512).map(|b| (0u8, b)));
        jobs.extend((0..256).map(|b| (1u8, b)));
        jobs.extend((0..8 * msg.len()).map(|b| (2u8, b)));
        if !msg.is_empty() {
            jobs.push((3, 8 * msg.len()));
        }
        jobs.push((4, 8 * msg.len() + 1));
        jobs.par_iter().for_each(|&(kind, bit)| match kind {
            0 => {
                let mut s = sgb;
                s[bit / 8] ^= 1 << (bit % 8);
                tamper("signature", bit, &pkb, &msg, &s);
            }
            1 => {
                let mut kx = pkb;
                kx[bit / 8] ^= 1 << (bit % 8);
                tamper("key", bit, &kx, &msg, &sgb);
            }
            2 => {
                let mut m = msg.clone();
                m[bit / 8] ^= 1 << (bit % 8);
                tamper("message", bit, &pkb, &m, &sgb);
            }
            // truncated / extended message (not single-bit, same verdict oracle)
            3 => tamper("message", bit, &pkb, &msg[..msg.len() - 1], &sgb),
            _ => {
                let mut longer = msg.clone();
                longer.push(0);
                tamper("message", bit, &pkb, &longer, &sgb);
            }
        });
    });

    // ---- extended keys given as raw bytes: all 32 patterns of the five
    // clamping bits on 4 base keys; accepted keys must sign like the reference
    let bases: Vec<[u8; 64]> = vec![[0u8; 64], [0xff; 64], pattern(64, 7).try_into().unwrap(), Sha512::digest([0x42u8; 32]).into()];
    let ext_msgs: Vec<Vec<u8>> = vec![vec![], pattern(1, 1), pattern(64, 2), pattern(129, 3)];
    let mut clamp_accepted = 0u64;
    let mut clamp_rejected = 0u64;
    let mut clamp_samples: Vec<Value> = vec![];
    let mut good_keys: Vec<[u8; 64]> = vec![];
    for (bi, base) in bases.iter().enumerate() {
        for pat in 0u8..32 {
            let mut kx = *base;
            kx[0] = (kx[0] & 0b1111_1000) | (pat & 0b111);
            kx[31] = (kx[31] & 0b0011_1111) | ((pat >> 3) << 6);
            let want = (kx[0] & 7) == 0 && (kx[31] & 0x40) != 0 && (kx[31] & 0x80) == 0;
            c.evals.fetch_add(1, Ordering::Relaxed);
            let case = json!({"extended_key": hex::encode(kx), "low3": pat & 7, "bit254": (pat >> 3) & 1, "bit255": (pat >> 4) & 1});
            for (api, r) in [
                ("from_bytes", catch(|| SecretKeyExtended::from_bytes(kx).is_ok())),
                ("try_from", catch(|| SecretKeyExtended::try_from(kx).is_ok())),
            ] {
                match r {
                    Err(p) => ctx.violation(p.site(), format!("SecretKeyExtended::{api} panicked: {} at {}", p.message, p.location), case.clone()),
                    Ok(got) if got != want => ctx.violation(
                        format!("SecretKeyExtended::from_bytes:{}", if got { "accepts-bad-clamping" } else { "rejects-good-clamping" }),
                        format!("SecretKeyExtended::{api} returned {} for low bits {:03b}, bit 254 = {}, bit 255 = {}", if got { "Ok" } else { "Err" }, pat & 7, (pat >> 3) & 1, (pat >> 4) & 1),
                        case.clone(),
                    ),
                    Ok(_) => {}
                }
            }
            if want {
                clamp_accepted += 1;
            } else {
                clamp_rejected += 1;
            }
            if clamp_samples.len() < 3 && (pat == 8 || pat == 9 || pat == 24) && bi == 2 {
                clamp_samples.push(json!({"section": "clamping", "case": case, "expected_accept": want}));
            }
            if want {
                good_keys.push(kx);
            }
        }
    }
    // further well-formed extended keys that are NOT the expansion of a seed
    for k in 0..12u64 {
        let mut kx: [u8; 64] = pattern(64, 5000 + k).try_into().unwrap();
        kx[0] &= 0b1111_1000;
        kx[31] &= 0b0011_1111;
        kx[31] |= 0b0100_0000;
        good_keys.push(kx);
    }
    for kx in good_keys.iter().copied() {
        {
            let esk = ExpandedSecretKey::from_bytes(&kx);
            let vk = VerifyingKey::from(&esk);
            for m in &ext_msgs {
                c.evals.fetch_add(1, Ordering::Relaxed);
                let rsig = raw_sign::<Sha512>(&esk, m, &vk).to_bytes();
                let case = json!({"extended_key": hex::encode(kx), "message": hex::encode(m)});
                match catch(|| {
                    let xk = SecretKeyExtended::from_bytes(kx).map_err(|e| e.to_string())?;
                    let pk = xk.public_key();
                    let sig = xk.sign(m);
                    let ok = pk.verify(m, &sig);
                    let pkb: [u8; 32] = pk.into();
                    let sgb: [u8; 64] = sig.as_ref().try_into().unwrap();
                    Ok::<_, String>((pkb, sgb, ok))
                }) {
                    Err(p) => ctx.violation(p.site(), format!("SecretKeyExtended public_key/sign/verify panicked: {} at {}", p.message, p.location), case),
                    Ok(Err(e)) => ctx.violation("SecretKeyExtended::from_bytes:rejects-good-clamping", format!("a correctly clamped extended key was rejected: {e}"), case),
                    Ok(Ok((pkb, sgb, ok))) => {
                        let mut good = true;
                        if pkb != vk.to_bytes() {
                            good = false;
                            ctx.violation("SecretKeyExtended::public_key:differs-from-rfc8032", format!("public key {} but scalar * B is {}", hex::encode(pkb), hex::encode(vk.to_bytes())), case.clone());
                        }
                        if sgb != rsig {
                            good = false;
                            ctx.violation("SecretKeyExtended::sign:differs-from-rfc8032", format!("signature {} but RFC 8032 signing with this (scalar, prefix) gives {}", hex::encode(sgb), hex::encode(rsig)), case.clone());
                        }
                        if !ok || !ref_verify(&pkb, m, &sgb).0 {
                            good = false;
                            ctx.violation("PublicKey::verify:rejects-own-signature", "signature made by SecretKeyExtended::sign does not verify under its public key".to_string(), case.clone());
                        }
                        if good {
                            c.ext_cases.fetch_add(1, Ordering::Relaxed);
                        }
                    }
                }
            }
        }
    }

    let g = |a: &AtomicU64| a.load(Ordering::Relaxed);
    if ctx.violation_count() == 0 {
        if g(&c.sign_cases) != cases.len() as u64 || g(&c.tamper_equation) == 0 || clamp_accepted != 4 || clamp_rejected != 4 * 31 {
            mc_core::report::machinery_failure(&format!(
                "C11: enumeration did not reach what it should (sign cases {} of {}, equation-level tamper rejections {}, clamping accepted/rejected {}/{})",
                g(&c.sign_cases),
                cases.len(),
                g(&c.tamper_equation),
                clamp_accepted,
                clamp_rejected
            ));
        }
    }
    if g(&c.tamper_accepted_by_both) > 0 {
        ctx.note(format!("diagnostic: {} tampered inputs were accepted by both pallas and the reference", g(&c.tamper_accepted_by_both)));
    }
    let mut samples: Vec<Value> = vec![
        json!({"section": "sign/derive", "seed": RFC[1].0, "message": RFC[1].2, "public_key": RFC[1].1, "signature": RFC[1].3}),
        json!({"section": "tamper", "what": "signature bit 511 (top bit of S) flipped", "seed": hex::encode(seeds[2]), "message_len": 16}),
        json!({"section": "tamper", "what": "key bit 255 (sign of x) flipped", "seed": hex::encode(seeds[0]), "message_len": 0}),
    ];
    samples.extend(clamp_samples);
    let distinct = g(&c.sign_cases) + g(&c.ext_cases) + g(&c.tamper_equation) + clamp_accepted + clamp_rejected;
    let cov = cov! {
        "evaluations" => g(&c.evals),
        "distinct_nontrivial" => distinct,
        "rule" => "evaluation = one comparison of pallas with the RFC 8032 reference (ed25519-dalek): per (seed, message) one derive+sign+verify of the standard key, one of the SHA-512-expanded extended key, and one verify per single-bit flip of the signature (512), the public key (256) and the message (8*len, plus one-byte truncation and extension); then 4 base keys x all 32 clamping-bit patterns through from_bytes/try_from, and sign/verify of each accepted key on 4 messages. All cases are distinct inputs by construction. distinct_nontrivial = sign/derive cases on which every comparison was carried out + clamping patterns decided + tampered inputs that the reference parses (key decodes, S < L) and rejects through the verification equation",
        "samples" => samples,
        "seeds" => seeds.len(),
        "message_lengths" => lens.len(),
        "seed_message_cases" => cases.len(),
        "tamper_rejected_by_equation" => g(&c.tamper_equation),
        "tamper_rejected_at_parsing(key does not decode or S >= L)" => g(&c.tamper_parse),
        "tamper_accepted_by_both" => g(&c.tamper_accepted_by_both),
        "extended_key_sign_cases" => g(&c.ext_cases),
        "clamping_patterns_accepted" => clamp_accepted,
        "clamping_patterns_rejected" => clamp_rejected,
        "tamper_sets_complete" => true,
    };
    ctx.finish(
        Level::Exploration,
        cov,
        &[
            "reference = ed25519-dalek 2.x `verify` (cofactorless equation, canonical S), validated on the RFC 8032 section 7.1 vectors at start-up",
            "seeds and messages are a fixed grid (boundary seeds, RFC vectors, pseudo-random fill), not all 2^256",
            "multi-bit tamperings and adversarially crafted keys/signatures (small-order points, non-canonical encodings) are not enumerated",
        ],
    )
}
