//! C08, third anchor: the transaction builder. Small staged transactions with
//! 1..4 spend redeemers, 0..2 mint redeemers, 0..2 witness datums and every
//! non-empty subset of the three Plutus languages are built with the REAL
//! `StagingTransaction::build_conway_raw`; the script-data hash written into
//! the body (key 11) must be Blake2b-256 of the redeemer bytes exactly as they
//! stand in the built witness set (key 5), followed by the datum bytes as they
//! stand there (key 4), followed by the language views of the staged cost
//! models (own encoder, `c08::views_bytes`).
//! The builder keeps redeemers in a `HashMap` whose iteration order differs
//! per instance; every case is therefore built on several fresh instances (the
//! property must hold for each of them, so this only widens what is seen).

use crate::c08::views_bytes;
use mc_core::{blake2b, catch, json, refcbor, Ctx};
use pallas_addresses::Address;
use pallas_crypto::hash::Hash;
use pallas_txbuilder::{BuildConway, ExUnits, Input, Output, ScriptKind, StagingTransaction};
use std::collections::BTreeMap;

pub struct Part {
    pub cases: u64,
    pub builds: u64,
    pub hashes_checked: u64,
    /// number of distinct redeemer encodings seen (varies with the HashMap seeds; not reported)
    #[allow(dead_code)]
    pub distinct_redeemer_orders: usize,
}

fn kind(l: u8) -> ScriptKind {
    match l {
        0 => ScriptKind::PlutusV1,
        1 => ScriptKind::PlutusV2,
        _ => ScriptKind::PlutusV3,
    }
}

fn costs(l: u8) -> Vec<i64> {
    match l {
        0 => vec![10, -20, 300],
        1 => vec![1, 2],
        _ => vec![i64::MAX, 0, -1, 7],
    }
}

fn stage(spends: usize, mints: usize, datums: usize, langs: &[u8]) -> Result<StagingTransaction, String> {
    let mut addr = vec![0x61u8];
    addr.extend([0x77u8; 28]);
    let a = Address::from_bytes(&addr).map_err(|e| format!("{e:?}"))?;
    let mut st = StagingTransaction::new().output(Output::new(a, 2_000_000)).fee(200_000);
    for i in 0..spends {
        // hashes chosen so that staging order and sorted order differ
        let h = [0xF0u8.wrapping_sub(0x31 * i as u8); 32];
        let input = Input::new(Hash::<32>::from(&h[..]), (3 - i as u64) % 3);
        st = st.input(input.clone());
        st = st.add_spend_redeemer(input, vec![0x18, 0x2a + i as u8], Some(ExUnits { mem: 100 + i as u64, steps: 200 }));
    }
    for m in 0..mints {
        let pol = [0x90u8.wrapping_sub(0x40 * m as u8); 28];
        st = st.mint_asset(Hash::<28>::from(&pol[..]), vec![b'a' + m as u8], 5).map_err(|e| format!("{e:?}"))?;
        st = st.add_mint_redeemer(Hash::<28>::from(&pol[..]), vec![0x01 + m as u8], Some(ExUnits { mem: 7, steps: 9 }));
    }
    for d in 0..datums {
        st = st.datum(if d == 0 { vec![0xd8, 0x79, 0x80] } else { vec![0xd8, 0x79, 0x81, 0x01] });
    }
    for &l in langs {
        st = st.add_language(kind(l), costs(l));
    }
    Ok(st)
}

pub fn run_part(ctx: &Ctx) -> Part {
    let instances = if ctx.thorough { 24 } else { 8 };
    let mut part = Part { cases: 0, builds: 0, hashes_checked: 0, distinct_redeemer_orders: 0 };
    let mut orders = std::collections::BTreeSet::new();
    for spends in 1..=4usize {
        for mints in 0..=2usize {
            for datums in 0..=2usize {
                for mask in 1u8..8 {
                    let langs: Vec<u8> = (0..3).filter(|l| mask >> l & 1 == 1).collect();
                    part.cases += 1;
                    let case = json!({"part": "txbuilder", "spend_redeemers": spends, "mint_redeemers": mints, "witness_datums": datums, "languages": langs});
                    let views: BTreeMap<u8, Vec<i64>> = langs.iter().map(|l| (*l, costs(*l))).collect();
                    for _ in 0..instances {
                        part.builds += 1;
                        let built = catch(|| stage(spends, mints, datums, &langs).and_then(|st| st.build_conway_raw().map_err(|e| format!("{e:?}"))));
                        let tx = match built {
                            Err(p) => {
                                ctx.violation(p.site(), format!("builder panicked: {} at {}", p.message, p.location), case.clone());
                                break;
                            }
                            Ok(Err(e)) => mc_core::report::machinery_failure(&format!("C08 builder pass: cannot build {case}: {e}")),
                            Ok(Ok(t)) => t,
                        };
                        let bytes = tx.tx_bytes.0.clone();
                        let root = match refcbor::parse_one(&bytes) {
                            Ok(r) => r,
                            Err(e) => mc_core::report::machinery_failure(&format!("C08 builder pass: built bytes are not CBOR: {e:?}")),
                        };
                        let arr = match root.as_array() {
                            Some(a) if a.len() >= 2 => a,
                            _ => mc_core::report::machinery_failure("C08 builder pass: built transaction is not an array"),
                        };
                        let got = arr[0].map_get(11).and_then(|n| n.as_bytes());
                        let rdm = arr[1].map_get(5).map(|n| n.span(&bytes).to_vec());
                        let dat = arr[1].map_get(4).map(|n| n.span(&bytes).to_vec());
                        let Some(rdm) = rdm else {
                            ctx.violation("c08:builder:redeemers-missing".to_string(), "staged redeemers are not in the built witness set".to_string(), case.clone());
                            break;
                        };
                        orders.insert(rdm.clone());
                        let mut pre = rdm.clone();
                        if let Some(d) = &dat {
                            pre.extend_from_slice(d);
                        }
                        pre.extend_from_slice(&views_bytes(&views));
                        let want = blake2b::blake2b_256(&pre);
                        part.hashes_checked += 1;
                        if got.as_deref() != Some(&want[..]) {
                            ctx.violation(
                                "c08:builder:script-data-hash-differs".to_string(),
                                format!(
                                    "built tx: script_data_hash {} but Blake2b-256(redeemers as built || datums as built || language views) = {} ({spends} spend + {mints} mint redeemers, {datums} datums, languages {langs:?})",
                                    got.map(hex::encode).unwrap_or_else(|| "absent".into()),
                                    hex::encode(want)
                                ),
                                json!({"part": "txbuilder", "spend_redeemers": spends, "mint_redeemers": mints, "witness_datums": datums, "languages": langs, "tx_hex": hex::encode(&bytes)}),
                            );
                            break;
                        }
                    }
                }
            }
        }
    }
    part.distinct_redeemer_orders = orders.len();
    part
}
