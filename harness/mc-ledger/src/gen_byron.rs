//! C06(ii) — Byron types (`pallas_primitives::byron`). Most of them have no
//! `PartialEq`, so they are compared through their `Debug` rendering. Types
//! that embed `ZeroOrOneArray` (private constructor) are built by decoding
//! bytes assembled with `refcbor`.

use crate::gen_ledger::*;
use crate::rt;
use mc_core::refcbor::Node;
use pallas_codec::minicbor::{self, bytes::ByteVec};
use pallas_codec::utils::{CborWrap, EmptyMap, KeepRaw, KeyValuePairs, MaybeIndefArray, TagWrap};
use pallas_primitives::byron::*;

fn bv(n: u8, len: usize) -> ByteVec {
    ByteVec::from((0..len).map(|i| n.wrapping_add(i as u8)).collect::<Vec<u8>>())
}

fn mia<T: Clone>(v: Vec<T>) -> Vec<MaybeIndefArray<T>> {
    vec![MaybeIndefArray::Def(v.clone()), MaybeIndefArray::Indef(v)]
}

pub fn addresses() -> Vec<Address> {
    vec![Address { payload: TagWrap::new(bv(0x83, 40)), crc: 0 }, Address { payload: TagWrap::new(bv(0, 0)), crc: u32::MAX }]
}

pub fn txouts() -> Vec<TxOut> {
    addresses().into_iter().zip([0u64, u64::MAX]).map(|(address, amount)| TxOut { address, amount }).collect()
}

pub fn txins() -> Vec<TxIn> {
    vec![
        TxIn::Variant0(CborWrap((h32(1), 0))),
        TxIn::Variant0(CborWrap((h32(2), u32::MAX))),
        TxIn::Other(1, bv(1, 3)),
        TxIn::Other(255, bv(0, 0)),
    ]
}

pub fn txs() -> Vec<Tx> {
    let mut v = vec![];
    for i in mia(txins()) {
        for o in mia(txouts()) {
            v.push(Tx { inputs: i.clone(), outputs: o, attributes: EmptyMap });
        }
    }
    v
}

pub fn twits() -> Vec<Twit> {
    vec![
        Twit::PkWitness(CborWrap((bv(1, 64), bv(2, 64)))),
        Twit::ScriptWitness(CborWrap(((0, bv(3, 10)), (u16::MAX, bv(4, 0))))),
        Twit::RedeemWitness(CborWrap((bv(5, 32), bv(6, 64)))),
        Twit::Other(3, bv(7, 5)),
        Twit::Other(255, bv(0, 0)),
    ]
}

fn ssc_certs() -> Vec<SscCerts> {
    let c: SscCert = (bv(1, 35), 7, bv(2, 64), bv(3, 64));
    mia(vec![c]).into_iter().chain(mia(vec![])).map(TagWrap::new).collect()
}

pub fn sscs() -> Vec<Ssc> {
    let certs = ssc_certs();
    let enc: Vec<VssEnc> = mia(vec![bv(9, 33)]);
    let proof: VssProof = (bv(1, 4), bv(2, 4), bv(3, 4), MaybeIndefArray::Def(vec![bv(4, 4)]));
    let mut v = vec![];
    for (i, cs) in certs.iter().enumerate() {
        let comm: SscComm = (
            bv(1, 64),
            (if i % 2 == 0 { KeyValuePairs::Def(vec![(bv(5, 35), enc[0].clone())]) } else { KeyValuePairs::Indef(vec![(bv(5, 35), enc[1].clone())]) }, proof.clone()),
            bv(6, 64),
        );
        v.push(Ssc::Variant0(TagWrap::new(if i % 2 == 0 { MaybeIndefArray::Def(vec![comm]) } else { MaybeIndefArray::Indef(vec![comm]) }), cs.clone()));
        v.push(Ssc::Variant1(if i % 2 == 0 { KeyValuePairs::Def(vec![(h28(1), bv(7, 33))]) } else { KeyValuePairs::Indef(vec![]) }, cs.clone()));
        let shares: SscShares = KeyValuePairs::Def(vec![(h28(2), KeyValuePairs::Indef(vec![(h28(3), MaybeIndefArray::Indef(vec![bv(8, 20)]))]))]);
        v.push(Ssc::Variant2(if i % 2 == 0 { shares } else { KeyValuePairs::Def(vec![]) }, cs.clone()));
        v.push(Ssc::Variant3(cs.clone()));
    }
    v
}

pub fn ssc_proofs() -> Vec<SscProof> {
    vec![SscProof::Variant0(h32(1), h32(2)), SscProof::Variant1(h32(3), h32(4)), SscProof::Variant2(h32(5), h32(6)), SscProof::Variant3(h32(7))]
}

pub fn dlgs() -> Vec<Dlg> {
    vec![Dlg { epoch: 0, issuer: bv(1, 64), delegate: bv(2, 64), certificate: bv(3, 64) }, Dlg { epoch: u64::MAX, issuer: bv(0, 0), delegate: bv(0, 0), certificate: bv(0, 0) }]
}

pub fn fee_pols() -> Vec<TxFeePol> {
    vec![
        TxFeePol::Variant0(CborWrap((155381000000000, 43946000000))),
        TxFeePol::Variant0(CborWrap((i64::MIN, i64::MAX))),
        TxFeePol::Other(1, bv(1, 3)),
        TxFeePol::Other(255, bv(0, 0)),
    ]
}

pub fn block_sigs() -> Vec<BlockSig> {
    let lw = Lwdlg { epoch_range: (0, u64::MAX), issuer: bv(1, 64), delegate: bv(2, 64), certificate: bv(3, 64) };
    vec![BlockSig::Signature(bv(1, 64)), BlockSig::LwdlgSig((lw, bv(4, 64))), BlockSig::DlgSig((dlgs()[0].clone(), bv(5, 64)))]
}

pub fn block_heads() -> Vec<BlockHead> {
    let mut v = vec![];
    for (i, sig) in block_sigs().into_iter().enumerate() {
        for attrs in [None, Some(EmptyMap)] {
            v.push(BlockHead {
                protocol_magic: 764824073,
                prev_block: h32(1),
                body_proof: BlockProof { tx_proof: (u32::MAX, h32(2), h32(3)), ssc_proof: ssc_proofs()[i].clone(), dlg_proof: h32(4), upd_proof: h32(5) },
                consensus_data: BlockCons(SlotId { epoch: 5, slot: 21599 }, bv(6, 64), mia(vec![1u64 << 40])[i % 2].clone(), sig.clone()),
                extra_data: BlockHeadEx { block_version: (1, 0, 0), software_version: ("cardano-sl".into(), 1), attributes: attrs, extra_proof: h32(7) },
            });
        }
    }
    v
}

pub fn ebb_heads() -> Vec<EbbHead> {
    mia(vec![0u64])
        .into_iter()
        .map(|difficulty| EbbHead { protocol_magic: 764824073, prev_block: h32(1), body_proof: h32(2), consensus_data: EbbCons { epoch_id: u64::MAX, difficulty }, extra_data: (EmptyMap,) })
        .collect()
}

pub fn payloads() -> Vec<TxPayload<'static>> {
    let mut v = vec![];
    for (i, t) in txs().into_iter().enumerate() {
        let w = mia(twits())[i % 2].clone();
        v.push(TxPayload { transaction: KeepRaw::from(t), witness: KeepRaw::from(w) });
    }
    v
}

// ---- types with ZeroOrOneArray: bytes -> value

fn opt(n: Option<Node>) -> Node {
    Node::array(n.into_iter().collect())
}

fn bvermod_node(mask: u32) -> Node {
    let b = |i: u32| mask & (1 << i) != 0;
    let u = |i: u32, v: u64| opt(b(i).then(|| Node::uint(v)));
    Node::array(vec![
        u(0, 65535),
        u(1, 20000),
        u(2, 2_000_000),
        u(3, 2_000_000),
        u(4, 4096),
        u(5, 700),
        u(6, u64::MAX),
        u(7, 1 << 50),
        u(8, 1),
        u(9, 24),
        u(10, 10000),
        opt(b(11).then(|| Node::array(vec![Node::uint(9 << 50), Node::uint(6 << 50), Node::uint(5 << 40)]))),
        opt(b(12).then(|| {
            let inner = Node::array(vec![Node::uint(155381000000000), Node::int(-43946000000)]).to_vec();
            Node::array(vec![Node::uint(0), Node::tag(24, Node::bytes(&inner))])
        })),
        u(13, u64::MAX),
    ])
}

fn upprop_node(mask: u32) -> Node {
    let b = |i: u32| mask & (1 << i) != 0;
    let null = Node::null;
    let h = |n: u8| Node::bytes(&[n; 32]);
    Node::array(vec![
        if b(0) { Node::array(vec![Node::uint(1), Node::uint(0), Node::uint(0)]) } else { null() },
        if b(1) { bvermod_node(0x3fff) } else { null() },
        if b(2) { Node::array(vec![Node::text("csl-daedalus"), Node::uint(3)]) } else { null() },
        if b(3) {
            Node::map_indef(vec![(Node::text("linux64"), Node::array(vec![h(1), h(2), h(3), h(4)])), (Node::text("win64"), Node::array(vec![h(5), h(6), h(7), h(8)]))])
        } else {
            Node::map(vec![])
        },
        if b(4) { Node::map(vec![]) } else { null() },
        if b(5) { Node::bytes(&[9; 64]) } else { null() },
        if b(6) { Node::bytes(&[8; 64]) } else { null() },
    ])
}

fn up_node(with_prop: bool, votes_indef: bool) -> Node {
    let vote = Node::array(vec![Node::bytes(&[1; 64]), Node::bytes(&[2; 32]), Node::bool(true), Node::bytes(&[3; 64])]);
    let votes = if votes_indef { Node::array_indef(vec![vote]) } else { Node::array(vec![]) };
    Node::array(vec![opt(with_prop.then(|| upprop_node(0x7f))), votes])
}

pub fn run(r: &mut Runner) {
    rt!(r, "byron::Address", Address, eq, lab(addresses()));
    rt!(r, "byron::TxOut", TxOut, eq, lab(txouts()));
    rt!(r, "byron::TxIn", TxIn, eq, lab(txins()));
    rt!(r, "byron::Tx", Tx, eq, lab(txs()));
    rt!(r, "byron::Twit", Twit, dbg, lab(twits()));
    rt!(r, "byron::Ssc", Ssc, dbg, lab(sscs()));
    rt!(r, "byron::SscProof", SscProof, dbg, lab(ssc_proofs()));
    rt!(r, "byron::Dlg", Dlg, dbg, lab(dlgs()));
    rt!(r, "byron::TxFeePol", TxFeePol, dbg, lab(fee_pols()));
    rt!(r, "byron::BlockSig", BlockSig, dbg, lab(block_sigs()));
    rt!(r, "byron::BlockHead", BlockHead, dbg, lab(block_heads()));
    rt!(r, "byron::EbbHead", EbbHead, dbg, lab(ebb_heads()));
    rt!(r, "byron::TxPayload", TxPayload<'_>, raw, lab(payloads()));
    rt!(
        r,
        "byron::UpVote",
        UpVote,
        dbg,
        lab(vec![UpVote { voter: bv(1, 64), proposal_id: h32(2), vote: true, signature: bv(3, 64) }, UpVote { voter: bv(0, 0), proposal_id: h32(0), vote: false, signature: bv(0, 0) }])
    );

    // bytes -> value for the ZeroOrOneArray carriers
    let dec = |what: &str, n: &Node| -> Vec<u8> {
        let _ = what;
        n.to_vec()
    };
    let mut bvm: Vec<(String, BVerMod)> = vec![];
    for m in crate::gen_alonzo::field_masks(14, false) {
        let bytes = dec("BVerMod", &bvermod_node(m));
        match minicbor::decode::<BVerMod>(&bytes) {
            Ok(v) => bvm.push((format!("mask={m:#x}"), v)),
            Err(e) => r.ctx.note(format!("byron::BVerMod reference bytes {} rejected: {e}", hex::encode(&bytes))),
        }
    }
    rt!(r, "byron::BVerMod", BVerMod, dbg, bvm);
    let mut ups: Vec<(String, UpProp)> = vec![];
    for m in crate::gen_alonzo::field_masks(7, false) {
        let bytes = upprop_node(m).to_vec();
        match minicbor::decode::<UpProp>(&bytes) {
            Ok(v) => ups.push((format!("mask={m:#x}"), v)),
            Err(e) => r.ctx.note(format!("byron::UpProp reference bytes {} rejected: {e}", hex::encode(&bytes))),
        }
    }
    rt!(r, "byron::UpProp", UpProp, dbg, ups);
    let mut upv: Vec<(String, Up)> = vec![];
    for (a, b) in [(false, false), (false, true), (true, false), (true, true)] {
        let bytes = up_node(a, b).to_vec();
        match minicbor::decode::<Up>(&bytes) {
            Ok(v) => upv.push((format!("proposal={a} votes_indef={b}"), v)),
            Err(e) => r.ctx.note(format!("byron::Up reference bytes {} rejected: {e}", hex::encode(&bytes))),
        }
    }
    rt!(r, "byron::Up", Up, dbg, upv.clone());

    // block bodies / blocks around them
    let mut bodies: Vec<(String, BlockBody<'static>)> = vec![];
    for (i, (l, up)) in upv.into_iter().enumerate() {
        bodies.push((
            l,
            BlockBody {
                tx_payload: mia(payloads())[i % 2].clone(),
                ssc_payload: sscs()[i * 3 % sscs().len()].clone(),
                dlg_payload: mia(dlgs())[(i + 1) % 2].clone(),
                upd_payload: up,
            },
        ));
    }
    rt!(r, "byron::BlockBody", BlockBody<'_>, raw, bodies.clone());
    let blocks: Vec<(String, Block<'static>)> = bodies
        .into_iter()
        .enumerate()
        .map(|(i, (l, body))| (l, Block { header: KeepRaw::from(block_heads()[i % block_heads().len()].clone()), body, extra: mia(vec![EmptyMap])[i % 2].clone() }))
        .collect();
    rt!(r, "byron::Block", Block<'_>, raw, blocks);
    let ebbs: Vec<(String, EbBlock<'static>)> = ebb_heads()
        .into_iter()
        .enumerate()
        .map(|(i, h)| (format!("#{i}"), EbBlock { header: KeepRaw::from(h), body: mia(vec![h28(1), h28(2)])[i % 2].clone(), extra: mia(vec![])[i % 2].clone() }))
        .collect();
    rt!(r, "byron::EbBlock", EbBlock<'_>, raw, ebbs);
}
