//! C08 — script integrity hash follows the ledger formula.
//!
//! GRID, complete over: redeemers {none, list of 1/2, map of 1/2} x datum sets
//! {none, 3 container forms x 3 contents (canonical / non-canonical datum
//! encodings)} x language views {none, every subset of {V1,V2,V3} x every
//! assignment of 4 cost vectors}. The witness set is assembled as bytes with
//! `refcbor`, decoded by pallas, and the hash pallas reports is compared with
//! an independent assembly of the preimage (spans of the wire bytes + own
//! language-view encoder + own Blake2b). The five real transactions of
//! `test_data` are checked too, with the hash recorded in their body as ground
//! truth for the oracle itself.

use crate::artefacts;
use crate::costmodels;
use mc_core::blake2b::blake2b_256;
use mc_core::refcbor::{self, Kind, Node};
use mc_core::{catch, cov, json, Ctx, Level, Value};
use pallas_codec::minicbor;
use pallas_codec::utils::{Int, KeyValuePairs, MaybeIndefArray};
use pallas_primitives::conway::{self, LanguageViews, Redeemer, RedeemerTag, Redeemers, RedeemersKey, RedeemersValue, ScriptData};
use pallas_primitives::{BigInt, BoundedBytes, Constr, ExUnits, PlutusData};
use rayon::prelude::*;
use std::collections::{BTreeMap, BTreeSet};

/// When true, a redeemer structure that arrives in a non-canonical encoding
/// must be hashed as it arrived (the ledger's behaviour). DESIGN.md restricts
/// the property to canonical redeemer bytes, so by default such cases are only
/// recorded as diagnostics.
const STRICT_REDEEMER_BYTES: bool = false;

// ------------------------------------------------------------------ oracle

/// Language views as the ledger encodes them for the integrity hash: a
/// definite map in canonical key order — `01`, `02` (unsigned keys, definite
/// list of integers), then PlutusV1 with key `41 00` (the serialised 0 wrapped
/// in a byte string) and the serialised INDEFINITE list wrapped in a byte
/// string.
pub fn views_bytes(views: &BTreeMap<u8, Vec<i64>>) -> Vec<u8> {
    let mut entries = vec![];
    for lang in [1u8, 2] {
        if let Some(m) = views.get(&lang) {
            entries.push((Node::uint(lang as u64), Node::array(m.iter().map(|c| Node::int(*c as i128)).collect())));
        }
    }
    if let Some(m) = views.get(&0) {
        let inner = Node::array_indef(m.iter().map(|c| Node::int(*c as i128)).collect()).to_vec();
        entries.push((Node::bytes(&[0x00]), Node::bytes(&inner)));
    }
    Node::map(entries).to_vec()
}

fn preimage(redeemers: Option<&[u8]>, datums: Option<&[u8]>, views: Option<&BTreeMap<u8, Vec<i64>>>) -> Vec<u8> {
    let mut p = vec![];
    match redeemers {
        Some(r) => p.extend_from_slice(r),
        None => p.push(0xa0),
    }
    if let Some(d) = datums {
        p.extend_from_slice(d);
    }
    match views {
        Some(v) => p.extend_from_slice(&views_bytes(v)),
        None => p.push(0xa0),
    }
    p
}

// ------------------------------------------------------------------ grammar

/// (value built in memory, canonical wire form)
fn datas() -> Vec<(PlutusData, Node)> {
    vec![
        (PlutusData::BigInt(BigInt::Int(Int::from(5))), Node::uint(5)),
        (
            PlutusData::Constr(Constr { tag: 121, any_constructor: None, fields: MaybeIndefArray::Indef(vec![PlutusData::BigInt(BigInt::Int(Int::from(-1))), PlutusData::BoundedBytes(BoundedBytes::from(vec![0xab; 3]))]) }),
            Node::tag(121, Node::array_indef(vec![Node::int(-1), Node::bytes(&[0xab; 3])])),
        ),
        (
            PlutusData::Map(KeyValuePairs::Def(vec![(PlutusData::BigInt(BigInt::Int(Int::from(1))), PlutusData::Array(MaybeIndefArray::Def(vec![])))])),
            Node::map(vec![(Node::uint(1), Node::array(vec![]))]),
        ),
    ]
}

#[derive(Clone, Copy, Debug, PartialEq)]
enum RForm {
    None,
    List(usize),
    Map(usize),
}

const RSPECS: [(u8, u32, usize, u64, u64); 6] = [
    (0, 0, 0, 0, 0),
    (1, 3, 1, 1_000_000, u32::MAX as u64 + 1),
    (2, 23, 2, 24, 255),
    (3, 1, 0, 256, 65535),
    (4, 0, 1, 65536, u64::MAX),
    (5, 22, 2, 1, 23),
];

fn rtag(t: u8) -> RedeemerTag {
    match t {
        0 => RedeemerTag::Spend,
        1 => RedeemerTag::Mint,
        2 => RedeemerTag::Cert,
        3 => RedeemerTag::Reward,
        4 => RedeemerTag::Vote,
        _ => RedeemerTag::Propose,
    }
}

fn redeemers(form: RForm) -> Option<(Node, Redeemers)> {
    let d = datas();
    match form {
        RForm::None => None,
        RForm::List(n) => {
            let mut nodes = vec![];
            let mut vals = vec![];
            for (t, i, di, mem, steps) in RSPECS.iter().take(n) {
                nodes.push(Node::array(vec![Node::uint(*t as u64), Node::uint(*i as u64), d[*di].1.clone(), Node::array(vec![Node::uint(*mem), Node::uint(*steps)])]));
                vals.push(Redeemer { tag: rtag(*t), index: *i, data: d[*di].0.clone(), ex_units: ExUnits { mem: *mem, steps: *steps } });
            }
            Some((Node::array(nodes), Redeemers::List(vals)))
        }
        RForm::Map(n) => {
            let mut nodes = vec![];
            let mut vals = BTreeMap::new();
            for (t, i, di, mem, steps) in RSPECS.iter().take(n) {
                nodes.push((Node::array(vec![Node::uint(*t as u64), Node::uint(*i as u64)]), Node::array(vec![d[*di].1.clone(), Node::array(vec![Node::uint(*mem), Node::uint(*steps)])])));
                vals.insert(RedeemersKey { tag: rtag(*t), index: *i }, RedeemersValue { data: d[*di].0.clone(), ex_units: ExUnits { mem: *mem, steps: *steps } });
            }
            Some((Node::map(nodes), Redeemers::Map(vals)))
        }
    }
}

/// Datum set forms: (label, node for witness key 4).
fn datum_sets() -> Vec<(String, Option<Node>)> {
    let canon = datas()[1].1.clone();
    // same datum, non-canonical: widened int head, chunked byte string, definite -> the retained bytes differ from any re-encoding
    let noncanon = Node::tag(
        121,
        Node::array(vec![Node::new(Kind::NInt(0, 1)), Node::new(Kind::BytesIndef(vec![(vec![0xab], 0), (vec![0xab, 0xab], 0)]))]),
    );
    let noncanon2 = Node::map_indef(vec![(Node::uint_w(1, 8), Node::array_indef(vec![]))]);
    let contents: Vec<(&str, Vec<Node>)> = vec![
        ("one-canonical", vec![canon.clone()]),
        ("one-noncanonical", vec![noncanon.clone()]),
        ("canonical+noncanonical", vec![canon, noncanon2]),
    ];
    let mut v = vec![("none".to_string(), None)];
    for (cl, c) in contents {
        v.push((format!("tag258-def:{cl}"), Some(Node::tag(258, Node::array(c.clone())))));
        v.push((format!("untagged-def:{cl}"), Some(Node::array(c.clone()))));
        v.push((format!("tag258-indef:{cl}"), Some(Node::tag(258, Node::array_indef(c)))));
    }
    v
}

fn cost_vectors_t(lang: u8, thorough: bool) -> Vec<(&'static str, Vec<i64>)> {
    let mut v = cost_vectors(lang);
    if thorough {
        v.push(("head-width boundaries", vec![23, 24, 255, 256, 65535, 65536, u32::MAX as i64, 1 << 32, -24, -25, -256, -257, -65536, -65537, -(1 << 32), -(1 << 32) - 1]));
    }
    v
}

fn cost_vectors(lang: u8) -> Vec<(&'static str, Vec<i64>)> {
    let real: Vec<i64> = match lang {
        0 => costmodels::PLUTUS_V1.to_vec(),
        1 => costmodels::PLUTUS_V2.to_vec(),
        _ => costmodels::PLUTUS_V3.to_vec(),
    };
    vec![("[]", vec![]), ("[0]", vec![0]), ("[-1,2^63-1,-2^63]", vec![-1, i64::MAX, i64::MIN]), ("real", real)]
}

/// None, then every subset of {0,1,2} with every assignment of the 4 (thorough: 5) vectors.
fn view_options(thorough: bool) -> Vec<(String, Option<BTreeMap<u8, Vec<i64>>>)> {
    let k = if thorough { 5usize } else { 4 };
    let mut v = vec![("no-views".to_string(), None)];
    for subset in 0u8..8 {
        let langs: Vec<u8> = (0..3).filter(|l| subset >> l & 1 == 1).collect();
        let total = k.pow(langs.len() as u32);
        for a in 0..total {
            let mut m = BTreeMap::new();
            let mut label = String::from("views{");
            let mut x = a;
            for l in &langs {
                let (n, vec) = cost_vectors_t(*l, thorough)[x % k].clone();
                x /= k;
                label.push_str(&format!("V{}:{n} ", l + 1));
                m.insert(*l, vec);
            }
            label.push('}');
            v.push((label, Some(m)));
        }
    }
    v
}

struct CaseOut {
    label: String,
    observations: u64,
    preimages: Vec<[u8; 32]>,
    failures: Vec<(String, String, Value)>,
    sample: Value,
}

fn hash_vec(h: pallas_primitives::Hash<32>) -> Vec<u8> {
    h.to_vec()
}

pub fn run(ctx: Ctx) -> ! {
    let mut rforms = vec![RForm::None, RForm::List(1), RForm::List(2), RForm::Map(1), RForm::Map(2)];
    if ctx.thorough {
        rforms.extend([RForm::List(6), RForm::Map(6)]);
    }
    let dsets = datum_sets();
    let views = view_options(ctx.thorough);
    let subsets_seen: BTreeSet<Vec<u8>> = views.iter().filter_map(|(_, v)| v.as_ref().map(|m| m.keys().copied().collect())).collect();
    if subsets_seen.len() != 8 {
        mc_core::report::machinery_failure("C08: the language-view grid does not hold all 8 subsets");
    }

    let mut grid = vec![];
    for rf in rforms.iter().copied() {
        for (dl, dn) in &dsets {
            for (vl, vo) in &views {
                grid.push((rf, dl.clone(), dn.clone(), vl.clone(), vo.clone()));
            }
        }
    }
    let results: Vec<CaseOut> = grid
        .par_iter()
        .map(|(rf, dl, dn, vl, vo)| {
            let label = format!("redeemers={rf:?} datums={dl} {vl}");
            let mut out = CaseOut { label: label.clone(), observations: 0, preimages: vec![], failures: vec![], sample: json!(null) };
            let red = redeemers(*rf);
            let mut entries = vec![(Node::uint(0), Node::tag(258, Node::array(vec![Node::array(vec![Node::bytes(&[1; 32]), Node::bytes(&[2; 64])])])))];
            if let Some(d) = dn {
                entries.push((Node::uint(4), d.clone()));
            }
            if let Some((rn, _)) = &red {
                entries.push((Node::uint(5), rn.clone()));
            }
            let ws_bytes = Node::map(entries).to_vec();
            let parsed = refcbor::parse_one(&ws_bytes).unwrap();
            let r_span = parsed.map_get(5).map(|n| n.span(&ws_bytes));
            let d_span = parsed.map_get(4).map(|n| n.span(&ws_bytes));
            let lv: Option<LanguageViews> = vo.as_ref().map(|m| LanguageViews(m.clone()));
            let case = json!({"witness_set": hex::encode(&ws_bytes), "language_views": vo.as_ref().map(|m| m.iter().map(|(k, v)| (k.to_string(), if v.len() > 6 { json!(format!("{} coefficients", v.len())) } else { json!(v) })).collect::<BTreeMap<_, _>>())});
            out.sample = json!({"case": label, "witness_set": hex::encode(&ws_bytes)});
            let neither = r_span.is_none() && d_span.is_none();
            let want_pre = preimage(r_span, d_span, vo.as_ref());
            let want = blake2b_256(&want_pre).to_vec();
            out.preimages.push(blake2b_256(&want_pre));

            let r = catch(|| -> Result<(Option<Vec<u8>>, Option<Vec<u8>>, Option<Vec<u8>>), String> {
                let ws: conway::WitnessSet = minicbor::decode(&ws_bytes).map_err(|e| format!("witness set rejected: {e}"))?;
                // (a) build_for
                let built = ScriptData::build_for(&ws, &lv).map(|sd| hash_vec(sd.hash()));
                // (b) the struct filled by hand from the decoded parts
                let direct = if neither {
                    None
                } else {
                    let sd = ScriptData { redeemers: ws.redeemer.as_ref().map(|x| (**x).clone()), datums: ws.plutus_data.clone(), language_views: lv.clone() };
                    Some(hash_vec(sd.hash()))
                };
                // (c) redeemers built in memory instead of decoded
                let mem = red.as_ref().map(|(_, val)| {
                    let sd = ScriptData { redeemers: Some(val.clone()), datums: ws.plutus_data.clone(), language_views: lv.clone() };
                    hash_vec(sd.hash())
                });
                Ok((built, direct, mem))
            });
            match r {
                Err(p) => out.failures.push((p.site(), format!("{label}: panicked: {} at {}", p.message, p.location), case.clone())),
                Ok(Err(e)) => out.failures.push(("script-data-hash:reference-witness-set-rejected".into(), format!("{label}: {e}"), case.clone())),
                Ok(Ok((built, direct, mem))) => {
                    out.observations += 1;
                    match (&built, neither) {
                        (None, true) => {}
                        (Some(h), true) => out.failures.push(("script-data-hash:build_for:hash-without-redeemers-and-datums".into(), format!("{label}: build_for produced {} although the witness set has neither redeemers nor datums", hex::encode(h)), case.clone())),
                        (None, false) => out.failures.push(("script-data-hash:build_for:no-hash".into(), format!("{label}: build_for returned None"), case.clone())),
                        (Some(h), false) => {
                            // build_for derives the language views of the transaction: without
                            // redeemers no script runs, the ledger's language set is empty and the
                            // views part of the formula is the empty map whatever cost models the
                            // caller has at hand (the real datum-only transaction confirms this).
                            let want_build = if r_span.is_none() { blake2b_256(&preimage(r_span, d_span, None)).to_vec() } else { want.clone() };
                            if *h != want_build {
                                out.failures.push(("script-data-hash:build_for:formula".into(), format!("{label}: build_for(..).hash() = {} but Blake2b-256(redeemers|a0 ++ datums ++ views|a0) = {} (preimage {})", hex::encode(h), hex::encode(&want_build), short(&want_pre)), case.clone()));
                            }
                        }
                    }
                    for (which, got) in [("ScriptData::hash", &direct), ("ScriptData::hash(in-memory redeemers)", &mem)] {
                        if let Some(h) = got {
                            out.observations += 1;
                            if *h != want {
                                out.failures.push((format!("script-data-hash:{which}:formula"), format!("{label}: {which} = {} but the formula gives {} (preimage {})", hex::encode(h), hex::encode(&want), short(&want_pre)), case.clone()));
                            }
                        }
                    }
                }
            }
            out
        })
        .collect();

    let mut evaluations = 0u64;
    let mut distinct: BTreeSet<[u8; 32]> = BTreeSet::new();
    let mut samples = vec![];
    for (i, o) in results.iter().enumerate() {
        evaluations += o.observations.max(1);
        for p in &o.preimages {
            distinct.insert(*p);
        }
        for (fp, what, case) in &o.failures {
            ctx.violation(fp.clone(), what.clone(), case.clone());
        }
        if i % (results.len() / 8).max(1) == 3 && samples.len() < 8 {
            samples.push(o.sample.clone());
        }
        let _ = &o.label;
    }

    // ---------------------------------------------------------------- language views alone
    let mut view_encodings = 0u64;
    for (vl, vo) in &views {
        if let Some(m) = vo {
            evaluations += 1;
            view_encodings += 1;
            match catch(|| minicbor::to_vec(LanguageViews(m.clone()))) {
                Err(p) => ctx.violation(p.site(), format!("encoding {vl} panicked: {}", p.message), json!({"views": vl})),
                Ok(Err(e)) => ctx.violation("language-views:encode-error", format!("{vl}: {e}"), json!({"views": vl})),
                Ok(Ok(b)) => {
                    let want = views_bytes(m);
                    if b != want {
                        ctx.violation(
                            "language-views:not-canonical-ledger-encoding",
                            format!("{vl}: pallas encodes {} but the ledger form is {}", short(&b), short(&want)),
                            json!({"views": vl, "pallas": hex::encode(&b), "ledger": hex::encode(&want)}),
                        );
                    }
                }
            }
        }
    }

    // ---------------------------------------------------------------- the five real transactions
    let real: [(&str, Vec<u8>); 5] = [("conway1.tx", vec![1]), ("conway2.tx", vec![0]), ("hydra-init.tx", vec![1]), ("datum-only.tx", vec![]), ("conway9.tx", vec![0, 1, 2])];
    let txs = artefacts::load_hex("tx");
    let mut real_checked = 0u64;
    for (name, langs) in real {
        let Some(a) = txs.iter().find(|t| t.name == name) else {
            mc_core::report::machinery_failure(&format!("C08: {name} is missing from test_data"))
        };
        let root = refcbor::parse_one(&a.bytes).unwrap();
        let parts = root.as_array().unwrap();
        let body_hash = parts[0].map_get(11).and_then(|n| n.as_bytes());
        let r_span = parts[1].map_get(5).map(|n| n.span(&a.bytes));
        let d_span = parts[1].map_get(4).map(|n| n.span(&a.bytes));
        let vo: Option<BTreeMap<u8, Vec<i64>>> = if langs.is_empty() { None } else { Some(langs.iter().map(|l| (*l, cost_vectors(*l)[3].1.clone())).collect()) };
        let want = blake2b_256(&preimage(r_span, d_span, vo.as_ref())).to_vec();
        if body_hash.as_deref() != Some(&want[..]) {
            mc_core::report::machinery_failure(&format!(
                "C08 oracle disagrees with the ledger on {name}: formula gives {}, the transaction body carries {:?}",
                hex::encode(&want),
                body_hash.map(hex::encode)
            ));
        }
        evaluations += 1;
        real_checked += 1;
        distinct.insert(blake2b_256(&preimage(r_span, d_span, vo.as_ref())));
        let lv = vo.map(LanguageViews);
        match catch(|| minicbor::decode::<conway::Tx>(&a.bytes).map(|tx| ScriptData::build_for(&tx.transaction_witness_set, &lv).map(|sd| hash_vec(sd.hash())))) {
            Err(p) => ctx.violation(p.site(), format!("{name}: panicked: {} at {}", p.message, p.location), json!({"artefact": name})),
            Ok(Err(e)) => ctx.violation("script-data-hash:real-tx-rejected", format!("{name}: {e}"), json!({"artefact": name})),
            Ok(Ok(got)) => {
                if got.as_deref() != Some(&want[..]) {
                    ctx.violation(
                        "script-data-hash:build_for:formula",
                        format!("{name}: build_for(..).hash() = {:?}, ledger value {}", got.map(hex::encode), hex::encode(&want)),
                        json!({"artefact": name}),
                    );
                }
            }
        }
    }

    // ---------------------------------------------------------------- non-canonical redeemer encodings (diagnostic / strict)
    let d = datas();
    let item = |t: u64, i: u64, di: usize| Node::array(vec![Node::uint(t), Node::uint(i), d[di].1.clone(), Node::array(vec![Node::uint(7), Node::uint(9)])]);
    let noncanon: Vec<(&str, Node)> = vec![
        ("indefinite list", Node::array_indef(vec![item(0, 0, 0)])),
        ("list item with a widened integer head", Node::array(vec![Node::array(vec![Node::uint_w(0, 1), Node::uint(0), d[0].1.clone(), Node::array(vec![Node::uint(7), Node::uint(9)])])])),
        (
            "map with keys out of order",
            Node::map(vec![
                (Node::array(vec![Node::uint(1), Node::uint(0)]), Node::array(vec![d[0].1.clone(), Node::array(vec![Node::uint(7), Node::uint(9)])])),
                (Node::array(vec![Node::uint(0), Node::uint(0)]), Node::array(vec![d[0].1.clone(), Node::array(vec![Node::uint(7), Node::uint(9)])])),
            ]),
        ),
        ("indefinite map", Node::map_indef(vec![(Node::array(vec![Node::uint(0), Node::uint(0)]), Node::array(vec![d[0].1.clone(), Node::array(vec![Node::uint(7), Node::uint(9)])]))])),
    ];
    let mut diag = vec![];
    for (what, rn) in noncanon {
        let ws_bytes = Node::map(vec![(Node::uint(5), rn.clone())]).to_vec();
        let r_bytes = rn.to_vec();
        let want = blake2b_256(&preimage(Some(&r_bytes), None, None)).to_vec();
        evaluations += 1;
        let got = catch(|| minicbor::decode::<conway::WitnessSet>(&ws_bytes).ok().and_then(|ws| ScriptData::build_for(&ws, &None).map(|sd| hash_vec(sd.hash()))));
        match got {
            Ok(Some(h)) if h != want => {
                diag.push(json!({"redeemers": what, "witness_set": hex::encode(&ws_bytes), "hash_over_wire_bytes": hex::encode(&want), "pallas": hex::encode(&h)}));
                if STRICT_REDEEMER_BYTES {
                    ctx.violation("script-data-hash:build_for:redeemers-reencoded", format!("redeemers as {what} ({}): build_for hashes a re-encoding, not the bytes that arrived", hex::encode(&r_bytes)), json!({"witness_set": hex::encode(&ws_bytes)}));
                }
            }
            Ok(_) => {}
            Err(p) => ctx.violation(p.site(), format!("non-canonical redeemers ({what}) panicked: {}", p.message), json!({"witness_set": hex::encode(&ws_bytes)})),
        }
    }

    if distinct.len() < 1000 || real_checked != 5 {
        mc_core::report::machinery_failure(&format!("C08 grid too small: {} distinct preimages, {real_checked} real transactions", distinct.len()));
    }
    let bp = crate::c08_builder::run_part(&ctx);
    if bp.hashes_checked < bp.cases {
        mc_core::report::machinery_failure(&format!("C08 builder pass vacuous: {} hashes checked in {} cases", bp.hashes_checked, bp.cases));
    }
    let evaluations = evaluations + bp.hashes_checked;
    let cov = cov! {
        "evaluations" => evaluations,
        "distinct_nontrivial" => distinct.len(),
        "txbuilder_pass" => json!({"cases": bp.cases, "builds": bp.builds, "script_data_hashes_checked": bp.hashes_checked,
            "rule": "case = (1..4 spend redeemers, 0..2 mint redeemers, 0..2 witness datums, non-empty subset of the three languages) staged on the real StagingTransaction and built with build_conway_raw on 8 (quick) / 24 (thorough) fresh instances; body key 11 must equal Blake2b-256(witness key 5 bytes as built || witness key 4 bytes as built || own language-view encoding)"}),
        "rule" => "evaluation = one hash observation (build_for, ScriptData::hash on decoded parts, ScriptData::hash with in-memory redeemers, LanguageViews encoding, real transaction); non-trivial = distinct expected preimages redeemers|a0 ++ datums ++ views|a0 assembled by the oracle (counted by their Blake2b)",
        "samples" => samples,
        "grid" => json!({"redeemer_forms": rforms.len(), "datum_sets": dsets.len(), "language_view_options": views.len(), "language_subsets": 8, "cases": grid.len()}),
        "language_view_encodings_compared" => view_encodings,
        "real_transactions_matching_their_body_hash" => real_checked,
        "noncanonical_redeemer_encodings_hashed_differently_from_wire" => diag,
        "strict_redeemer_bytes" => STRICT_REDEEMER_BYTES,
        "exhaustive" => true,
    };
    ctx.finish(
        Level::Exploration,
        cov,
        &[
            "txbuilder pass: the iteration order of the builder's redeemer HashMap is not owned by the harness; each case is built on several fresh instances (the statement must hold on each)",
            "redeemers are supplied in canonical encoding (definite, minimal heads, sorted keys) as DESIGN.md prescribes; what build_for does with other encodings is listed as a diagnostic",
            "cost vectors: empty, [0], i64 extremes and the real mainnet models; other lengths / values are not enumerated",
            "the oracle's formula is validated against the script_data_hash recorded in the five real transactions",
        ],
    )
}

fn short(b: &[u8]) -> String {
    if b.len() <= 80 {
        hex::encode(b)
    } else {
        format!("{}..({} bytes)", hex::encode(&b[..80]), b.len())
    }
}
