//! C06(ii) — Conway types (`pallas_primitives::conway`).

use crate::gen_alonzo as al;
use crate::gen_ledger::*;
use crate::rt;
use pallas_codec::utils::{CborWrap, KeepRaw, NonEmptySet, NonZeroInt, Nullable, PositiveCoin, Set};
use pallas_primitives::conway::*;
use std::collections::BTreeMap;

fn pc(v: u64) -> PositiveCoin {
    PositiveCoin::try_from(v).unwrap()
}
fn nz(v: i64) -> NonZeroInt {
    NonZeroInt::try_from(v).unwrap()
}
fn nes<T>(v: Vec<T>) -> NonEmptySet<T> {
    NonEmptySet::from_vec(v).unwrap()
}

pub fn values() -> Vec<Value> {
    let mut v: Vec<Value> = [0u64, 23, 24, 255, 256, 65536, 1 << 32, u64::MAX].into_iter().map(Value::Coin).collect();
    v.push(Value::Multiasset(0, BTreeMap::new()));
    v.push(Value::Multiasset(2_000_000, BTreeMap::from([(h28(1), BTreeMap::from([(by(1, 3), pc(1))]))])));
    v.push(Value::Multiasset(u64::MAX, BTreeMap::from([(h28(2), BTreeMap::from([(by(0, 0), pc(24)), (by(9, 32), pc(u64::MAX))])), (h28(1), BTreeMap::new())])));
    v
}

pub fn mints() -> Vec<Mint> {
    vec![
        BTreeMap::new(),
        BTreeMap::from([(h28(1), BTreeMap::from([(by(1, 3), nz(-1))]))]),
        BTreeMap::from([(h28(2), BTreeMap::from([(by(0, 0), nz(i64::MIN)), (by(9, 32), nz(i64::MAX)), (by(3, 1), nz(1))])), (h28(1), BTreeMap::new())]),
    ]
}

pub fn anchors() -> Vec<Anchor> {
    vec![Anchor { url: "https://example.org/a".into(), content_hash: h32(1) }, Anchor { url: String::new(), content_hash: h32(0) }, Anchor { url: "u".repeat(128), content_hash: h32(255) }]
}

pub fn dreps() -> Vec<DRep> {
    vec![DRep::Key(h28(1)), DRep::Script(h28(2)), DRep::Abstain, DRep::NoConfidence]
}

pub fn voters() -> Vec<Voter> {
    vec![
        Voter::ConstitutionalCommitteeKey(h28(1)),
        Voter::ConstitutionalCommitteeScript(h28(2)),
        Voter::DRepKey(h28(3)),
        Voter::DRepScript(h28(4)),
        Voter::StakePoolKey(h28(5)),
    ]
}

pub fn gov_ids() -> Vec<GovActionId> {
    vec![GovActionId { transaction_id: h32(1), action_index: 0 }, GovActionId { transaction_id: h32(2), action_index: u32::MAX }]
}

pub fn certs() -> Vec<Certificate> {
    let mut v = vec![];
    let anchor_opts = [None, Some(anchors()[0].clone())];
    for cr in creds() {
        v.push(Certificate::StakeRegistration(cr.clone()));
        v.push(Certificate::StakeDeregistration(cr.clone()));
        v.push(Certificate::StakeDelegation(cr.clone(), h28(5)));
        v.push(Certificate::Reg(cr.clone(), 2_000_000));
        v.push(Certificate::UnReg(cr.clone(), u64::MAX));
        for d in dreps() {
            v.push(Certificate::VoteDeleg(cr.clone(), d.clone()));
            v.push(Certificate::StakeVoteDeleg(cr.clone(), h28(6), d.clone()));
            v.push(Certificate::VoteRegDeleg(cr.clone(), d.clone(), 0));
            v.push(Certificate::StakeVoteRegDeleg(cr.clone(), h28(7), d, 24));
        }
        v.push(Certificate::StakeRegDeleg(cr.clone(), h28(8), 256));
        for hot in creds() {
            v.push(Certificate::AuthCommitteeHot(cr.clone(), hot));
        }
        for a in &anchor_opts {
            v.push(Certificate::ResignCommitteeCold(cr.clone(), a.clone()));
            v.push(Certificate::RegDRepCert(cr.clone(), 500_000_000, a.clone()));
            v.push(Certificate::UpdateDRepCert(cr.clone(), a.clone()));
        }
        v.push(Certificate::UnRegDRepCert(cr.clone(), 500_000_000));
    }
    for pm in pool_metadata() {
        for rel in [vec![], relays()] {
            for owners in [vec![], vec![h28(6), h28(7)]] {
                v.push(Certificate::PoolRegistration {
                    operator: h28(1),
                    vrf_keyhash: h32(2),
                    pledge: u64::MAX,
                    cost: 170_000_000,
                    margin: rationals()[3].clone(),
                    reward_account: by(0xe1, 29),
                    pool_owners: Set::from(owners),
                    relays: rel.clone(),
                    pool_metadata: pm.clone(),
                });
            }
        }
    }
    v.push(Certificate::PoolRetirement(h28(1), 0));
    v.push(Certificate::PoolRetirement(h28(1), u64::MAX));
    v
}

pub fn cost_models() -> Vec<(String, CostModels)> {
    let vs = al::cost_model_vectors();
    let mut v = vec![];
    let unknowns: Vec<(&str, BTreeMap<u64, CostModel>)> = vec![
        ("unknown={}", BTreeMap::new()),
        ("unknown={3:[1]}", BTreeMap::from([(3u64, vec![1i64])])),
        ("unknown={255:[],2^32:[-1,i64::MAX,i64::MIN]}", BTreeMap::from([(255u64, vec![]), (1u64 << 32, vs[2].clone())])),
    ];
    for (ul, u) in &unknowns {
        for mask in 0..8u32 {
            v.push((
                format!("known_mask={mask:#x} {ul}"),
                CostModels {
                    plutus_v1: (mask & 1 != 0).then(|| vs[3].clone()),
                    plutus_v2: (mask & 2 != 0).then(|| vs[2].clone()),
                    plutus_v3: (mask & 4 != 0).then(|| vs[0].clone()),
                    unknown: u.clone(),
                },
            ));
        }
    }
    v
}

const PPU_FIELDS: u32 = 30;

fn pool_thresholds() -> PoolVotingThresholds {
    let r = rationals();
    PoolVotingThresholds {
        motion_no_confidence: r[0].clone(),
        committee_normal: r[1].clone(),
        committee_no_confidence: r[2].clone(),
        hard_fork_initiation: r[3].clone(),
        security_voting_threshold: r[4].clone(),
    }
}

fn drep_thresholds() -> DRepVotingThresholds {
    let r = rationals();
    DRepVotingThresholds {
        motion_no_confidence: r[0].clone(),
        committee_normal: r[1].clone(),
        committee_no_confidence: r[2].clone(),
        update_constitution: r[3].clone(),
        hard_fork_initiation: r[4].clone(),
        pp_network_group: r[0].clone(),
        pp_economic_group: r[1].clone(),
        pp_technical_group: r[2].clone(),
        pp_governance_group: r[3].clone(),
        treasury_withdrawal: r[4].clone(),
    }
}

pub fn ppu(mask: u32) -> ProtocolParamUpdate {
    let b = |i: u32| mask & (1 << i) != 0;
    ProtocolParamUpdate {
        minfee_a: b(0).then_some(44),
        minfee_b: b(1).then_some(u64::MAX),
        max_block_body_size: b(2).then_some(90112),
        max_transaction_size: b(3).then_some(16384),
        max_block_header_size: b(4).then_some(1100),
        key_deposit: b(5).then_some(2_000_000),
        pool_deposit: b(6).then_some(u64::MAX),
        maximum_epoch: b(7).then_some(18),
        desired_number_of_stake_pools: b(8).then_some(500),
        pool_pledge_influence: b(9).then(|| rationals()[1].clone()),
        expansion_rate: b(10).then(|| rationals()[2].clone()),
        treasury_growth_rate: b(11).then(|| rationals()[0].clone()),
        min_pool_cost: b(12).then_some(170_000_000),
        ada_per_utxo_byte: b(13).then_some(4310),
        cost_models_for_script_languages: b(14).then(|| cost_models()[7].1.clone()),
        execution_costs: b(15).then(|| ExUnitPrices { mem_price: rationals()[1].clone(), step_price: rationals()[4].clone() }),
        max_tx_ex_units: b(16).then_some(ExUnits { mem: 14_000_000, steps: 10_000_000_000 }),
        max_block_ex_units: b(17).then_some(ExUnits { mem: u64::MAX, steps: 0 }),
        max_value_size: b(18).then_some(5000),
        collateral_percentage: b(19).then_some(150),
        max_collateral_inputs: b(20).then_some(3),
        pool_voting_thresholds: b(21).then(pool_thresholds),
        drep_voting_thresholds: b(22).then(drep_thresholds),
        min_committee_size: b(23).then_some(7),
        committee_term_limit: b(24).then_some(146),
        governance_action_validity_period: b(25).then_some(6),
        governance_action_deposit: b(26).then_some(100_000_000_000),
        drep_deposit: b(27).then_some(500_000_000),
        drep_inactivity_period: b(28).then_some(20),
        minfee_refscript_cost_per_byte: b(29).then(|| rationals()[4].clone()),
    }
}

pub fn gov_actions() -> Vec<GovAction> {
    let mut v = vec![];
    let ids = [None, Some(gov_ids()[1].clone())];
    let hashes = [None, Some(h28(9))];
    for id in &ids {
        for h in &hashes {
            v.push(GovAction::ParameterChange(id.clone(), Box::new(ppu(0)), *h));
            v.push(GovAction::ParameterChange(id.clone(), Box::new(ppu((1 << 30) - 1)), *h));
            v.push(GovAction::NewConstitution(id.clone(), Constitution { anchor: anchors()[0].clone(), guardrail_script: *h }));
        }
        v.push(GovAction::HardForkInitiation(id.clone(), (10, 0)));
        v.push(GovAction::NoConfidence(id.clone()));
        v.push(GovAction::UpdateCommittee(id.clone(), Set::from(vec![]), BTreeMap::new(), rationals()[1].clone()));
        v.push(GovAction::UpdateCommittee(
            id.clone(),
            Set::from(creds()),
            BTreeMap::from([(creds()[0].clone(), 0u64), (creds()[1].clone(), u64::MAX)]),
            rationals()[2].clone(),
        ));
    }
    for h in &hashes {
        v.push(GovAction::TreasuryWithdrawals(BTreeMap::new(), *h));
        v.push(GovAction::TreasuryWithdrawals(BTreeMap::from([(by(0xe1, 29), 1u64), (by(0xf1, 29), u64::MAX)]), *h));
    }
    v.push(GovAction::Information);
    v
}

pub fn proposals() -> Vec<ProposalProcedure> {
    gov_actions()
        .into_iter()
        .enumerate()
        .map(|(i, gov_action)| ProposalProcedure { deposit: if i % 2 == 0 { 0 } else { u64::MAX }, reward_account: by(0xe1, 29), gov_action, anchor: anchors()[i % 3].clone() })
        .collect()
}

pub fn voting_procedure_values() -> Vec<VotingProcedure> {
    let mut v = vec![];
    for vote in [Vote::No, Vote::Yes, Vote::Abstain] {
        for anchor in [None, Some(anchors()[2].clone())] {
            v.push(VotingProcedure { vote: vote.clone(), anchor });
        }
    }
    v
}

pub fn voting_procedures() -> Vec<VotingProcedures> {
    let vp = voting_procedure_values();
    let mut all = BTreeMap::new();
    for (i, voter) in voters().into_iter().enumerate() {
        all.insert(voter, BTreeMap::from([(gov_ids()[0].clone(), vp[i].clone()), (gov_ids()[1].clone(), vp[5 - i % 6].clone())]));
    }
    vec![BTreeMap::new(), BTreeMap::from([(voters()[4].clone(), BTreeMap::new())]), all]
}

pub fn redeemer_tags() -> [RedeemerTag; 6] {
    [RedeemerTag::Spend, RedeemerTag::Mint, RedeemerTag::Cert, RedeemerTag::Reward, RedeemerTag::Vote, RedeemerTag::Propose]
}

pub fn redeemer_list() -> Vec<Redeemer> {
    let ps = plutus_samples();
    redeemer_tags()
        .into_iter()
        .enumerate()
        .map(|(i, tag)| Redeemer { tag, index: if i % 2 == 0 { 0 } else { u32::MAX }, data: ps[(i * 5) % ps.len()].clone(), ex_units: ExUnits { mem: 1 << (8 * i), steps: u64::MAX >> i } })
        .collect()
}

pub fn redeemers() -> Vec<Redeemers> {
    let l = redeemer_list();
    let to_map = |v: &[Redeemer]| -> BTreeMap<RedeemersKey, RedeemersValue> {
        v.iter().map(|r| (RedeemersKey { tag: r.tag, index: r.index }, RedeemersValue { data: r.data.clone(), ex_units: r.ex_units })).collect()
    };
    vec![
        Redeemers::List(vec![]),
        Redeemers::List(l[..1].to_vec()),
        Redeemers::List(l.clone()),
        Redeemers::List(l.iter().rev().cloned().collect()),
        Redeemers::Map(BTreeMap::new()),
        Redeemers::Map(to_map(&l[..1])),
        Redeemers::Map(to_map(&l)),
    ]
}

pub fn script_refs() -> Vec<ScriptRef<'static>> {
    let mut v: Vec<ScriptRef<'static>> = al::native_scripts().into_iter().step_by(5).map(|n| ScriptRef::NativeScript(KeepRaw::from(n))).collect();
    v.push(ScriptRef::PlutusV1Script(PlutusScript::<1>(by(1, 70))));
    v.push(ScriptRef::PlutusV2Script(PlutusScript::<2>(by(2, 0))));
    v.push(ScriptRef::PlutusV3Script(PlutusScript::<3>(by(3, 300))));
    v
}

pub fn outputs() -> Vec<TransactionOutput<'static>> {
    let mut v: Vec<TransactionOutput<'static>> = al::outputs().into_iter().map(|o| TransactionOutput::Legacy(KeepRaw::from(o))).collect();
    let d = crate::gen_babbage::datum_options();
    let datum_choices = [None, Some(d[0].clone()), Some(d[1].clone()), Some(d[d.len() - 1].clone())];
    let mut script_choices: Vec<Option<ScriptRef<'static>>> = vec![None];
    script_choices.extend(script_refs().into_iter().map(Some));
    for (i, dc) in datum_choices.iter().enumerate() {
        for sc in &script_choices {
            v.push(TransactionOutput::PostAlonzo(KeepRaw::from(PostAlonzoTransactionOutput {
                address: by(0x71, 29),
                value: values()[(i * 3 + 1) % values().len()].clone(),
                datum_option: dc.clone().map(KeepRaw::from),
                script_ref: sc.clone().map(CborWrap),
            })));
        }
    }
    v
}

pub const BODY_NAMES: [&str; 17] = [
    "ttl",
    "certificates",
    "withdrawals",
    "auxiliary_data_hash",
    "validity_interval_start",
    "mint",
    "script_data_hash",
    "collateral",
    "required_signers",
    "network_id",
    "collateral_return",
    "total_collateral",
    "reference_inputs",
    "voting_procedures",
    "proposal_procedures",
    "treasury_value",
    "donation",
];

pub fn body(mask: u32) -> TransactionBody<'static> {
    let b = |i: u32| mask & (1 << i) != 0;
    let outs = outputs();
    TransactionBody {
        inputs: Set::from(inputs()),
        outputs: vec![outs[0].clone(), outs[outs.len() - 1].clone(), outs[9].clone()],
        fee: 170_000,
        ttl: b(0).then_some(u64::MAX),
        certificates: b(1).then(|| nes(certs().into_iter().step_by(7).collect())),
        withdrawals: b(2).then(|| BTreeMap::from([(by(0xe1, 29), 0u64), (by(0xe0, 29), u64::MAX)])),
        auxiliary_data_hash: b(3).then(|| h32(5)),
        validity_interval_start: b(4).then_some(0),
        mint: b(5).then(|| mints()[2].clone()),
        script_data_hash: b(6).then(|| h32(6)),
        collateral: b(7).then(|| nes(inputs()[..1].to_vec())),
        required_signers: b(8).then(|| nes(vec![h28(1), h28(2)])),
        network_id: b(9).then_some(NetworkId::Mainnet),
        collateral_return: b(10).then(|| outs[6].clone()),
        total_collateral: b(11).then_some(5_000_000),
        reference_inputs: b(12).then(|| nes(inputs()[1..].to_vec())),
        voting_procedures: b(13).then(|| voting_procedures()[2].clone()),
        proposal_procedures: b(14).then(|| nes(proposals().into_iter().step_by(5).collect())),
        treasury_value: b(15).then_some(0),
        donation: b(16).then(|| pc(1)),
    }
}

/// `full` with the optional fields not selected by `mask` cleared.
pub fn body_from(full: &TransactionBody<'static>, mask: u32) -> TransactionBody<'static> {
    let b = |i: u32| mask & (1 << i) != 0;
    let mut t = full.clone();
    macro_rules! clear {
        ($i:expr, $f:ident) => {
            if !b($i) {
                t.$f = None;
            }
        };
    }
    clear!(0, ttl);
    clear!(1, certificates);
    clear!(2, withdrawals);
    clear!(3, auxiliary_data_hash);
    clear!(4, validity_interval_start);
    clear!(5, mint);
    clear!(6, script_data_hash);
    clear!(7, collateral);
    clear!(8, required_signers);
    clear!(9, network_id);
    clear!(10, collateral_return);
    clear!(11, total_collateral);
    clear!(12, reference_inputs);
    clear!(13, voting_procedures);
    clear!(14, proposal_procedures);
    clear!(15, treasury_value);
    clear!(16, donation);
    t
}

pub fn witness_set(mask: u32) -> WitnessSet<'static> {
    let b = |i: u32| mask & (1 << i) != 0;
    WitnessSet {
        vkeywitness: b(0).then(|| nes(al::vkeys())),
        native_script: b(1).then(|| nes(al::native_scripts().into_iter().take(6).map(KeepRaw::from).collect())),
        bootstrap_witness: b(2).then(|| nes(al::bootstraps())),
        plutus_v1_script: b(3).then(|| nes(vec![PlutusScript::<1>(by(1, 70))])),
        plutus_data: b(4).then(|| KeepRaw::from(nes(plutus_samples().into_iter().map(KeepRaw::from).collect()))),
        redeemer: b(5).then(|| KeepRaw::from(redeemers()[if mask & 0x40 != 0 { 2 } else { 6 }].clone())),
        plutus_v2_script: b(6).then(|| nes(vec![PlutusScript::<2>(by(2, 1)), PlutusScript::<2>(by(3, 0))])),
        plutus_v3_script: b(7).then(|| nes(vec![PlutusScript::<3>(by(4, 65))])),
    }
}

pub fn run(r: &mut Runner) {
    rt!(r, "conway::Value", Value, eq, lab(values()));
    rt!(r, "conway::Mint", Mint, eq, lab(mints()));
    rt!(r, "conway::Anchor", Anchor, eq, lab(anchors()));
    rt!(r, "conway::DRep", DRep, eq, lab(dreps()));
    rt!(r, "conway::Voter", Voter, eq, lab(voters()));
    rt!(r, "conway::GovActionId", GovActionId, eq, lab(gov_ids()));
    rt!(r, "conway::Certificate", Certificate, eq, lab(certs()));
    rt!(r, "conway::CostModels", CostModels, eq, cost_models());
    rt!(r, "conway::PoolVotingThresholds", PoolVotingThresholds, eq, lab(vec![pool_thresholds()]));
    rt!(r, "conway::DRepVotingThresholds", DRepVotingThresholds, eq, lab(vec![drep_thresholds()]));
    rt!(
        r,
        "conway::ProtocolParamUpdate",
        ProtocolParamUpdate,
        eq,
        al::sweep_masks(PPU_FIELDS, r.ctx.thorough).into_iter().map(|m| (format!("mask={m:#x}"), ppu(m))).collect::<Vec<_>>()
    );
    rt!(
        r,
        "conway::Update",
        Update,
        eq,
        lab(vec![
            Update { proposed_protocol_parameter_updates: BTreeMap::new(), epoch: 0 },
            Update { proposed_protocol_parameter_updates: BTreeMap::from([(by(1, 28), ppu(0)), (by(2, 28), ppu((1 << 30) - 1))]), epoch: u64::MAX },
        ])
    );
    rt!(r, "conway::Constitution", Constitution, eq, lab(vec![Constitution { anchor: anchors()[0].clone(), guardrail_script: None }, Constitution { anchor: anchors()[1].clone(), guardrail_script: Some(h28(3)) }]));
    rt!(r, "conway::GovAction", GovAction, eq, lab(gov_actions()));
    rt!(r, "conway::ProposalProcedure", ProposalProcedure, eq, lab(proposals()));
    rt!(r, "conway::VotingProcedure", VotingProcedure, eq, lab(voting_procedure_values()));
    rt!(r, "conway::VotingProcedures", VotingProcedures, eq, lab(voting_procedures()));
    rt!(r, "conway::ExUnitPrices", ExUnitPrices, eq, lab(rationals().into_iter().map(|x| ExUnitPrices { mem_price: x, step_price: rationals()[0].clone() }).collect()));
    rt!(r, "conway::Redeemer", Redeemer, eq, lab(redeemer_list()));
    rt!(r, "conway::Redeemers", Redeemers, eq, lab(redeemers()));
    rt!(r, "conway::ScriptRef", ScriptRef<'_>, raw, lab(script_refs()));
    rt!(r, "conway::TransactionOutput", TransactionOutput<'_>, raw, lab(outputs()));
    let mut aux = vec![];
    for mask in 0..32u32 {
        aux.push((
            format!("mask={mask:#x}"),
            PostAlonzoAuxiliaryData {
                metadata: (mask & 1 != 0).then(|| metadata_maps()[2].clone()),
                native_scripts: (mask & 2 != 0).then(al::native_scripts),
                plutus_v1_scripts: (mask & 4 != 0).then(|| vec![PlutusScript::<1>(by(1, 10))]),
                plutus_v2_scripts: (mask & 8 != 0).then(|| vec![PlutusScript::<2>(by(2, 65))]),
                plutus_v3_scripts: (mask & 16 != 0).then(|| vec![PlutusScript::<3>(by(3, 0))]),
            },
        ));
    }
    rt!(r, "conway::PostAlonzoAuxiliaryData", PostAlonzoAuxiliaryData, eq, aux);
    rt!(
        r,
        "conway::TransactionBody",
        TransactionBody<'_>,
        raw,
        {
            use rayon::prelude::*;
            let full = body(0x1ffff);
            al::all_masks(17).into_par_iter().map(move |m| (al::mask_label(m, &BODY_NAMES), body_from(&full, m)))
        }
    );
    let wnames = ["vkeywitness", "native_script", "bootstrap_witness", "plutus_v1_script", "plutus_data", "redeemer", "plutus_v2_script", "plutus_v3_script"];
    rt!(r, "conway::WitnessSet", WitnessSet<'_>, raw, al::all_masks(8).into_iter().map(|m| (al::mask_label(m, &wnames), witness_set(m))).collect::<Vec<_>>());
    let mut txs: Vec<(String, Tx<'static>)> = vec![];
    for (i, aux) in [Nullable::Null, Nullable::Undefined, Nullable::Some(KeepRaw::from(al::aux_datas()[14].clone()))].into_iter().enumerate() {
        for success in [true, false] {
            txs.push((
                format!("aux#{i} success={success}"),
                Tx { transaction_body: KeepRaw::from(body(0x1ffff)), transaction_witness_set: KeepRaw::from(witness_set(0xff)), success, auxiliary_data: aux.clone() },
            ));
        }
    }
    rt!(r, "conway::Tx", Tx<'_>, raw, txs);
    let mut blocks: Vec<(String, Block<'static>)> = vec![];
    for n in [0usize, 1, 3] {
        for invalid in [None, Some(vec![]), Some(vec![0u32, 2])] {
            blocks.push((
                format!("txs={n} invalid={invalid:?}"),
                Block {
                    header: KeepRaw::from(Header { header_body: crate::gen_babbage::header_bodies()[1].clone(), body_signature: by(6, 448) }),
                    transaction_bodies: (0..n).map(|i| KeepRaw::from(body(1 << (i + 13)))).collect(),
                    transaction_witness_sets: (0..n).map(|i| KeepRaw::from(witness_set(1 << (i + 4)))).collect(),
                    auxiliary_data_set: (0..n).step_by(2).map(|i| (i as u32, KeepRaw::from(al::aux_datas()[i + 12].clone()))).collect(),
                    invalid_transactions: invalid.clone(),
                },
            ));
        }
    }
    rt!(r, "conway::Block", Block<'_>, raw, blocks);
}
