//! Value generators for the era ledger types and the round-trip runner used by
//! C06(ii). Shared helper: the sample builders (`h28`, `plutus_samples`,
//! `native_scripts`, ...) are reusable by other crates.
//!
//! Oracle per generated value `v` of type `T`:
//!   b1 = encode(v); d1 = decode::<T>(b1); b2 = encode(d1); d2 = decode::<T>(b2)
//!   * b1 decodes, b2 == b1
//!   * mode `eq`  : d1 == v            (the type's PartialEq)
//!   * mode `dbg` : Debug(d1) == Debug(v)      (types without PartialEq)
//!   * mode `raw` : types embedding KeepRaw — Debug(d1) == Debug(v) with the
//!                  retained bytes masked, and Debug(d2) == Debug(d1) unmasked
//!                  (decoded-vs-decoded; never the derived PartialEq between an
//!                  in-memory value and a decoded one).

use mc_core::{json, Ctx, Value};
use pallas_codec::utils::{Bytes, Int};
use pallas_crypto::hash::Hash;
use pallas_primitives::{
    BigInt, BoundedBytes, Constr, KeyValuePairs, MaybeIndefArray, Metadatum, Nonce, NonceVariant, PlutusData, PoolMetadata, RationalNumber,
    Relay, StakeCredential, TransactionInput, VrfCert,
};
use std::collections::{BTreeMap, BTreeSet};

pub struct ValStats {
    pub evaluations: u64,
    pub distinct: u64,
    pub types: Vec<String>,
    pub samples: Vec<Value>,
}

pub struct CaseResult {
    pub label: String,
    pub enc_hash: [u8; 32],
    pub enc_hex_short: String,
    /// (what, detail, field)
    pub failure: Option<(String, String, String)>,
}

pub struct Runner<'a> {
    pub ctx: &'a Ctx,
    pub evaluations: u64,
    pub distinct: u64,
    pub types: Vec<String>,
    pub samples: Vec<Value>,
}

impl Runner<'_> {
    pub fn absorb(&mut self, ty: &str, results: Vec<CaseResult>) {
        let mut seen: BTreeSet<[u8; 32]> = BTreeSet::new();
        let n = results.len();
        for (i, r) in results.into_iter().enumerate() {
            self.evaluations += 1;
            if let Some((what, detail, field)) = r.failure {
                let fp = if what.starts_with("panic@") {
                    what.clone()
                } else if field.is_empty() {
                    format!("roundtrip:{ty}:{what}")
                } else {
                    format!("roundtrip:{ty}:{what}@{field}")
                };
                self.ctx.violation(fp, format!("{ty} [{}]: {detail}", r.label), json!({"type": ty, "case": r.label, "encoding": r.enc_hex_short}));
                continue;
            }
            if seen.insert(r.enc_hash) {
                self.distinct += 1;
                if i == n / 2 && self.samples.len() < 200 {
                    self.samples.push(json!({"type": ty, "case": r.label, "encoding": r.enc_hex_short}));
                }
            }
        }
        if n == 0 {
            mc_core::report::machinery_failure(&format!("C06(ii): generator for {ty} produced no value"));
        }
        self.types.push(format!("{ty} ({n})"));
        if std::env::var("MC_TIMING").is_ok() {
            eprintln!("{ty}: {n} values, t={:.1}s", self.ctx.elapsed());
        }
    }
}

/// Replace the retained bytes in a Debug rendering (`raw: [1, 2]`) by `raw: _`.
pub fn mask_raw(s: &str) -> String {
    let mut out = String::with_capacity(s.len());
    let mut rest = s;
    while let Some(p) = rest.find("raw: [") {
        out.push_str(&rest[..p]);
        out.push_str("raw: _");
        let after = &rest[p + 6..];
        match after.find(']') {
            Some(q) => rest = &after[q + 1..],
            None => {
                rest = "";
                break;
            }
        }
    }
    out.push_str(rest);
    out
}

/// Name of the struct field in which two Debug renderings first differ.
pub fn differing_field(a: &str, b: &str) -> String {
    let ab = a.as_bytes();
    let bb = b.as_bytes();
    let mut p = ab.iter().zip(bb.iter()).position(|(x, y)| x != y).unwrap_or(ab.len().min(bb.len()));
    p = p.min(ab.len());
    // walk back to the closest "ident:" before p at the same or an outer level
    let pre = &a[..p];
    let mut depth = 0i32;
    let bytes = pre.as_bytes();
    let mut i = bytes.len();
    while i > 0 {
        i -= 1;
        match bytes[i] {
            b')' | b']' | b'}' => depth += 1,
            b'(' | b'[' | b'{' => {
                if depth > 0 {
                    depth -= 1
                }
            }
            b':' if depth == 0 => {
                let mut j = i;
                while j > 0 && (bytes[j - 1].is_ascii_alphanumeric() || bytes[j - 1] == b'_') {
                    j -= 1;
                }
                if j < i && !bytes[j].is_ascii_digit() {
                    return pre[j..i].to_string();
                }
            }
            _ => {}
        }
    }
    String::new()
}

pub fn short_hex(b: &[u8]) -> String {
    if b.len() <= 96 {
        hex::encode(b)
    } else {
        format!("{}..({} bytes)", hex::encode(&b[..96]), b.len())
    }
}

/// Round-trip every `(label, value)` of `$vals` as type `$ty` in mode
/// `eq` / `dbg` / `raw`; results go to the runner under the name `$name`.
#[macro_export]
macro_rules! rt {
    ($r:expr, $name:expr, $ty:ty, $mode:ident, $vals:expr) => {{
        use rayon::prelude::*;
        let results: Vec<$crate::gen_ledger::CaseResult> = ($vals)
            .into_par_iter()
            .map(|(label, v): (String, $ty)| {
                let mut res = $crate::gen_ledger::CaseResult { label, enc_hash: [0; 32], enc_hex_short: String::new(), failure: None };
                let out = mc_core::catch(|| -> Result<(Vec<u8>, String), (String, String, String)> {
                    let b1 = pallas_codec::minicbor::to_vec(&v).map_err(|e| ("encode-error".to_string(), format!("encode failed: {e}"), String::new()))?;
                    let fail = |what: &str, detail: String, field: String| (what.to_string(), detail, field);
                    let d1: $ty = match pallas_codec::minicbor::decode(&b1) {
                        Ok(d) => d,
                        Err(e) => return Err(fail("own-encoding-rejected", format!("decode(encode(v)) failed: {e}; v = {:?}; encoding {}", v, $crate::gen_ledger::short_hex(&b1)), String::new())),
                    };
                    let b2 = pallas_codec::minicbor::to_vec(&d1).map_err(|e| fail("encode-error", format!("second encode failed: {e}"), String::new()))?;
                    if b2 != b1 {
                        return Err(fail("bytes-differ", format!("encode(decode(encode(v))) = {} but encode(v) = {}", $crate::gen_ledger::short_hex(&b2), $crate::gen_ledger::short_hex(&b1)), String::new()));
                    }
                    $crate::rt_cmp!($mode, $ty, v, d1, b1, b2, fail);
                    Ok((b1, String::new()))
                });
                match out {
                    Err(p) => res.failure = Some((p.site(), format!("panicked: {} at {}", p.message, p.location), String::new())),
                    Ok(Err(f)) => res.failure = Some(f),
                    Ok(Ok((b1, _))) => {
                        res.enc_hash = mc_core::blake2b::blake2b_256(&b1);
                        res.enc_hex_short = $crate::gen_ledger::short_hex(&b1);
                    }
                }
                res
            })
            .collect();
        $r.absorb($name, results);
    }};
}

#[macro_export]
macro_rules! rt_cmp {
    (eq, $ty:ty, $v:ident, $d1:ident, $b1:ident, $b2:ident, $fail:ident) => {
        if $d1 != $v {
            let (a, b) = (format!("{:?}", $v), format!("{:?}", $d1));
            return Err($fail("value-differs", format!("decode(encode(v)) != v: v = {a}; decoded = {b}; encoding {}", $crate::gen_ledger::short_hex(&$b1)), $crate::gen_ledger::differing_field(&a, &b)));
        }
    };
    (dbg, $ty:ty, $v:ident, $d1:ident, $b1:ident, $b2:ident, $fail:ident) => {
        let (a, b) = (format!("{:?}", $v), format!("{:?}", $d1));
        if a != b {
            return Err($fail("value-differs", format!("decode(encode(v)) != v: v = {a}; decoded = {b}; encoding {}", $crate::gen_ledger::short_hex(&$b1)), $crate::gen_ledger::differing_field(&a, &b)));
        }
    };
    (raw, $ty:ty, $v:ident, $d1:ident, $b1:ident, $b2:ident, $fail:ident) => {
        let (a, b) = ($crate::gen_ledger::mask_raw(&format!("{:?}", $v)), $crate::gen_ledger::mask_raw(&format!("{:?}", $d1)));
        if a != b {
            return Err($fail("value-differs", format!("decode(encode(v)) != v (retained bytes masked): v = {a}; decoded = {b}; encoding {}", $crate::gen_ledger::short_hex(&$b1)), $crate::gen_ledger::differing_field(&a, &b)));
        }
        let d2: $ty = match pallas_codec::minicbor::decode(&$b2) {
            Ok(d) => d,
            Err(e) => return Err($fail("own-encoding-rejected", format!("second decode failed: {e}"), String::new())),
        };
        let (a, b) = (format!("{:?}", $d1), format!("{:?}", d2));
        if a != b {
            return Err($fail("value-differs", format!("second decode differs from first: {a} vs {b}"), $crate::gen_ledger::differing_field(&a, &b)));
        }
    };
}

// ---------------------------------------------------------------- samples

pub fn h28(n: u8) -> Hash<28> {
    Hash::from([n; 28])
}
pub fn h32(n: u8) -> Hash<32> {
    Hash::from([n; 32])
}
pub fn by(n: u8, len: usize) -> Bytes {
    Bytes::from((0..len).map(|i| n.wrapping_add(i as u8)).collect::<Vec<u8>>())
}
pub fn lab<T>(v: Vec<T>) -> Vec<(String, T)> {
    v.into_iter().enumerate().map(|(i, x)| (format!("#{i}"), x)).collect()
}

/// Boundary integers of the CBOR integer range [-2^64, 2^64-1].
pub const INT_BOUNDS: [i128; 14] = [
    -(1i128 << 64),
    -(1i128 << 63) - 1,
    -(1i128 << 63),
    -(1i128 << 32) - 1,
    -257,
    -25,
    -24,
    -1,
    0,
    23,
    24,
    (1i128 << 63) - 1,
    1i128 << 63,
    (1i128 << 64) - 1,
];

pub fn ints() -> Vec<Int> {
    INT_BOUNDS.iter().map(|v| Int::try_from(*v).unwrap()).collect()
}

pub fn rationals() -> Vec<RationalNumber> {
    [(0, 1), (1, 2), (u64::MAX, u64::MAX), (1 << 63, 3), (24, 256)]
        .into_iter()
        .map(|(numerator, denominator)| RationalNumber { numerator, denominator })
        .collect()
}

pub fn nonces() -> Vec<Nonce> {
    vec![
        Nonce { variant: NonceVariant::NeutralNonce, hash: None },
        Nonce { variant: NonceVariant::Nonce, hash: Some(h32(9)) },
    ]
}

pub fn relays() -> Vec<Relay> {
    let mut v = vec![];
    for port in [None, Some(0u32), Some(65535), Some(u32::MAX)] {
        for v4 in [None, Some(by(1, 4))] {
            for v6 in [None, Some(by(2, 16))] {
                v.push(Relay::SingleHostAddr(port, v4.clone(), v6.clone()));
            }
        }
        v.push(Relay::SingleHostName(port, "relay.example.org".to_string()));
    }
    v.push(Relay::MultiHostName("pool.example.org".to_string()));
    v.push(Relay::MultiHostName(String::new()));
    v
}

pub fn creds() -> Vec<StakeCredential> {
    vec![StakeCredential::AddrKeyhash(h28(1)), StakeCredential::ScriptHash(h28(2))]
}

pub fn pool_metadata() -> Vec<Option<PoolMetadata>> {
    vec![None, Some(PoolMetadata { url: "https://example.org/p.json".into(), hash: by(7, 32) })]
}

pub fn inputs() -> Vec<TransactionInput> {
    vec![
        TransactionInput { transaction_id: h32(1), index: 0 },
        TransactionInput { transaction_id: h32(2), index: u64::MAX },
        TransactionInput { transaction_id: h32(3), index: 24 },
    ]
}

pub fn vrf_cert() -> VrfCert {
    VrfCert(by(3, 64), by(4, 80))
}

pub fn metadatum_atoms() -> Vec<Metadatum> {
    let mut v: Vec<Metadatum> = ints().into_iter().map(Metadatum::Int).collect();
    for l in [0usize, 1, 64, 65] {
        v.push(Metadatum::Bytes(by(5, l)));
    }
    for t in ["", "a", "\u{20ac}uro", &"x".repeat(64), &"y".repeat(65)] {
        v.push(Metadatum::Text(t.to_string()));
    }
    v
}

/// Metadatum values nested up to `depth` container levels.
pub fn metadata_values(depth: usize) -> Vec<Metadatum> {
    let atoms = metadatum_atoms();
    let mut all = atoms.clone();
    // children used inside containers: a reduced set of the previous level
    let mut kids: Vec<Metadatum> = vec![atoms[0].clone(), atoms[8].clone(), atoms[13].clone(), atoms[15].clone(), atoms[19].clone()];
    for _ in 0..depth {
        let mut level = vec![Metadatum::Array(vec![])];
        for k in &kids {
            level.push(Metadatum::Array(vec![k.clone()]));
        }
        for a in kids.iter().take(3) {
            for b in kids.iter().rev().take(3) {
                level.push(Metadatum::Array(vec![a.clone(), b.clone()]));
            }
        }
        for indef in [false, true] {
            let mk = |e: Vec<(Metadatum, Metadatum)>| Metadatum::Map(if indef { KeyValuePairs::Indef(e) } else { KeyValuePairs::Def(e) });
            level.push(mk(vec![]));
            for k in &kids {
                level.push(mk(vec![(k.clone(), kids[0].clone())]));
                level.push(mk(vec![(kids[1].clone(), k.clone())]));
            }
            level.push(mk(vec![(kids[0].clone(), kids[1].clone()), (kids[2].clone(), kids[3].clone())]));
            // insertion order is kept, also when it is not the canonical one
            level.push(mk(vec![(kids[2].clone(), kids[3].clone()), (kids[0].clone(), kids[1].clone())]));
        }
        all.extend(level.iter().cloned());
        kids = vec![kids[0].clone(), kids[3].clone(), level[1].clone(), level[level.len() - 1].clone(), level[level.len() / 2].clone()];
    }
    all
}

pub fn metadata_maps() -> Vec<BTreeMap<u64, Metadatum>> {
    let vals = metadata_values(2);
    let mut v = vec![BTreeMap::new()];
    v.push(BTreeMap::from([(0u64, vals[0].clone())]));
    v.push(BTreeMap::from([(u64::MAX, vals[vals.len() - 1].clone()), (1, vals[vals.len() / 2].clone()), (674, Metadatum::Text("msg".into()))]));
    v
}

pub fn big_ints() -> Vec<BigInt> {
    let mut v: Vec<BigInt> = ints().into_iter().map(BigInt::Int).collect();
    for b in [vec![], vec![0], vec![1], vec![0, 1], vec![1, 0, 0, 0, 0, 0, 0, 0, 0], vec![0xff; 65]] {
        v.push(BigInt::BigUInt(BoundedBytes::from(b.clone())));
        v.push(BigInt::BigNInt(BoundedBytes::from(b)));
    }
    v
}

/// A small PlutusData family for embedding in redeemers / datums.
pub fn plutus_samples() -> Vec<PlutusData> {
    let i = |n: i64| PlutusData::BigInt(BigInt::Int(Int::from(n)));
    let b = |l: usize| PlutusData::BoundedBytes(BoundedBytes::from(vec![0xab; l]));
    vec![
        i(0),
        i(-1),
        PlutusData::BigInt(BigInt::BigUInt(BoundedBytes::from(vec![1, 0, 0, 0, 0, 0, 0, 0, 0]))),
        b(0),
        b(64),
        b(65),
        PlutusData::Array(MaybeIndefArray::Def(vec![])),
        PlutusData::Array(MaybeIndefArray::Indef(vec![i(1), b(3)])),
        PlutusData::Map(KeyValuePairs::Def(vec![(i(1), b(1)), (i(0), i(2))])),
        PlutusData::Map(KeyValuePairs::Indef(vec![])),
        PlutusData::Constr(Constr { tag: 121, any_constructor: None, fields: MaybeIndefArray::Def(vec![]) }),
        PlutusData::Constr(Constr { tag: 1400, any_constructor: None, fields: MaybeIndefArray::Indef(vec![i(5)]) }),
        PlutusData::Constr(Constr { tag: 102, any_constructor: Some(453), fields: MaybeIndefArray::Indef(vec![i(2), b(70)]) }),
    ]
}

pub fn run_all(ctx: &Ctx) -> ValStats {
    let mut r = Runner { ctx, evaluations: 0, distinct: 0, types: vec![], samples: vec![] };
    crate::gen_common::run(&mut r);
    crate::gen_alonzo::run(&mut r);
    crate::gen_babbage::run(&mut r);
    crate::gen_conway::run(&mut r);
    crate::gen_byron::run(&mut r);
    // keep a spread of samples
    let step = (r.samples.len() / 12).max(1);
    let samples: Vec<Value> = r.samples.iter().step_by(step).cloned().collect();
    ValStats { evaluations: r.evaluations, distinct: r.distinct, types: r.types, samples }
}
