//! C06(ii) — Shelley..Alonzo types (`pallas_primitives::alonzo`).

use crate::gen_ledger::*;
use crate::rt;
use pallas_codec::utils::{KeepRaw, Nullable};
use pallas_primitives::alonzo::*;
use std::collections::BTreeMap;

pub fn header_bodies() -> Vec<HeaderBody> {
    [None, Some(h32(8))]
        .into_iter()
        .map(|prev_hash| HeaderBody {
            block_number: if prev_hash.is_some() { u64::MAX } else { 0 },
            slot: 4492800,
            prev_hash,
            issuer_vkey: by(1, 32),
            vrf_vkey: by(2, 32),
            nonce_vrf: vrf_cert(),
            leader_vrf: vrf_cert(),
            block_body_size: 24,
            block_body_hash: h32(3),
            operational_cert_hot_vkey: by(4, 32),
            operational_cert_sequence_number: 255,
            operational_cert_kes_period: 256,
            operational_cert_sigma: by(5, 64),
            protocol_major: 6,
            protocol_minor: 0,
        })
        .collect()
}

pub fn values() -> Vec<Value> {
    let mut v: Vec<Value> = [0u64, 23, 24, 255, 256, 65536, 1 << 32, u64::MAX].into_iter().map(Value::Coin).collect();
    v.push(Value::Multiasset(0, BTreeMap::new()));
    v.push(Value::Multiasset(2_000_000, BTreeMap::from([(h28(1), BTreeMap::from([(by(1, 3), 1u64)]))])));
    v.push(Value::Multiasset(
        u64::MAX,
        BTreeMap::from([
            (h28(2), BTreeMap::from([(by(0, 0), 0u64), (by(9, 32), u64::MAX)])),
            (h28(1), BTreeMap::new()),
        ]),
    ));
    v
}

pub fn mints() -> Vec<Mint> {
    vec![
        BTreeMap::new(),
        BTreeMap::from([(h28(1), BTreeMap::from([(by(1, 3), -1i64)]))]),
        BTreeMap::from([(h28(2), BTreeMap::from([(by(0, 0), i64::MIN), (by(9, 32), i64::MAX), (by(3, 1), 0)])), (h28(1), BTreeMap::new())]),
    ]
}

pub fn outputs() -> Vec<TransactionOutput> {
    let mut v = vec![];
    for amount in [values()[0].clone(), values()[9].clone()] {
        for datum_hash in [None, Some(h32(4))] {
            v.push(TransactionOutput { address: by(0x61, 29), amount: amount.clone(), datum_hash });
        }
    }
    v
}

pub fn mirs() -> Vec<MoveInstantaneousReward> {
    let mut v = vec![];
    for source in [InstantaneousRewardSource::Reserves, InstantaneousRewardSource::Treasury] {
        v.push(MoveInstantaneousReward { source: source.clone(), target: InstantaneousRewardTarget::OtherAccountingPot(0) });
        v.push(MoveInstantaneousReward { source: source.clone(), target: InstantaneousRewardTarget::OtherAccountingPot(u64::MAX) });
        v.push(MoveInstantaneousReward { source: source.clone(), target: InstantaneousRewardTarget::StakeCredentials(BTreeMap::new()) });
        v.push(MoveInstantaneousReward {
            source,
            target: InstantaneousRewardTarget::StakeCredentials(BTreeMap::from([(creds()[0].clone(), i64::MIN), (creds()[1].clone(), i64::MAX)])),
        });
    }
    v
}

pub fn certs() -> Vec<Certificate> {
    let c = creds();
    let mut v = vec![];
    for cr in &c {
        v.push(Certificate::StakeRegistration(cr.clone()));
        v.push(Certificate::StakeDeregistration(cr.clone()));
        v.push(Certificate::StakeDelegation(cr.clone(), h28(5)));
    }
    for pm in pool_metadata() {
        for rel in [vec![], relays()] {
            for owners in [vec![], vec![h28(6), h28(7)]] {
                v.push(Certificate::PoolRegistration {
                    operator: h28(1),
                    vrf_keyhash: h32(2),
                    pledge: u64::MAX,
                    cost: 340_000_000,
                    margin: rationals()[3].clone(),
                    reward_account: by(0xe1, 29),
                    pool_owners: owners,
                    relays: rel.clone(),
                    pool_metadata: pm.clone(),
                });
            }
        }
    }
    v.push(Certificate::PoolRetirement(h28(1), 0));
    v.push(Certificate::PoolRetirement(h28(1), u64::MAX));
    v.push(Certificate::GenesisKeyDelegation(by(1, 28), by(2, 28), h32(3)));
    for m in mirs() {
        v.push(Certificate::MoveInstantaneousRewardsCert(m));
    }
    v
}

pub fn cost_model_vectors() -> Vec<Vec<i64>> {
    vec![vec![], vec![0], vec![-1, i64::MAX, i64::MIN], (0..166).map(|i| (i * 7919) % 100_000 - 900).collect()]
}

pub fn cost_models() -> Vec<CostModels> {
    let mut v = vec![BTreeMap::new()];
    for m in cost_model_vectors() {
        v.push(BTreeMap::from([(Language::PlutusV1, m)]));
    }
    v
}

const PPU_FIELDS: u32 = 24;

pub fn ppu(mask: u32) -> ProtocolParamUpdate {
    let b = |i: u32| mask & (1 << i) != 0;
    ProtocolParamUpdate {
        minfee_a: b(0).then_some(44),
        minfee_b: b(1).then_some(u32::MAX),
        max_block_body_size: b(2).then_some(65536),
        max_transaction_size: b(3).then_some(16384),
        max_block_header_size: b(4).then_some(1100),
        key_deposit: b(5).then_some(2_000_000),
        pool_deposit: b(6).then_some(u64::MAX),
        maximum_epoch: b(7).then_some(18),
        desired_number_of_stake_pools: b(8).then_some(500),
        pool_pledge_influence: b(9).then(|| rationals()[1].clone()),
        expansion_rate: b(10).then(|| rationals()[2].clone()),
        treasury_growth_rate: b(11).then(|| rationals()[0].clone()),
        decentralization_constant: b(12).then(|| rationals()[4].clone()),
        extra_entropy: b(13).then(|| nonces()[(mask as usize >> 13) % 2].clone()),
        protocol_version: b(14).then_some((7, 2)),
        min_pool_cost: b(15).then_some(340_000_000),
        ada_per_utxo_byte: b(16).then_some(4310),
        cost_models_for_script_languages: b(17).then(|| cost_models()[3].clone()),
        execution_costs: b(18).then(|| ExUnitPrices { mem_price: rationals()[1].clone(), step_price: rationals()[4].clone() }),
        max_tx_ex_units: b(19).then_some(ExUnits { mem: 14_000_000, steps: 10_000_000_000 }),
        max_block_ex_units: b(20).then_some(ExUnits { mem: u64::MAX, steps: 0 }),
        max_value_size: b(21).then_some(5000),
        collateral_percentage: b(22).then_some(150),
        max_collateral_inputs: b(23).then_some(3),
    }
}

/// all-none, every single field, every pair, all-set
pub fn field_masks(n: u32, pairs: bool) -> Vec<u32> {
    let mut v = vec![0];
    for i in 0..n {
        v.push(1 << i);
    }
    if pairs {
        for i in 0..n {
            for j in i + 1..n {
                v.push((1 << i) | (1 << j));
            }
        }
    }
    v.push(if n == 32 { u32::MAX } else { (1u32 << n) - 1 });
    v
}

/// `field_masks(n, true)` plus, in the thorough tier, every triple of fields.
pub fn sweep_masks(n: u32, thorough: bool) -> Vec<u32> {
    let mut v = field_masks(n, true);
    if thorough {
        for i in 0..n {
            for j in i + 1..n {
                for k in j + 1..n {
                    v.push((1 << i) | (1 << j) | (1 << k));
                }
            }
        }
    }
    v
}

pub fn all_masks(n: u32) -> Vec<u32> {
    // singles first so that the first witness of a defect is the smallest one
    let mut v = field_masks(n, false);
    v.extend((0..(1u32 << n)).filter(|m| m.count_ones() >= 2 && *m != (1u32 << n) - 1));
    v
}

pub fn updates() -> Vec<Update> {
    vec![
        Update { proposed_protocol_parameter_updates: BTreeMap::new(), epoch: 0 },
        Update { proposed_protocol_parameter_updates: BTreeMap::from([(by(1, 28), ppu(0)), (by(2, 28), ppu((1 << PPU_FIELDS) - 1))]), epoch: u64::MAX },
    ]
}

pub fn native_scripts() -> Vec<NativeScript> {
    let leaves = vec![NativeScript::ScriptPubkey(h28(1)), NativeScript::InvalidBefore(0), NativeScript::InvalidHereafter(u64::MAX)];
    let mut level1 = leaves.clone();
    for kids in [vec![], vec![leaves[0].clone()], leaves.clone()] {
        level1.push(NativeScript::ScriptAll(kids.clone()));
        level1.push(NativeScript::ScriptAny(kids.clone()));
        level1.push(NativeScript::ScriptNOfK(kids.len() as u32, kids.clone()));
    }
    level1.push(NativeScript::ScriptNOfK(u32::MAX, vec![]));
    let mut all = level1.clone();
    all.push(NativeScript::ScriptAll(level1.clone()));
    all.push(NativeScript::ScriptAny(vec![level1[4].clone(), level1[9].clone()]));
    all.push(NativeScript::ScriptNOfK(1, vec![level1[5].clone(), level1[11].clone()]));
    all
}

pub fn redeemers() -> Vec<Redeemer> {
    let mut v = vec![];
    for (i, tag) in [RedeemerTag::Spend, RedeemerTag::Mint, RedeemerTag::Cert, RedeemerTag::Reward].into_iter().enumerate() {
        for d in plutus_samples().into_iter().skip(i).step_by(4) {
            v.push(Redeemer { tag, index: if i % 2 == 0 { 0 } else { u32::MAX }, data: d, ex_units: ExUnits { mem: 1 << (8 * i), steps: u64::MAX >> i } });
        }
    }
    v
}

pub fn vkeys() -> Vec<VKeyWitness> {
    vec![VKeyWitness { vkey: by(1, 32), signature: by(2, 64) }, VKeyWitness { vkey: by(3, 32), signature: by(4, 64) }]
}

pub fn bootstraps() -> Vec<BootstrapWitness> {
    vec![BootstrapWitness { public_key: by(1, 32), signature: by(2, 64), chain_code: by(3, 32), attributes: by(0xa0, 1) }]
}

pub fn witness_set(mask: u32) -> WitnessSet<'static> {
    let b = |i: u32| mask & (1 << i) != 0;
    WitnessSet {
        vkeywitness: b(0).then(vkeys),
        native_script: b(1).then(|| native_scripts().into_iter().take(6).map(KeepRaw::from).collect()),
        bootstrap_witness: b(2).then(bootstraps),
        plutus_script: b(3).then(|| vec![PlutusScript::<1>(by(1, 70))]),
        plutus_data: b(4).then(|| plutus_samples().into_iter().map(KeepRaw::from).collect()),
        redeemer: b(5).then(redeemers),
    }
}

pub fn aux_datas() -> Vec<AuxiliaryData> {
    let mut v = vec![];
    for m in metadata_maps() {
        v.push(AuxiliaryData::Shelley(m.clone()));
        for s in [None, Some(vec![]), Some(native_scripts())] {
            v.push(AuxiliaryData::ShelleyMa(ShelleyMaAuxiliaryData { transaction_metadata: m.clone(), auxiliary_scripts: s }));
        }
    }
    for mask in 0..8u32 {
        v.push(AuxiliaryData::PostAlonzo(PostAlonzoAuxiliaryData {
            metadata: (mask & 1 != 0).then(|| metadata_maps()[2].clone()),
            native_scripts: (mask & 2 != 0).then(native_scripts),
            plutus_scripts: (mask & 4 != 0).then(|| vec![PlutusScript::<1>(by(1, 10)), PlutusScript::<1>(by(2, 0))]),
        }));
    }
    v
}

const BODY_NAMES: [&str; 11] =
    ["ttl", "certificates", "withdrawals", "update", "auxiliary_data_hash", "validity_interval_start", "mint", "script_data_hash", "collateral", "required_signers", "network_id"];

pub fn body(mask: u32) -> TransactionBody {
    let b = |i: u32| mask & (1 << i) != 0;
    TransactionBody {
        inputs: inputs(),
        outputs: outputs(),
        fee: 170_000,
        ttl: b(0).then_some(u64::MAX),
        certificates: b(1).then(|| certs().into_iter().step_by(3).collect()),
        withdrawals: b(2).then(|| BTreeMap::from([(by(0xe1, 29), 0u64), (by(0xe0, 29), u64::MAX)])),
        update: b(3).then(|| updates()[1].clone()),
        auxiliary_data_hash: b(4).then(|| h32(5)),
        validity_interval_start: b(5).then_some(0),
        mint: b(6).then(|| mints()[2].clone()),
        script_data_hash: b(7).then(|| h32(6)),
        collateral: b(8).then(|| inputs()[..1].to_vec()),
        required_signers: b(9).then(|| vec![h28(1), h28(2)]),
        network_id: b(10).then_some(NetworkId::Mainnet),
    }
}

pub fn mask_label(mask: u32, names: &[&str]) -> String {
    let on: Vec<&str> = names.iter().enumerate().filter(|(i, _)| mask & (1 << i) != 0).map(|(_, n)| *n).collect();
    format!("fields={}", if on.is_empty() { "none".to_string() } else { on.join("+") })
}

pub fn run(r: &mut Runner) {
    rt!(r, "alonzo::HeaderBody", HeaderBody, eq, lab(header_bodies()));
    rt!(r, "alonzo::Header", Header, eq, lab(header_bodies().into_iter().map(|header_body| Header { header_body, body_signature: by(6, 448) }).collect()));
    rt!(r, "alonzo::Value", Value, eq, lab(values()));
    rt!(r, "alonzo::Mint", Mint, eq, lab(mints()));
    rt!(r, "alonzo::TransactionOutput", TransactionOutput, eq, lab(outputs()));
    rt!(r, "alonzo::MoveInstantaneousReward", MoveInstantaneousReward, eq, lab(mirs()));
    rt!(r, "alonzo::Certificate", Certificate, eq, lab(certs()));
    rt!(r, "alonzo::CostModels", CostModels, eq, lab(cost_models()));
    rt!(
        r,
        "alonzo::ProtocolParamUpdate",
        ProtocolParamUpdate,
        eq,
        sweep_masks(PPU_FIELDS, r.ctx.thorough).into_iter().map(|m| (format!("mask={m:#x}"), ppu(m))).collect::<Vec<_>>()
    );
    rt!(r, "alonzo::Update", Update, eq, lab(updates()));
    rt!(r, "alonzo::NativeScript", NativeScript, eq, lab(native_scripts()));
    rt!(r, "alonzo::Redeemer", Redeemer, eq, lab(redeemers()));
    rt!(r, "alonzo::VKeyWitness", VKeyWitness, eq, lab(vkeys()));
    rt!(r, "alonzo::BootstrapWitness", BootstrapWitness, eq, lab(bootstraps()));
    rt!(r, "alonzo::AuxiliaryData", AuxiliaryData, eq, lab(aux_datas()));
    rt!(
        r,
        "alonzo::TransactionBody",
        TransactionBody,
        eq,
        all_masks(11).into_iter().map(|m| (mask_label(m, &BODY_NAMES), body(m))).collect::<Vec<_>>()
    );
    let wnames = ["vkeywitness", "native_script", "bootstrap_witness", "plutus_script", "plutus_data", "redeemer"];
    rt!(r, "alonzo::WitnessSet", WitnessSet<'_>, raw, all_masks(6).into_iter().map(|m| (mask_label(m, &wnames), witness_set(m))).collect::<Vec<_>>());
    let mut txs: Vec<(String, Tx<'static>)> = vec![];
    for (i, aux) in [Nullable::Null, Nullable::Undefined, Nullable::Some(KeepRaw::from(aux_datas()[5].clone()))].into_iter().enumerate() {
        for success in [true, false] {
            txs.push((
                format!("aux#{i} success={success}"),
                Tx { transaction_body: KeepRaw::from(body(0x7ff)), transaction_witness_set: KeepRaw::from(witness_set(0x3f)), success, auxiliary_data: aux.clone() },
            ));
        }
    }
    rt!(r, "alonzo::Tx", Tx<'_>, raw, txs);
    let mut blocks: Vec<(String, Block<'static>)> = vec![];
    for n in [0usize, 1, 3] {
        for invalid in [None, Some(vec![]), Some(vec![0u32, 2])] {
            blocks.push((
                format!("txs={n} invalid={invalid:?}"),
                Block {
                    header: KeepRaw::from(Header { header_body: header_bodies()[1].clone(), body_signature: by(6, 448) }),
                    transaction_bodies: (0..n).map(|i| KeepRaw::from(body(1 << i))).collect(),
                    transaction_witness_sets: (0..n).map(|i| KeepRaw::from(witness_set(1 << i))).collect(),
                    auxiliary_data_set: (0..n).step_by(2).map(|i| (i as u32, KeepRaw::from(aux_datas()[i].clone()))).collect(),
                    invalid_transactions: invalid.clone(),
                },
            ));
        }
    }
    rt!(r, "alonzo::Block", Block<'_>, raw, blocks);
}
