//! Structural (CDDL-shape) navigation of blocks and transactions on the
//! `refcbor` AST — written from the ledger CDDL, independent of pallas' typed
//! model. Gives the pre-order indices of the items whose wire bytes define an
//! identity: header, transaction bodies, witness datums, native scripts,
//! inline datums, native reference scripts.
//!
//! Shared helper.

use crate::mutate::Flat;
use mc_core::refcbor::{self, Kind, Node};

#[derive(Clone, Debug, Default)]
pub struct TxLoc {
    /// Index of the whole transaction item (`[body, wits, ..]` or, in a block,
    /// the body itself when the parts are spread over the block arrays).
    pub body: usize,
    pub witness: Option<usize>,
    pub aux: Option<usize>,
    /// Elements of witness-set key 4.
    pub datums: Vec<usize>,
    /// Elements of witness-set key 1.
    pub natives: Vec<usize>,
    /// One entry per body output (key 1, in order): the byte-string node that
    /// holds the inline datum (`[1, #6.24(bytes)]` under output key 2).
    pub inline_datums: Vec<Option<usize>>,
    /// One entry per body output: the byte-string node of output key 3
    /// (`#6.24(bytes .cbor script)`), whatever the script kind.
    pub script_refs: Vec<Option<usize>>,
}

fn locate_witness(flat: &Flat, w: usize, loc: &mut TxLoc) {
    loc.witness = Some(w);
    if let Some(d) = flat.map_get(w, 4) {
        if let Some(items) = flat.array_items(d) {
            loc.datums = items.to_vec();
        }
    }
    if let Some(d) = flat.map_get(w, 1) {
        if let Some(items) = flat.array_items(d) {
            loc.natives = items.to_vec();
        }
    }
}

fn locate_outputs(flat: &Flat, body: usize, loc: &mut TxLoc) {
    let Some(outs) = flat.map_get(body, 1) else { return };
    let Some(items) = flat.array_items(outs) else { return };
    for &o in items {
        let mut inline = None;
        let mut sref = None;
        if matches!(flat.kind(o), Kind::Map(..)) {
            if let Some(d) = flat.map_get(o, 2) {
                if let Some(parts) = flat.array_items(d) {
                    if parts.len() == 2 && flat.as_u64(parts[0]) == Some(1) {
                        if let Kind::Tag(24, _, _) = flat.kind(parts[1]) {
                            let b = flat.children[parts[1]][0];
                            if matches!(flat.kind(b), Kind::Bytes(..)) {
                                inline = Some(b);
                            }
                        }
                    }
                }
            }
            if let Some(s) = flat.map_get(o, 3) {
                if let Kind::Tag(24, _, _) = flat.kind(s) {
                    let b = flat.children[s][0];
                    if matches!(flat.kind(b), Kind::Bytes(..)) {
                        sref = Some(b);
                    }
                }
            }
        }
        loc.inline_datums.push(inline);
        loc.script_refs.push(sref);
    }
}

/// A stand-alone post-Byron transaction `[body, witness_set, (is_valid,) aux]`
/// rooted at `tx`.
pub fn locate_tx(flat: &Flat, tx: usize) -> Option<TxLoc> {
    let parts = flat.array_items(tx)?;
    if parts.len() < 2 {
        return None;
    }
    let mut loc = TxLoc { body: parts[0], ..Default::default() };
    if matches!(flat.kind(parts[0]), Kind::Map(..)) {
        locate_witness(flat, parts[1], &mut loc);
        locate_outputs(flat, parts[0], &mut loc);
        loc.aux = parts.last().copied().filter(|_| parts.len() >= 3);
    } else {
        // Byron: [tx, witnesses]
        loc.witness = Some(parts[1]);
    }
    Some(loc)
}

#[derive(Clone, Debug)]
pub struct BlockLoc {
    /// Wrapper tag: 0 EBB, 1 Byron, 2..7 Shelley..Conway.
    pub era_tag: u64,
    pub header: usize,
    pub txs: Vec<TxLoc>,
    /// Nodes of the block skeleton (wrapper, block array, the four part arrays).
    pub skeleton: Vec<usize>,
}

/// `[era, block]` rooted at 0.
pub fn locate_block(flat: &Flat) -> Option<BlockLoc> {
    let top = flat.array_items(0)?;
    if top.len() != 2 {
        return None;
    }
    let era_tag = flat.as_u64(top[0])?;
    let parts = flat.array_items(top[1])?.to_vec();
    let header = *parts.first()?;
    let mut skeleton = vec![0, top[0], top[1]];
    let mut txs = vec![];
    match era_tag {
        0 => {}
        1 => {
            // block = [header, [tx_payload, ssc, dlg, upd], extra]
            let body = flat.array_items(*parts.get(1)?)?;
            skeleton.push(parts[1]);
            let payload = *body.first()?;
            skeleton.push(payload);
            for &p in flat.array_items(payload)? {
                let pp = flat.array_items(p)?;
                txs.push(TxLoc { body: pp[0], witness: pp.get(1).copied(), ..Default::default() });
            }
        }
        _ => {
            let bodies = flat.array_items(*parts.get(1)?)?.to_vec();
            let wits = flat.array_items(*parts.get(2)?)?.to_vec();
            skeleton.extend_from_slice(&parts[1..]);
            for (i, &b) in bodies.iter().enumerate() {
                let mut loc = TxLoc { body: b, ..Default::default() };
                if let Some(&w) = wits.get(i) {
                    locate_witness(flat, w, &mut loc);
                }
                locate_outputs(flat, b, &mut loc);
                if let Some(&aux) = parts.get(3) {
                    loc.aux = flat.map_get(aux, i as u64);
                }
                txs.push(loc);
            }
        }
    }
    Some(BlockLoc { era_tag, header, txs, skeleton })
}

/// Content of a definite byte-string node.
pub fn bytes_of(n: &Node) -> Option<&[u8]> {
    match &n.kind {
        Kind::Bytes(s, _) => Some(s),
        _ => None,
    }
}

/// For a reference script `[0, native_script]` held in `content`: the span of
/// the native script inside `content`.
pub fn native_in_script_ref(content: &[u8]) -> Option<(usize, usize)> {
    let n = refcbor::parse_one(content).ok()?;
    let a = n.as_array()?;
    if a.len() == 2 && a[0].as_u64() == Some(0) {
        Some((a[1].start, a[1].end))
    } else {
        None
    }
}
