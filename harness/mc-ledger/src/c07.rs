//! C07 — PlutusData round-trips and its comparison is a total order whose
//! equality ignores definite/indefinite container encodings.
//!
//! The order laws are decided on the COMPLETE relation of the universe: the
//! N x N comparison matrix is computed once with the real `Ord::cmp`, then
//! reflexivity, antisymmetry (N^2) and transitivity + congruence (N^3) are
//! checked on the matrix.

use crate::gen_plutus::{self, PD};
use mc_core::refcbor::{self, Kind, Node};
use mc_core::{catch, cov, json, Ctx, Level, Value};
use pallas_codec::minicbor;
use pallas_primitives::PlutusData;
use rayon::prelude::*;
use std::cmp::Ordering;
use std::collections::BTreeSet;

fn ord_i8(o: Ordering) -> i8 {
    match o {
        Ordering::Less => -1,
        Ordering::Equal => 0,
        Ordering::Greater => 1,
    }
}

fn show(d: &PD) -> String {
    let s = format!("{d:?}");
    if s.len() > 300 {
        format!("{}..", &s[..300])
    } else {
        s
    }
}

fn kind_name(d: &PD) -> &'static str {
    match d {
        PD::Constr(_) => "Constr",
        PD::Map(_) => "Map",
        PD::Array(_) => "Array",
        PD::BigInt(_) => "BigInt",
        PD::BoundedBytes(_) => "BoundedBytes",
    }
}

/// Haskell rule for every byte string of an encoding: <= 64 bytes definite,
/// longer ones indefinite in 64-byte chunks (last chunk 1..=64).
fn chunking_ok(n: &Node, bad: &mut Vec<String>) {
    n.walk(&mut |x| match &x.kind {
        Kind::Bytes(s, w) => {
            if s.len() > 64 {
                bad.push(format!("definite byte string of {} bytes", s.len()));
            }
            if *w != refcbor::min_width(s.len() as u64) {
                bad.push("non-minimal byte string head".into());
            }
        }
        Kind::BytesIndef(ch) => {
            let total: usize = ch.iter().map(|c| c.0.len()).sum();
            if total <= 64 {
                bad.push(format!("indefinite byte string of {total} bytes"));
            }
            for (i, c) in ch.iter().enumerate() {
                let last = i + 1 == ch.len();
                if (!last && c.0.len() != 64) || (last && (c.0.is_empty() || c.0.len() > 64)) {
                    bad.push(format!("chunk {i} of {} has {} bytes", ch.len(), c.0.len()));
                }
            }
        }
        _ => {}
    });
}

/// Complete check of `a <= b and b <= c  =>  cmp(a, c) = min(cmp(a, b), cmp(b, c))`
/// (transitivity of <=, of <, and congruence of == in one formula) over all
/// ordered triples of the matrix. Returns the number of triples examined and
/// the first (smallest a, then b, then c) counterexample.
pub fn broken_triple(m: &[Vec<i8>]) -> (u64, Option<(usize, usize, usize)>) {
    let n = m.len();
    let le_lists: Vec<Vec<u32>> = (0..n).map(|b| (0..n as u32).filter(|c| m[b][*c as usize] <= 0).collect()).collect();
    let tri: Vec<(u64, Option<(usize, usize, usize)>)> = (0..n)
        .into_par_iter()
        .map(|a| {
            let mut checked = 0u64;
            let mut first = None;
            let ra = &m[a];
            for b in 0..n {
                let ab = ra[b];
                if ab > 0 {
                    continue;
                }
                let rb = &m[b];
                for &c in &le_lists[b] {
                    let c = c as usize;
                    checked += 1;
                    let want = ab.min(rb[c]);
                    if ra[c] != want && first.is_none() {
                        first = Some((a, b, c));
                    }
                }
            }
            (checked, first)
        })
        .collect();
    let mut triples_checked = 0u64;
    let mut worst: Option<(usize, usize, usize)> = None;
    for (c, f) in tri {
        triples_checked += c;
        if let (Some(f), None) = (f, worst) {
            worst = Some(f);
        }
    }
    (triples_checked, worst)
}

#[cfg(test)]
mod tests {
    use super::broken_triple;
    #[test]
    fn law_checker_sees_cycles_and_broken_congruence() {
        // a total order on 4 elements passes
        let ok: Vec<Vec<i8>> = (0..4).map(|a: i32| (0..4).map(|b: i32| (a - b).signum() as i8).collect()).collect();
        assert_eq!(broken_triple(&ok).1, None);
        // rock-paper-scissors: 0<1, 1<2, 2<0
        let cyc = vec![vec![0, -1, 1], vec![1, 0, -1], vec![-1, 1, 0]];
        assert!(broken_triple(&cyc).1.is_some());
        // 0 == 1, but 0 < 2 and 1 > 2
        let cong = vec![vec![0, 0, -1], vec![0, 0, 1], vec![1, -1, 0]];
        assert!(broken_triple(&cong).1.is_some());
    }
}

pub fn run(ctx: Ctx) -> ! {
    let uni: Vec<PD> = if ctx.thorough { gen_plutus::universe(4, true) } else { gen_plutus::universe(3, false) };
    let n = uni.len();
    let mut evaluations: u64 = 0;

    // ---------------------------------------------------------- round trip
    let rt: Vec<(Vec<u8>, Option<(String, String)>)> = uni
        .par_iter()
        .map(|u| {
            let r = catch(|| -> Result<Vec<u8>, (String, String)> {
                let b1 = minicbor::to_vec(u).map_err(|e| ("plutus-roundtrip:encode-error".to_string(), e.to_string()))?;
                let d: PlutusData = minicbor::decode(&b1).map_err(|e| ("plutus-roundtrip:own-encoding-rejected".to_string(), format!("{e}; encoding {}", hex::encode(&b1))))?;
                if d != *u {
                    return Err(("plutus-roundtrip:not-equal".into(), format!("decoded {} from {}", show(&d), hex::encode(&b1))));
                }
                if format!("{d:?}") != format!("{u:?}") {
                    return Err(("plutus-roundtrip:not-identical".into(), format!("decoded {} from {}", show(&d), hex::encode(&b1))));
                }
                let b2 = minicbor::to_vec(&d).map_err(|e| ("plutus-roundtrip:encode-error".to_string(), e.to_string()))?;
                if b2 != b1 {
                    return Err(("plutus-roundtrip:bytes-differ".into(), format!("{} vs {}", hex::encode(&b2), hex::encode(&b1))));
                }
                let ast = refcbor::parse_one(&b1).map_err(|e| ("plutus-encoding-malformed".to_string(), format!("{e:?}: {}", hex::encode(&b1))))?;
                let mut bad = vec![];
                chunking_ok(&ast, &mut bad);
                if !bad.is_empty() {
                    return Err(("plutus-bytes-not-chunked-as-haskell".into(), format!("{} in {}", bad.join("; "), hex::encode(&b1))));
                }
                Ok(b1)
            });
            match r {
                Err(p) => (vec![], Some((p.site(), format!("{} at {}", p.message, p.location)))),
                Ok(Err(e)) => (vec![], Some(e)),
                Ok(Ok(b)) => (b, None),
            }
        })
        .collect();
    let mut encodings: BTreeSet<Vec<u8>> = BTreeSet::new();
    let mut chunked_values = 0u64;
    for (i, (b, e)) in rt.iter().enumerate() {
        evaluations += 1;
        if let Some((fp, what)) = e {
            ctx.violation(fp.clone(), format!("{}: {what}", show(&uni[i])), json!({"value": format!("{:?}", uni[i])}));
        } else {
            if b.contains(&0x5f) && refcbor::parse_one(b).map(|n| { let mut f = false; n.walk(&mut |x| if matches!(x.kind, Kind::BytesIndef(_)) { f = true }); f }).unwrap_or(false) {
                chunked_values += 1;
            }
            encodings.insert(b.clone());
        }
    }
    if encodings.len() != n {
        // two universe members with one encoding would make the matrix rows redundant, not wrong
        ctx.note(format!("{} universe members, {} distinct encodings", n, encodings.len()));
    }

    // ---------------------------------------------------------- wire re-assembly of byte strings
    let mut reassembly = 0u64;
    for l in gen_plutus::BYTE_LENGTHS.iter().copied().chain([130usize, 200]) {
        let content: Vec<u8> = (0..l).map(|i| (i * 31 % 251) as u8).collect();
        // only encodings the Plutus CDDL allows: every definite string / chunk is at most 64 bytes
        let mut forms: Vec<Node> = vec![];
        let chunks = |sizes: &[usize]| -> Node {
            let mut at = 0;
            let mut ch = vec![];
            for s in sizes {
                let e = (at + s).min(l);
                ch.push((content[at..e].to_vec(), refcbor::min_width((e - at) as u64)));
                at = e;
            }
            while at < l {
                let e = (at + 64).min(l);
                ch.push((content[at..e].to_vec(), refcbor::min_width((e - at) as u64)));
                at = e;
            }
            Node::new(Kind::BytesIndef(ch))
        };
        if l <= 64 {
            forms.push(Node::bytes(&content));
            forms.push(Node::new(Kind::Bytes(content.clone(), 8)));
        }
        forms.push(chunks(&[]));
        forms.push(chunks(&[0, 1, 0]));
        forms.push(chunks(&vec![1; l.min(70)]));
        forms.push(chunks(&[63, 2]));
        forms.push(chunks(&[64, 0, 1, 64]));
        for f in forms {
            for wrap in 0..3 {
                let wire = match wrap {
                    0 => f.clone(),
                    1 => Node::tag(2, f.clone()),
                    _ => Node::array_indef(vec![f.clone(), Node::tag(3, f.clone())]),
                }
                .to_vec();
                let want = match wrap {
                    0 => gen_plutus::bytes(&content),
                    1 => gen_plutus::biguint(&content),
                    _ => gen_plutus::arr(true, vec![gen_plutus::bytes(&content), gen_plutus::bignint(&content)]),
                };
                evaluations += 1;
                reassembly += 1;
                match catch(|| minicbor::decode::<PlutusData>(&wire).map(|d| (format!("{d:?}") == format!("{want:?}"), minicbor::to_vec(&d).unwrap(), show(&d)))) {
                    Err(p) => ctx.violation(p.site(), format!("decode of {} panicked: {} at {}", hex::encode(&wire), p.message, p.location), json!({"bytes": hex::encode(&wire)})),
                    Ok(Err(e)) => ctx.violation("plutus-bytes-reassembly:valid-chunking-rejected", format!("{} rejected: {e}", hex::encode(&wire)), json!({"bytes": hex::encode(&wire)})),
                    Ok(Ok((same, re, got))) => {
                        if !same {
                            ctx.violation("plutus-bytes-reassembly:content-differs", format!("{} decoded as {got}", hex::encode(&wire)), json!({"bytes": hex::encode(&wire)}));
                        }
                        let canon = minicbor::to_vec(&want).unwrap();
                        if re != canon {
                            ctx.violation("plutus-bytes-reassembly:reencoding", format!("{} re-encodes as {}", hex::encode(&wire), hex::encode(&re)), json!({"bytes": hex::encode(&wire)}));
                        }
                    }
                }
            }
        }
    }

    // ---------------------------------------------------------- comparison matrix
    let rows: Vec<Result<Vec<i8>, (usize, mc_core::panics::PanicInfo)>> = (0..n)
        .into_par_iter()
        .map(|a| {
            let mut row = Vec::with_capacity(n);
            for b in 0..n {
                match catch(|| {
                    let c = uni[a].cmp(&uni[b]);
                    let pc = uni[a].partial_cmp(&uni[b]);
                    let eq = uni[a] == uni[b];
                    (c, pc, eq)
                }) {
                    Ok((c, pc, eq)) => {
                        if pc != Some(c) || eq != (c == Ordering::Equal) {
                            // encode the inconsistency in an impossible matrix value
                            row.push(2);
                        } else {
                            row.push(ord_i8(c));
                        }
                    }
                    Err(p) => return Err((b, p)),
                }
            }
            Ok(row)
        })
        .collect();
    let mut m: Vec<Vec<i8>> = Vec::with_capacity(n);
    for (a, r) in rows.into_iter().enumerate() {
        match r {
            Ok(row) => m.push(row),
            Err((b, p)) => {
                ctx.violation(p.site(), format!("cmp({}, {}) panicked: {} at {}", show(&uni[a]), show(&uni[b]), p.message, p.location), json!({"a": format!("{:?}", uni[a]), "b": format!("{:?}", uni[b])}));
                m.push(vec![0; n]);
            }
        }
    }
    evaluations += (n * n) as u64;
    let pair_json = |a: usize, b: usize| json!({"a": format!("{:?}", uni[a]), "b": format!("{:?}", uni[b]), "cmp_ab": m[a][b], "cmp_ba": m[b][a]});
    let mut strict_pairs = 0u64;
    let mut equal_offdiag = 0u64;
    for a in 0..n {
        if m[a][a] != 0 {
            ctx.violation(format!("plutus-order:not-reflexive:{}", kind_name(&uni[a])), format!("cmp(a, a) = {} for a = {}", m[a][a], show(&uni[a])), pair_json(a, a));
        }
        for b in 0..n {
            if m[a][b] == 2 {
                ctx.violation("plutus-order:eq-or-partial_cmp-disagrees-with-cmp", format!("a = {}, b = {}", show(&uni[a]), show(&uni[b])), pair_json(a, b));
            } else if m[a][b] != -m[b][a] {
                ctx.violation(
                    format!("plutus-order:not-antisymmetric:{}/{}", kind_name(&uni[a]), kind_name(&uni[b])),
                    format!("cmp(a, b) = {} but cmp(b, a) = {} for a = {}, b = {}", m[a][b], m[b][a], show(&uni[a]), show(&uni[b])),
                    pair_json(a, b),
                );
            }
            if a != b {
                if m[a][b] == 0 {
                    equal_offdiag += 1;
                } else {
                    strict_pairs += 1;
                }
            }
        }
    }

    // ---------------------------------------------------------- transitivity + congruence, all triples
    // a <= b and b <= c  =>  cmp(a, c) = min(cmp(a, b), cmp(b, c))   (0 only if both are 0)
    let (triples_checked, worst) = broken_triple(&m);
    evaluations += triples_checked;
    if let Some((a, b, c)) = worst {
        let law = if m[a][b] == 0 || m[b][c] == 0 { "congruence" } else { "transitivity" };
        ctx.violation(
            format!("plutus-order:{law}-broken:{}/{}/{}", kind_name(&uni[a]), kind_name(&uni[b]), kind_name(&uni[c])),
            format!(
                "cmp(a,b) = {}, cmp(b,c) = {} but cmp(a,c) = {} for a = {}, b = {}, c = {}",
                m[a][b], m[b][c], m[a][c], show(&uni[a]), show(&uni[b]), show(&uni[c])
            ),
            json!({"a": format!("{:?}", uni[a]), "b": format!("{:?}", uni[b]), "c": format!("{:?}", uni[c])}),
        );
    }

    // ---------------------------------------------------------- equality ignores def/indef: every toggling of every node subset
    const MAX_CONTAINERS: usize = 10;
    let tog: Vec<(u64, u64, Option<(String, String)>)> = (0..n)
        .into_par_iter()
        .map(|i| {
            let u = &uni[i];
            let k = gen_plutus::container_count(u);
            if k == 0 {
                return (0, 0, None);
            }
            let capped = k > MAX_CONTAINERS;
            let kk = k.min(MAX_CONTAINERS);
            let mut done = 0u64;
            let mut fail = None;
            for bits in 0..(1u64 << kk) {
                let v = gen_plutus::with_forms(u, bits);
                done += 1;
                let r = catch(|| -> Result<(), (String, String)> {
                    if v != *u || v.cmp(u) != Ordering::Equal || u.cmp(&v) != Ordering::Equal {
                        return Err(("plutus-eq-depends-on-container-encoding".into(), format!("{} != {}", show(&v), show(u))));
                    }
                    let b = minicbor::to_vec(&v).map_err(|e| ("plutus-roundtrip:encode-error".to_string(), e.to_string()))?;
                    let d: PlutusData = minicbor::decode(&b).map_err(|e| ("plutus-roundtrip:own-encoding-rejected".to_string(), format!("{e}: {}", hex::encode(&b))))?;
                    if d != *u || format!("{d:?}") != format!("{v:?}") {
                        return Err(("plutus-eq-depends-on-container-encoding".into(), format!("decode({}) = {} vs {}", hex::encode(&b), show(&d), show(u))));
                    }
                    // the whole matrix row is the same for every encoding of u
                    for c in 0..n {
                        if ord_i8(v.cmp(&uni[c])) != m[i][c] {
                            return Err(("plutus-order-depends-on-container-encoding".into(), format!("cmp({}, {}) != cmp({}, ..)", show(&v), show(&uni[c]), show(u))));
                        }
                    }
                    Ok(())
                });
                match r {
                    Err(p) => fail = fail.or(Some((p.site(), format!("{} at {}", p.message, p.location)))),
                    Ok(Err(e)) => fail = fail.or(Some(e)),
                    Ok(Ok(())) => {}
                }
            }
            (done, capped as u64, fail)
        })
        .collect();
    let mut togglings = 0u64;
    let mut capped = 0u64;
    for (d, c, f) in tog {
        togglings += d;
        capped += c;
        if let Some((fp, what)) = f {
            ctx.violation(fp, what, json!({}));
        }
    }
    evaluations += togglings * (n as u64 + 1);

    if n < 300 || strict_pairs == 0 || equal_offdiag == 0 || chunked_values == 0 || togglings < 1000 {
        mc_core::report::machinery_failure(&format!(
            "C07 universe degenerate: N={n}, strict pairs {strict_pairs}, equal off-diagonal pairs {equal_offdiag}, chunked values {chunked_values}, togglings {togglings}"
        ));
    }
    let samples: Vec<Value> = uni.iter().step_by((n / 10).max(1)).map(|u| json!(show(u))).collect();
    let by_kind = |k: &str| uni.iter().filter(|u| kind_name(u) == k).count();
    let cov = cov! {
        "evaluations" => evaluations,
        "distinct_nontrivial" => encodings.len(),
        "rule" => "universe = atoms (boundary ints as Int / BigUInt / BigNInt incl. leading zeros and both zeros, byte strings around the 64-byte chunk edge) closed under Array / Map / Constr (tags 121,122,127,1280,1281,1400 and 102 with constructor 0,1,7,127) in definite and indefinite form; evaluations = round trips + N^2 comparisons + all ordered triples (a<=b, b<=c) + all def/indef togglings x (N+1) comparisons; non-trivial = universe members with pairwise distinct CBOR encodings (each takes part in the complete N x N x N relation)",
        "samples" => samples,
        "universe_size" => n,
        "universe_by_kind" => json!({"Constr": by_kind("Constr"), "Map": by_kind("Map"), "Array": by_kind("Array"), "BigInt": by_kind("BigInt"), "BoundedBytes": by_kind("BoundedBytes")}),
        "pairs_compared" => n * n,
        "strictly_ordered_pairs" => strict_pairs,
        "equal_pairs_off_diagonal" => equal_offdiag,
        "triples_checked" => triples_checked,
        "def_indef_togglings" => togglings,
        "values_with_more_than_max_containers" => capped,
        "values_with_chunked_bytes" => chunked_values,
        "wire_reassembly_cases" => reassembly,
        "exhaustive" => true,
    };
    ctx.finish(
        Level::Exploration,
        cov,
        &[
            "the order laws are complete over the stated universe only; values outside it (other magnitudes, deeper nesting, wider containers) are not compared",
            "malformed in-memory Constr values (tag 102 without any_constructor, tags outside 121..127 / 1280..1400 / 102), on which constr_index() panics by design, are not PlutusData and are not in the universe",
            "round trip is judged by the library's == and by the Debug rendering (structural identity)",
        ],
    )
}
