//! C05 — ledger identity hashes are taken over the original on-wire bytes.
//!
//! Site enumeration: every tx / block / header artefact of `test_data` and
//! every single-site re-encoding of it produced by the structural mutator
//! (plus the whole-item ones). For every encoding the typed decoder accepts,
//! the identities pallas reports (tx id, block/header hash, witness datum hash,
//! native script hash, inline datum hash, native reference-script hash) must be
//! Blake2b of the byte span the item occupies in *those* bytes (own Blake2b,
//! spans from the independent writer), with the Byron `82 00|01` prefix and the
//! native-script `00` prefix.

use crate::artefacts::{self, Artefact, NameEra};
use crate::locate::{self, BlockLoc, TxLoc};
use crate::mutate::{self, Encoded, Families, Flat, Mutation};
use mc_core::blake2b::{blake2b_224, blake2b_256};
use mc_core::refcbor::{self, Node};
use mc_core::{catch, cov, json, Ctx, Level, Value};
use pallas_primitives::conway::{DatumOption, ScriptRef};
use pallas_traverse::{Era, MultiEraBlock, MultiEraHeader, MultiEraTx, OriginalHash};
use rayon::prelude::*;
use std::collections::BTreeMap;

static UNPAIRED: std::sync::atomic::AtomicU64 = std::sync::atomic::AtomicU64::new(0);

#[derive(Default, Clone, Debug)]
struct Observed {
    /// (kind, index, hash)
    ids: Vec<(&'static str, usize, Vec<u8>)>,
}

fn observe_tx(tx: &MultiEraTx, tix: usize, out: &mut Observed, counts: &mut Vec<(&'static str, usize, usize)>) {
    out.ids.push(("tx-id", tix, tx.hash().to_vec()));
    let d = tx.plutus_data();
    for x in d.iter() {
        out.ids.push(("witness-datum", tix, x.original_hash().to_vec()));
    }
    // the second entry point: looking a datum up by its identifier must find a datum with
    // that identifier (an empty id = not found)
    for x in d.iter() {
        let found = tx.find_plutus_data(&x.original_hash());
        out.ids.push(("witness-datum-lookup", tix, found.map(|f| f.original_hash().to_vec()).unwrap_or_default()));
    }
    counts.push(("witness-datum", tix, d.len()));
    let n = tx.native_scripts();
    for x in n.iter() {
        out.ids.push(("native-script", tix, x.original_hash().to_vec()));
    }
    counts.push(("native-script", tix, n.len()));
    let mut inl = 0;
    let mut nref = 0;
    for o in tx.outputs() {
        if let Some(DatumOption::Data(w)) = o.datum() {
            out.ids.push(("inline-datum", tix, w.0.original_hash().to_vec()));
            inl += 1;
        }
        if let Some(ScriptRef::NativeScript(k)) = o.script_ref() {
            out.ids.push(("native-script-ref", tix, k.original_hash().to_vec()));
            nref += 1;
        }
    }
    counts.push(("inline-datum", tix, inl));
    counts.push(("native-script-ref", tix, nref));
}

/// Content of the byte string at node `b` as it stands in the mutated bytes.
fn content_of<'a>(flat: &'a Flat, enc: &'a Encoded, m: &Mutation, b: usize) -> &'a [u8] {
    let _ = m;
    match &enc.embedded {
        Some((j, off, _)) if *j == b => &enc.bytes[*off..enc.spans[b].1],
        _ => locate::bytes_of(flat.nodes[b]).unwrap(),
    }
}

fn expect_tx(flat: &Flat, enc: &Encoded, m: &Mutation, loc: &TxLoc, tix: usize, out: &mut Observed, counts: &mut Vec<(&'static str, usize, usize)>) {
    out.ids.push(("tx-id", tix, blake2b_256(enc.span(loc.body)).to_vec()));
    for &d in &loc.datums {
        out.ids.push(("witness-datum", tix, blake2b_256(enc.span(d)).to_vec()));
    }
    for &d in &loc.datums {
        out.ids.push(("witness-datum-lookup", tix, blake2b_256(enc.span(d)).to_vec()));
    }
    counts.push(("witness-datum", tix, loc.datums.len()));
    for &n in &loc.natives {
        let mut pre = vec![0u8];
        pre.extend_from_slice(enc.span(n));
        out.ids.push(("native-script", tix, blake2b_224(&pre).to_vec()));
    }
    counts.push(("native-script", tix, loc.natives.len()));
    let mut inl = 0;
    let mut nref = 0;
    for (k, b) in loc.inline_datums.iter().enumerate() {
        if let Some(b) = b {
            out.ids.push(("inline-datum", tix, blake2b_256(content_of(flat, enc, m, *b)).to_vec()));
            inl += 1;
        }
        if let Some(s) = loc.script_refs[k] {
            let c = content_of(flat, enc, m, s);
            if let Some((a, z)) = locate::native_in_script_ref(c) {
                let mut pre = vec![0u8];
                pre.extend_from_slice(&c[a..z]);
                out.ids.push(("native-script-ref", tix, blake2b_224(&pre).to_vec()));
                nref += 1;
            }
        }
    }
    counts.push(("inline-datum", tix, inl));
    counts.push(("native-script-ref", tix, nref));
}

#[derive(Clone, Debug)]
enum Outcome {
    Rejected,
    /// identities compared
    Accepted(usize),
}

#[derive(Clone, Copy, PartialEq)]
enum Kind {
    Tx(Era),
    Block,
    Header(u8, Option<u8>),
}

struct Subject<'a> {
    name: &'a str,
    kind: Kind,
    root: &'a Node,
    flat: &'a Flat<'a>,
    tx: Option<&'a TxLoc>,
    block: Option<&'a BlockLoc>,
    original: &'a [u8],
}

fn variant_name(k: Kind, era_tag: Option<u64>) -> &'static str {
    match k {
        Kind::Tx(Era::Byron) => "byron",
        Kind::Tx(Era::Babbage) => "babbage",
        Kind::Tx(Era::Conway) => "conway",
        Kind::Tx(_) => "alonzo-compatible",
        Kind::Header(0, Some(0)) => "ebb",
        Kind::Header(0, _) => "byron",
        Kind::Header(1..=4, _) => "alonzo-compatible",
        Kind::Header(..) => "babbage-compatible",
        Kind::Block => match era_tag {
            Some(0) => "ebb",
            Some(1) => "byron",
            Some(2..=5) => "alonzo-compatible",
            Some(6) => "babbage",
            _ => "conway",
        },
    }
}

fn header_expected(tag: u64, span: &[u8]) -> Vec<u8> {
    match tag {
        0 | 1 => {
            let mut pre = vec![0x82, tag as u8];
            pre.extend_from_slice(span);
            blake2b_256(&pre).to_vec()
        }
        _ => blake2b_256(span).to_vec(),
    }
}

/// Decode `enc.bytes` with pallas, compare every identity. Violations are
/// recorded on `ctx`.
fn check_case(ctx: &Ctx, s: &Subject, m: &Mutation, enc: &Encoded) -> Outcome {
    let bytes = &enc.bytes;
    let mut want = Observed::default();
    let mut want_counts = vec![];
    let mut got = Observed::default();
    let mut got_counts = vec![];
    let era_tag = s.block.map(|b| b.era_tag);
    let replay = |extra: Value| {
        json!({"artefact": s.name, "mutation": format!("{m:?}"), "bytes": hex::encode(bytes), "detail": extra})
    };
    match s.kind {
        Kind::Tx(era) => {
            let loc = s.tx.unwrap();
            let r = catch(|| {
                MultiEraTx::decode_for_era(era, bytes).map(|tx| {
                    let mut o = Observed::default();
                    let mut c = vec![];
                    observe_tx(&tx, 0, &mut o, &mut c);
                    (o, c)
                })
            });
            match r {
                Err(p) => {
                    ctx.violation(p.site(), format!("tx decode/hash panicked: {} at {}", p.message, p.location), replay(json!(null)));
                    return Outcome::Rejected;
                }
                Ok(Err(_)) => return Outcome::Rejected,
                Ok(Ok((o, c))) => {
                    got = o;
                    got_counts = c;
                }
            }
            expect_tx(s.flat, enc, m, loc, 0, &mut want, &mut want_counts);
        }
        Kind::Block => {
            let loc = s.block.unwrap();
            let r = catch(|| {
                MultiEraBlock::decode(bytes).map(|b| {
                    let mut o = Observed::default();
                    let mut c = vec![];
                    o.ids.push(("block-hash", 0, b.hash().to_vec()));
                    o.ids.push(("header-hash", 0, b.header().hash().to_vec()));
                    let txs = b.txs();
                    c.push(("txs", 0, txs.len()));
                    for (i, tx) in txs.iter().enumerate() {
                        observe_tx(tx, i, &mut o, &mut c);
                    }
                    (o, c)
                })
            });
            match r {
                Err(p) => {
                    ctx.violation(p.site(), format!("block decode/hash panicked: {} at {}", p.message, p.location), replay(json!(null)));
                    return Outcome::Rejected;
                }
                Ok(Err(_)) => return Outcome::Rejected,
                Ok(Ok((o, c))) => {
                    got = o;
                    got_counts = c;
                }
            }
            let h = header_expected(loc.era_tag, enc.span(loc.header));
            want.ids.push(("block-hash", 0, h.clone()));
            want.ids.push(("header-hash", 0, h));
            want_counts.push(("txs", 0, loc.txs.len()));
            for (i, t) in loc.txs.iter().enumerate() {
                if loc.era_tag == 1 {
                    want.ids.push(("tx-id", i, blake2b_256(enc.span(t.body)).to_vec()));
                    for k in ["witness-datum", "native-script", "inline-datum", "native-script-ref"] {
                        want_counts.push((k, i, 0));
                    }
                } else {
                    expect_tx(s.flat, enc, m, t, i, &mut want, &mut want_counts);
                }
            }
        }
        Kind::Header(tag, subtag) => {
            let r = catch(|| MultiEraHeader::decode(tag, subtag, bytes).map(|h| h.hash().to_vec()));
            match r {
                Err(p) => {
                    ctx.violation(p.site(), format!("header decode/hash panicked: {} at {}", p.message, p.location), replay(json!(null)));
                    return Outcome::Rejected;
                }
                Ok(Err(_)) => return Outcome::Rejected,
                Ok(Ok(h)) => got.ids.push(("header-hash", 0, h)),
            }
            let wrapper_tag = match (tag, subtag) {
                (0, Some(0)) => 0,
                (0, _) => 1,
                _ => 2,
            };
            want.ids.push(("header-hash", 0, header_expected(wrapper_tag, enc.span(0))));
        }
    }
    let variant = variant_name(s.kind, era_tag);
    if got_counts != want_counts {
        // The typed decoder sees a different number of datums / scripts / txs
        // than the CDDL shape holds: the pairing the oracle relies on is gone.
        // Not a statement about hashing; recorded separately.
        let _ = variant;
        UNPAIRED.fetch_add(1, std::sync::atomic::Ordering::Relaxed);
        ctx.note(format!("{} under {:?}: pallas exposes {:?}, the wire holds {:?}", s.name, m, got_counts, want_counts));
        return Outcome::Accepted(0);
    }
    let mut compared = 0;
    for (g, w) in got.ids.iter().zip(want.ids.iter()) {
        compared += 1;
        if g != w {
            let ident = bytes != s.original;
            ctx.violation(
                format!("id-not-blake2b-of-wire-bytes:{}:{variant}", w.0),
                format!(
                    "{} under {:?}: {} #{} reported {} but Blake2b over the wire bytes is {} ({})",
                    s.name,
                    m,
                    w.0,
                    w.1,
                    hex::encode(&g.2),
                    hex::encode(&w.2),
                    if ident { "re-encoded artefact" } else { "artefact as shipped" }
                ),
                replay(json!({"identity": w.0, "tx_index": w.1, "reported": hex::encode(&g.2), "expected": hex::encode(&w.2)})),
            );
        }
    }
    let _ = s.root;
    Outcome::Accepted(compared)
}

fn pallas_era(e: NameEra) -> Era {
    match e {
        NameEra::Byron => Era::Byron,
        NameEra::Shelley => Era::Shelley,
        NameEra::Allegra => Era::Allegra,
        NameEra::Mary => Era::Mary,
        NameEra::Alonzo => Era::Alonzo,
        NameEra::Babbage => Era::Babbage,
        NameEra::Conway => Era::Conway,
    }
}

/// Era under which a `.tx` artefact decodes: the one its name announces, else
/// the first (newest first) that accepts the shipped bytes.
fn tx_era(a: &Artefact) -> Option<Era> {
    let mut cands = vec![];
    if let Some(e) = artefacts::era_of_name(&a.name) {
        cands.push(pallas_era(e));
    }
    cands.extend([Era::Conway, Era::Babbage, Era::Alonzo, Era::Byron]);
    cands.into_iter().find(|e| matches!(catch(|| MultiEraTx::decode_for_era(*e, &a.bytes).is_ok()), Ok(true)))
}

#[derive(Default)]
struct Stats {
    evaluations: u64,
    accepted_reencoded: u64,
    rejected: u64,
    identities_compared: u64,
    self_checked: u64,
    by_class: BTreeMap<&'static str, [u64; 2]>,
    by_artefact: BTreeMap<String, [u64; 3]>,
    samples: BTreeMap<&'static str, Value>,
}

/// Thorough tier: every single-site mutation again, on top of each whole-item
/// form that the decoder accepts for this artefact (all containers indefinite;
/// all integers with 8-byte heads).
fn composed(ctx: &Ctx, s: &Subject, singles: &[Mutation]) -> Vec<Mutation> {
    let mut out = vec![];
    for base in [Mutation::AllIndef, Mutation::WidenAllInts(8)] {
        let enc = mutate::encode(s.root, &base);
        if let Outcome::Accepted(_) = check_case(ctx, s, &base, &enc) {
            for m in singles {
                if m.site().is_some() {
                    out.push(Mutation::Compose(vec![base.clone(), m.clone()]));
                }
            }
        }
    }
    out
}

fn run_subject(ctx: &Ctx, s: &Subject, muts: &[Mutation], check_every: usize, stats: &mut Stats) {
    let norm = mutate::normalize(s.root);
    // (class, outcome, differs, sample)
    let results: Vec<(&'static str, Outcome, bool, Option<Value>)> = muts
        .par_iter()
        .enumerate()
        .map(|(k, m)| {
            let enc = mutate::encode(s.root, m);
            let differs = enc.bytes != s.original;
            if k % check_every == 0 || m.site().is_none() {
                if let Err(e) = mutate::self_check_norm(&norm, m, &enc) {
                    mc_core::report::machinery_failure(&format!("mutator self-check failed on {} under {m:?}: {e}", s.name));
                }
            }
            let o = check_case(ctx, s, m, &enc);
            let sample = match (&o, differs) {
                (Outcome::Accepted(n), true) if *n > 0 && enc.bytes.len() <= 400 => Some(json!({
                    "artefact": s.name, "mutation": format!("{m:?}"), "identities_compared": n,
                    "bytes": hex::encode(&enc.bytes)
                })),
                _ => None,
            };
            (m.class(), o, differs, sample)
        })
        .collect();
    for (k, (class, o, differs, sample)) in results.into_iter().enumerate() {
        stats.evaluations += 1;
        if k % check_every == 0 {
            stats.self_checked += 1;
        }
        let e = stats.by_class.entry(class).or_default();
        let a = stats.by_artefact.entry(s.name.to_string()).or_default();
        a[0] += 1;
        match o {
            Outcome::Rejected => {
                stats.rejected += 1;
                e[1] += 1;
                a[2] += 1;
            }
            Outcome::Accepted(n) => {
                stats.identities_compared += n as u64;
                if differs && n > 0 {
                    stats.accepted_reencoded += 1;
                    e[0] += 1;
                    a[1] += 1;
                }
                if let Some(sv) = sample {
                    stats.samples.entry(class).or_insert(sv);
                }
            }
        }
    }
}

pub fn run(ctx: Ctx) -> ! {
    let txs = artefacts::load_hex("tx");
    let blocks = artefacts::load_hex("block");
    let headers = artefacts::load_hex("header");
    let chunk_blocks = artefacts::chunk_blocks();
    let mut stats = Stats::default();
    let mut skipped: Vec<String> = vec![];
    let mut originals = 0u64;

    // ---- transactions: every site
    for a in &txs {
        let Some(era) = tx_era(a) else {
            skipped.push(format!("{} (no era decodes it without the `relaxed` feature)", a.name));
            continue;
        };
        let root = refcbor::parse_one(&a.bytes).unwrap_or_else(|e| mc_core::report::machinery_failure(&format!("{}: {e:?}", a.name)));
        let flat = Flat::new(&root);
        let Some(loc) = locate::locate_tx(&flat, 0) else {
            mc_core::report::machinery_failure(&format!("{}: not a transaction shape", a.name))
        };
        let mut muts = vec![Mutation::Identity];
        muts.extend(mutate::enumerate(&flat, &|_| true, Families::ALL, true));
        let s = Subject { name: &a.name, kind: Kind::Tx(era), root: &root, flat: &flat, tx: Some(&loc), block: None, original: &a.bytes };
        if ctx.thorough {
            let extra = composed(&ctx, &s, &muts);
            muts.extend(extra);
        }
        run_subject(&ctx, &s, &muts, 1, &mut stats);
        originals += 1;
        // era-sniffing entry point on the shipped bytes
        if let Ok(Ok(h)) = catch(|| MultiEraTx::decode(&a.bytes).map(|t| t.hash().to_vec())) {
            stats.evaluations += 1;
            stats.identities_compared += 1;
            if h != blake2b_256(root.as_array().unwrap()[0].span(&a.bytes)).to_vec() {
                ctx.violation("id-not-blake2b-of-wire-bytes:tx-id:sniffed", format!("{}: MultiEraTx::decode(..).hash() = {}", a.name, hex::encode(&h)), json!({"artefact": a.name}));
            }
        }
    }

    // ---- blocks: skeleton + header + first three txs (quick) / every site (thorough)
    let mut header_subjects: Vec<(String, u8, Option<u8>, Vec<u8>)> = vec![];
    for a in &blocks {
        if !matches!(catch(|| MultiEraBlock::decode(&a.bytes).is_ok()), Ok(true)) {
            skipped.push(format!("{} (MultiEraBlock::decode rejects the shipped bytes; needs the `relaxed` feature)", a.name));
            continue;
        }
        let root = refcbor::parse_one(&a.bytes).unwrap_or_else(|e| mc_core::report::machinery_failure(&format!("{}: {e:?}", a.name)));
        let flat = Flat::new(&root);
        let Some(loc) = locate::locate_block(&flat) else {
            mc_core::report::machinery_failure(&format!("{}: not a block shape", a.name))
        };
        let mut near = vec![false; flat.len()];
        for &i in &loc.skeleton {
            near[i] = true;
        }
        for i in loc.header..flat.end[loc.header] {
            near[i] = true;
        }
        for t in loc.txs.iter().take(3) {
            for r in [Some(t.body), t.witness, t.aux].into_iter().flatten() {
                for i in r..flat.end[r] {
                    near[i] = true;
                }
            }
        }
        let mut muts = vec![Mutation::Identity];
        muts.extend(mutate::enumerate(&flat, &|i| ctx.thorough || near[i], Families::ALL, true));
        let s = Subject { name: &a.name, kind: Kind::Block, root: &root, flat: &flat, tx: None, block: Some(&loc), original: &a.bytes };
        if ctx.thorough {
            let near_singles = mutate::enumerate(&flat, &|i| near[i], Families::ALL, false);
            let extra = composed(&ctx, &s, &near_singles);
            muts.extend(extra);
        }
        run_subject(&ctx, &s, &muts, if ctx.thorough { 64 } else { 16 }, &mut stats);
        originals += 1;
        let (tag, sub) = match loc.era_tag {
            0 => (0u8, Some(0u8)),
            1 => (0, Some(1)),
            t => ((t - 1) as u8, None),
        };
        header_subjects.push((format!("{}:header", a.name), tag, sub, flat.nodes[loc.header].span(&a.bytes).to_vec()));
    }

    // ---- headers: the .header files and the header of every block, every site
    for a in &headers {
        let (tag, sub) = match artefacts::era_of_name(&a.name) {
            Some(NameEra::Byron) => (0u8, Some(1u8)),
            Some(NameEra::Babbage) | Some(NameEra::Conway) => (5, None),
            _ => (4, None),
        };
        header_subjects.push((a.name.clone(), tag, sub, a.bytes.clone()));
    }
    for (name, tag, sub, bytes) in &header_subjects {
        if !matches!(catch(|| MultiEraHeader::decode(*tag, *sub, bytes).is_ok()), Ok(true)) {
            skipped.push(format!("{name} (MultiEraHeader::decode rejects the shipped bytes)"));
            continue;
        }
        let root = refcbor::parse_one(bytes).unwrap_or_else(|e| mc_core::report::machinery_failure(&format!("{name}: {e:?}")));
        let flat = Flat::new(&root);
        let mut muts = vec![Mutation::Identity];
        muts.extend(mutate::enumerate(&flat, &|_| true, Families::ALL, true));
        let s = Subject { name, kind: Kind::Header(*tag, *sub), root: &root, flat: &flat, tx: None, block: None, original: bytes };
        if ctx.thorough {
            let extra = composed(&ctx, &s, &muts);
            muts.extend(extra);
        }
        run_subject(&ctx, &s, &muts, 1, &mut stats);
        originals += 1;
    }

    // ---- immutable-DB chunk blocks: as shipped only
    let chunk_results: Vec<(bool, usize)> = chunk_blocks
        .par_iter()
        .map(|a| {
            let root = match refcbor::parse_one(&a.bytes) {
                Ok(r) => r,
                Err(e) => mc_core::report::machinery_failure(&format!("{}: {e:?}", a.name)),
            };
            let flat = Flat::new(&root);
            let Some(loc) = locate::locate_block(&flat) else {
                mc_core::report::machinery_failure(&format!("{}: not a block shape", a.name))
            };
            let enc = Encoded { bytes: a.bytes.clone(), spans: flat.nodes.iter().map(|n| (n.start, n.end)).collect(), embedded: None };
            let s = Subject { name: &a.name, kind: Kind::Block, root: &root, flat: &flat, tx: None, block: Some(&loc), original: &a.bytes };
            match check_case(&ctx, &s, &Mutation::Identity, &enc) {
                Outcome::Accepted(n) => (true, n),
                Outcome::Rejected => (false, 0),
            }
        })
        .collect();
    let mut chunk_ok = 0u64;
    for (i, (ok, n)) in chunk_results.iter().enumerate() {
        stats.evaluations += 1;
        if *ok {
            chunk_ok += 1;
            stats.identities_compared += *n as u64;
        } else {
            skipped.push(format!("{} (rejected by MultiEraBlock::decode)", chunk_blocks[i].name));
        }
    }

    let unpaired = UNPAIRED.load(std::sync::atomic::Ordering::Relaxed);
    if unpaired > 0 {
        mc_core::report::machinery_failure(&format!(
            "C05: on {unpaired} accepted encodings pallas exposes a different number of txs/datums/scripts than the CDDL shape holds; identities cannot be paired (see notes)"
        ));
    }
    if stats.accepted_reencoded < 100 || originals < 50 {
        mc_core::report::machinery_failure(&format!(
            "C05 reached too little: {} accepted re-encodings, {} artefacts",
            stats.accepted_reencoded, originals
        ));
    }
    for c in ["toggle-indef", "widen-int", "map-reverse", "strip-258", "rechunk-string"] {
        if stats.by_class.get(c).map(|x| x[0]).unwrap_or(0) == 0 {
            mc_core::report::machinery_failure(&format!("C05: no accepted re-encoding of class {c}; the oracle was never exercised on it"));
        }
    }
    let by_class: BTreeMap<String, Value> = stats.by_class.iter().map(|(k, v)| (k.to_string(), json!({"accepted_and_compared": v[0], "rejected_by_decoder": v[1]}))).collect();
    let smallest: Vec<Value> = stats.by_artefact.iter().take(6).map(|(k, v)| json!({"artefact": k, "encodings": v[0], "accepted_reencodings": v[1], "rejected": v[2]})).collect();
    let cov = cov! {
        "evaluations" => stats.evaluations,
        "distinct_nontrivial" => stats.accepted_reencoded,
        "rule" => "evaluation = one encoding (artefact as shipped, or one mutation of its refcbor AST) decoded by MultiEraTx::decode_for_era / MultiEraBlock::decode / MultiEraHeader::decode; non-trivial = the bytes differ from the shipped artefact, pallas accepted them, and at least one identity was compared with Blake2b over its span in those bytes (each (artefact, mutation) pair is distinct by construction)",
        "samples" => stats.samples.values().cloned().collect::<Vec<_>>(),
        "artefacts" => json!({"tx": txs.len(), "block": blocks.len(), "header_files": headers.len(), "headers_cut_from_blocks": header_subjects.len() - headers.len(), "chunk_blocks_as_shipped": chunk_blocks.len(), "chunk_blocks_accepted": chunk_ok}),
        "artefacts_mutated" => originals,
        "identities_compared" => stats.identities_compared,
        "rejected_by_typed_decoder" => stats.rejected,
        "mutants_self_checked_with_independent_parser" => stats.self_checked,
        "by_mutation_class" => by_class,
        "per_artefact_first" => smallest,
        "skipped" => skipped,
        "block_scope" => if ctx.thorough { "every node of every block; plus, on top of the all-indefinite and the all-8-byte-integer forms, every site of the skeleton, header and first three transactions" } else { "block skeleton, header, and the first three transactions of every block" },
        "exhaustive" => true,
    };
    ctx.finish(
        Level::Exploration,
        cov,
        &[
            "re-encodings are the finite single-site set of the mutator plus whole-item ones (thorough: also each single site on top of two whole-item forms); other combinations of two or more sites are not enumerated",
            "spans of the mutated encodings come from the harness' own writer, cross-checked against the independent strict parser on the self-checked subset",
            "re-encodings rejected by the typed decoder are counted and skipped (rejecting is allowed)",
        ],
    )
}
