//! C06(ii) — era-independent types of pallas-primitives.

use crate::gen_ledger::*;
use crate::rt;
use pallas_primitives::*;

pub fn run(r: &mut Runner) {
    rt!(r, "Metadatum", Metadatum, eq, lab(metadata_values(if r.ctx.thorough { 5 } else { 3 })));
    rt!(r, "Metadata", Metadata, eq, lab(metadata_maps()));
    rt!(r, "Relay", Relay, eq, lab(relays()));
    rt!(r, "RationalNumber", RationalNumber, eq, lab(rationals()));
    rt!(r, "Nonce", Nonce, eq, lab(nonces()));
    rt!(r, "ExUnits", ExUnits, eq, lab(vec![ExUnits { mem: 0, steps: 0 }, ExUnits { mem: u64::MAX, steps: 1 }, ExUnits { mem: 24, steps: 1 << 32 }]));
    rt!(
        r,
        "ExUnitPrices",
        ExUnitPrices,
        eq,
        lab(rationals().into_iter().map(|x| ExUnitPrices { mem_price: x.clone(), step_price: rationals()[1].clone() }).collect())
    );
    rt!(r, "StakeCredential", StakeCredential, eq, lab(creds()));
    rt!(r, "TransactionInput", TransactionInput, eq, lab(inputs()));
    rt!(r, "NetworkId", NetworkId, eq, lab(vec![NetworkId::Testnet, NetworkId::Mainnet]));
    rt!(r, "PoolMetadata", PoolMetadata, eq, lab(pool_metadata().into_iter().flatten().collect()));
    rt!(r, "VrfCert", VrfCert, eq, lab(vec![vrf_cert(), VrfCert(by(0, 0), by(0, 0))]));
    rt!(r, "PlutusScript<1>", PlutusScript<1>, eq, lab(vec![PlutusScript::<1>(by(1, 0)), PlutusScript::<1>(by(1, 70))]));
    rt!(r, "PlutusScript<3>", PlutusScript<3>, eq, lab(vec![PlutusScript::<3>(by(1, 300))]));
    rt!(r, "BigInt", BigInt, eq, lab(big_ints()));
    rt!(r, "PlutusData", PlutusData, eq, lab(plutus_samples()));
}
