//! C06(ii) — Babbage types (`pallas_primitives::babbage`).

use crate::gen_alonzo as al;
use crate::gen_ledger::*;
use crate::rt;
use pallas_codec::utils::{CborWrap, KeepRaw, Nullable};
use pallas_primitives::babbage::*;
use std::collections::BTreeMap;

pub fn header_bodies() -> Vec<HeaderBody> {
    [None, Some(h32(8))]
        .into_iter()
        .map(|prev_hash| HeaderBody {
            block_number: if prev_hash.is_some() { u64::MAX } else { 0 },
            slot: 72316896,
            prev_hash,
            issuer_vkey: by(1, 32),
            vrf_vkey: by(2, 32),
            vrf_result: vrf_cert(),
            block_body_size: 65536,
            block_body_hash: h32(3),
            operational_cert: OperationalCert {
                operational_cert_hot_vkey: by(4, 32),
                operational_cert_sequence_number: 23,
                operational_cert_kes_period: 1 << 32,
                operational_cert_sigma: by(5, 64),
            },
            protocol_version: (8, 0),
        })
        .collect()
}

pub fn cost_models() -> Vec<CostModels> {
    let vs = al::cost_model_vectors();
    let mut v = vec![];
    for a in [None, Some(vs[2].clone()), Some(vs[3].clone())] {
        for b in [None, Some(vs[0].clone()), Some(vs[2].clone())] {
            v.push(CostModels { plutus_v1: a.clone(), plutus_v2: b });
        }
    }
    v
}

const PPU_FIELDS: u32 = 22;

pub fn ppu(mask: u32) -> ProtocolParamUpdate {
    let b = |i: u32| mask & (1 << i) != 0;
    ProtocolParamUpdate {
        minfee_a: b(0).then_some(44),
        minfee_b: b(1).then_some(u32::MAX),
        max_block_body_size: b(2).then_some(90112),
        max_transaction_size: b(3).then_some(16384),
        max_block_header_size: b(4).then_some(1100),
        key_deposit: b(5).then_some(2_000_000),
        pool_deposit: b(6).then_some(u64::MAX),
        maximum_epoch: b(7).then_some(18),
        desired_number_of_stake_pools: b(8).then_some(500),
        pool_pledge_influence: b(9).then(|| rationals()[1].clone()),
        expansion_rate: b(10).then(|| rationals()[2].clone()),
        treasury_growth_rate: b(11).then(|| rationals()[0].clone()),
        protocol_version: b(12).then_some((u64::MAX, 0)),
        min_pool_cost: b(13).then_some(340_000_000),
        ada_per_utxo_byte: b(14).then_some(4310),
        cost_models_for_script_languages: b(15).then(|| cost_models()[5].clone()),
        execution_costs: b(16).then(|| ExUnitPrices { mem_price: rationals()[1].clone(), step_price: rationals()[4].clone() }),
        max_tx_ex_units: b(17).then_some(ExUnits { mem: 14_000_000, steps: 10_000_000_000 }),
        max_block_ex_units: b(18).then_some(ExUnits { mem: u64::MAX, steps: 0 }),
        max_value_size: b(19).then_some(5000),
        collateral_percentage: b(20).then_some(150),
        max_collateral_inputs: b(21).then_some(3),
    }
}

pub fn updates() -> Vec<Update> {
    vec![
        Update { proposed_protocol_parameter_updates: BTreeMap::new(), epoch: 0 },
        Update { proposed_protocol_parameter_updates: BTreeMap::from([(by(1, 28), ppu(0)), (by(2, 28), ppu((1 << PPU_FIELDS) - 1))]), epoch: u64::MAX },
    ]
}

pub fn datum_options() -> Vec<DatumOption<'static>> {
    let mut v = vec![DatumOption::Hash(h32(7))];
    for d in plutus_samples() {
        v.push(DatumOption::Data(CborWrap(KeepRaw::from(d))));
    }
    v
}

pub fn script_refs() -> Vec<ScriptRef<'static>> {
    let mut v: Vec<ScriptRef<'static>> = al::native_scripts().into_iter().step_by(5).map(|n| ScriptRef::NativeScript(KeepRaw::from(n))).collect();
    v.push(ScriptRef::PlutusV1Script(PlutusScript::<1>(by(1, 70))));
    v.push(ScriptRef::PlutusV2Script(PlutusScript::<2>(by(2, 0))));
    v
}

pub fn outputs() -> Vec<TransactionOutput<'static>> {
    let mut v: Vec<TransactionOutput<'static>> = al::outputs().into_iter().map(|o| TransactionOutput::Legacy(KeepRaw::from(o))).collect();
    let d = datum_options();
    let s = script_refs();
    let datum_choices = [None, Some(d[0].clone()), Some(d[1].clone()), Some(d[d.len() - 1].clone())];
    let mut script_choices: Vec<Option<ScriptRef<'static>>> = vec![None];
    script_choices.extend(s.into_iter().map(Some));
    for (i, dc) in datum_choices.iter().enumerate() {
        for sc in &script_choices {
            v.push(TransactionOutput::PostAlonzo(KeepRaw::from(PostAlonzoTransactionOutput {
                address: by(0x71, 29),
                value: al::values()[(i * 3) % al::values().len()].clone(),
                datum_option: dc.clone().map(KeepRaw::from),
                script_ref: sc.clone().map(CborWrap),
            })));
        }
    }
    v
}

const BODY_NAMES: [&str; 14] = [
    "ttl",
    "certificates",
    "withdrawals",
    "update",
    "auxiliary_data_hash",
    "validity_interval_start",
    "mint",
    "script_data_hash",
    "collateral",
    "required_signers",
    "network_id",
    "collateral_return",
    "total_collateral",
    "reference_inputs",
];

pub fn body(mask: u32) -> TransactionBody<'static> {
    let b = |i: u32| mask & (1 << i) != 0;
    let outs = outputs();
    TransactionBody {
        inputs: inputs(),
        outputs: vec![KeepRaw::from(outs[0].clone()), KeepRaw::from(outs[outs.len() - 1].clone()), KeepRaw::from(outs[7].clone())],
        fee: 170_000,
        ttl: b(0).then_some(u64::MAX),
        certificates: b(1).then(|| al::certs().into_iter().step_by(3).collect()),
        withdrawals: b(2).then(|| BTreeMap::from([(by(0xe1, 29), 0u64), (by(0xe0, 29), u64::MAX)])),
        update: b(3).then(|| updates()[1].clone()),
        auxiliary_data_hash: b(4).then(|| by(5, 32)),
        validity_interval_start: b(5).then_some(0),
        mint: b(6).then(|| al::mints()[2].clone()),
        script_data_hash: b(7).then(|| h32(6)),
        collateral: b(8).then(|| inputs()[..1].to_vec()),
        required_signers: b(9).then(|| vec![h28(1), h28(2)]),
        network_id: b(10).then_some(NetworkId::Testnet),
        collateral_return: b(11).then(|| KeepRaw::from(outs[5].clone())),
        total_collateral: b(12).then_some(5_000_000),
        reference_inputs: b(13).then(|| inputs()[1..].to_vec()),
    }
}

/// `full` with the optional fields not selected by `mask` cleared.
pub fn body_from(full: &TransactionBody<'static>, mask: u32) -> TransactionBody<'static> {
    let b = |i: u32| mask & (1 << i) != 0;
    let mut t = full.clone();
    macro_rules! clear {
        ($i:expr, $f:ident) => {
            if !b($i) {
                t.$f = None;
            }
        };
    }
    clear!(0, ttl);
    clear!(1, certificates);
    clear!(2, withdrawals);
    clear!(3, update);
    clear!(4, auxiliary_data_hash);
    clear!(5, validity_interval_start);
    clear!(6, mint);
    clear!(7, script_data_hash);
    clear!(8, collateral);
    clear!(9, required_signers);
    clear!(10, network_id);
    clear!(11, collateral_return);
    clear!(12, total_collateral);
    clear!(13, reference_inputs);
    t
}

pub fn witness_set(mask: u32) -> WitnessSet<'static> {
    let b = |i: u32| mask & (1 << i) != 0;
    WitnessSet {
        vkeywitness: b(0).then(al::vkeys),
        native_script: b(1).then(|| al::native_scripts().into_iter().take(6).map(KeepRaw::from).collect()),
        bootstrap_witness: b(2).then(al::bootstraps),
        plutus_v1_script: b(3).then(|| vec![PlutusScript::<1>(by(1, 70))]),
        plutus_data: b(4).then(|| plutus_samples().into_iter().map(KeepRaw::from).collect()),
        redeemer: b(5).then(al::redeemers),
        plutus_v2_script: b(6).then(|| vec![PlutusScript::<2>(by(2, 1)), PlutusScript::<2>(by(3, 0))]),
    }
}

pub fn run(r: &mut Runner) {
    rt!(r, "babbage::HeaderBody", HeaderBody, eq, lab(header_bodies()));
    rt!(r, "babbage::Header", Header, eq, lab(header_bodies().into_iter().map(|header_body| Header { header_body, body_signature: by(6, 448) }).collect()));
    rt!(r, "babbage::CostModels", CostModels, eq, lab(cost_models()));
    rt!(
        r,
        "babbage::ProtocolParamUpdate",
        ProtocolParamUpdate,
        eq,
        al::sweep_masks(PPU_FIELDS, r.ctx.thorough).into_iter().map(|m| (format!("mask={m:#x}"), ppu(m))).collect::<Vec<_>>()
    );
    rt!(r, "babbage::Update", Update, eq, lab(updates()));
    rt!(r, "babbage::DatumOption", DatumOption<'_>, raw, lab(datum_options()));
    rt!(r, "babbage::ScriptRef", ScriptRef<'_>, raw, lab(script_refs()));
    rt!(r, "babbage::TransactionOutput", TransactionOutput<'_>, raw, lab(outputs()));
    let mut aux = vec![];
    for mask in 0..16u32 {
        aux.push((
            format!("mask={mask:#x}"),
            PostAlonzoAuxiliaryData {
                metadata: (mask & 1 != 0).then(|| metadata_maps()[2].clone()),
                native_scripts: (mask & 2 != 0).then(al::native_scripts),
                plutus_v1_scripts: (mask & 4 != 0).then(|| vec![PlutusScript::<1>(by(1, 10))]),
                plutus_v2_scripts: (mask & 8 != 0).then(|| vec![PlutusScript::<2>(by(2, 65))]),
            },
        ));
    }
    rt!(r, "babbage::PostAlonzoAuxiliaryData", PostAlonzoAuxiliaryData, eq, aux);
    rt!(
        r,
        "babbage::TransactionBody",
        TransactionBody<'_>,
        raw,
        {
            use rayon::prelude::*;
            let full = body(0x3fff);
            al::all_masks(14).into_par_iter().map(move |m| (al::mask_label(m, &BODY_NAMES), body_from(&full, m)))
        }
    );
    let wnames = ["vkeywitness", "native_script", "bootstrap_witness", "plutus_v1_script", "plutus_data", "redeemer", "plutus_v2_script"];
    rt!(r, "babbage::WitnessSet", WitnessSet<'_>, raw, al::all_masks(7).into_iter().map(|m| (al::mask_label(m, &wnames), witness_set(m))).collect::<Vec<_>>());
    let mut txs: Vec<(String, Tx<'static>)> = vec![];
    for (i, aux) in [Nullable::Null, Nullable::Undefined, Nullable::Some(KeepRaw::from(al::aux_datas()[14].clone()))].into_iter().enumerate() {
        for success in [true, false] {
            txs.push((
                format!("aux#{i} success={success}"),
                Tx { transaction_body: KeepRaw::from(body(0x3fff)), transaction_witness_set: KeepRaw::from(witness_set(0x7f)), success, auxiliary_data: aux.clone() },
            ));
        }
    }
    rt!(r, "babbage::Tx", Tx<'_>, raw, txs);
    let mut blocks: Vec<(String, Block<'static>)> = vec![];
    for n in [0usize, 1, 3] {
        for invalid in [None, Some(vec![]), Some(vec![0u32, 2])] {
            blocks.push((
                format!("txs={n} invalid={invalid:?}"),
                Block {
                    header: KeepRaw::from(Header { header_body: header_bodies()[1].clone(), body_signature: by(6, 448) }),
                    transaction_bodies: (0..n).map(|i| KeepRaw::from(body(1 << (i + 10)))).collect(),
                    transaction_witness_sets: (0..n).map(|i| KeepRaw::from(witness_set(1 << (i + 4)))).collect(),
                    auxiliary_data_set: (0..n).step_by(2).map(|i| (i as u32, KeepRaw::from(al::aux_datas()[i + 12].clone()))).collect(),
                    invalid_transactions: invalid.clone(),
                },
            ));
        }
    }
    rt!(r, "babbage::Block", Block<'_>, raw, blocks);
}
