//! Structural CBOR mutator on the `refcbor` AST: produces *semantically equal
//! but byte-different* encodings of an item (definite <-> indefinite containers,
//! non-minimal heads, chunked strings, tag 258 added / stripped on arrays,
//! reordered map entries) and reports where every original node landed in the
//! new byte string, so that an oracle can hash "the bytes as they appear on the
//! wire" of any sub-item.
//!
//! Shared helper: nothing here depends on pallas.

use mc_core::refcbor::{self, min_width, width_fits, write_head, Kind, Node, W};

/// Pre-order flattening of an AST. Index 0 is the root.
pub struct Flat<'a> {
    pub nodes: Vec<&'a Node>,
    /// One past the last pre-order index of the subtree rooted at `i`.
    pub end: Vec<usize>,
    /// Direct children (arrays: elements; maps: k0, v0, k1, v1 ...; tags: the
    /// tagged item).
    pub children: Vec<Vec<usize>>,
    pub parent: Vec<usize>,
}

impl<'a> Flat<'a> {
    pub fn new(root: &'a Node) -> Flat<'a> {
        let mut f = Flat { nodes: vec![], end: vec![], children: vec![], parent: vec![] };
        f.add(root, usize::MAX);
        f
    }
    fn add(&mut self, n: &'a Node, parent: usize) -> usize {
        let i = self.nodes.len();
        self.nodes.push(n);
        self.end.push(0);
        self.children.push(vec![]);
        self.parent.push(parent);
        let mut ch = vec![];
        match &n.kind {
            Kind::Array(v, _) => {
                for c in v {
                    ch.push(self.add(c, i));
                }
            }
            Kind::Map(v, _) => {
                for (k, x) in v {
                    ch.push(self.add(k, i));
                    ch.push(self.add(x, i));
                }
            }
            Kind::Tag(_, _, inner) => ch.push(self.add(inner, i)),
            _ => {}
        }
        self.children[i] = ch;
        self.end[i] = self.nodes.len();
        i
    }
    pub fn len(&self) -> usize {
        self.nodes.len()
    }
    pub fn kind(&self, i: usize) -> &Kind {
        &self.nodes[i].kind
    }
    /// Index of the node with any number of enclosing tags removed.
    pub fn untag(&self, mut i: usize) -> usize {
        while let Kind::Tag(..) = self.kind(i) {
            i = self.children[i][0];
        }
        i
    }
    /// Elements of the array at `i` (tags around it are looked through).
    pub fn array_items(&self, i: usize) -> Option<&[usize]> {
        let i = self.untag(i);
        match self.kind(i) {
            Kind::Array(..) => Some(&self.children[i]),
            _ => None,
        }
    }
    /// Value index under unsigned-integer key `key` of the map at `i`.
    pub fn map_get(&self, i: usize, key: u64) -> Option<usize> {
        let i = self.untag(i);
        match self.kind(i) {
            Kind::Map(..) => self.children[i]
                .chunks(2)
                .find(|kv| matches!(self.kind(kv[0]), Kind::UInt(k, _) if *k == key))
                .map(|kv| kv[1]),
            _ => None,
        }
    }
    pub fn as_u64(&self, i: usize) -> Option<u64> {
        match self.kind(i) {
            Kind::UInt(v, _) => Some(*v),
            _ => None,
        }
    }
}

#[derive(Clone, Debug, PartialEq, Eq)]
pub enum Mutation {
    /// The artefact as it is.
    Identity,
    /// Array/map at this node: definite -> indefinite, indefinite -> definite
    /// (minimal length head).
    ToggleContainer(usize),
    /// Every array/map toggled.
    ToggleAll,
    /// Every array/map indefinite.
    AllIndef,
    /// Every array/map definite with a minimal head.
    AllDef,
    /// Integer (major type 0/1) at this node written with this head width.
    WidenInt(usize, W),
    /// Every integer written with at least this head width.
    WidenAllInts(W),
    /// Length head of a definite string / array / map, or the tag number of a
    /// tag, written with this width.
    WidenLen(usize, W),
    /// Every such head written with at least this width.
    WidenAllLens(W),
    /// Definite string -> indefinite string cut into `k` chunks (k = 1, 2);
    /// indefinite string -> definite string (k ignored).
    Rechunk(usize, u8),
    /// `#6.258(x)` at this node replaced by `x`.
    StripTag258(usize),
    /// Array at this node wrapped in tag 258.
    AddTag258(usize),
    /// Entries of the map at this node in reverse order.
    MapReverse(usize),
    /// Entries of the map at this node rotated left by one.
    MapRotate(usize),
    /// The byte string at this node holds one CBOR item (CBOR-in-CBOR, tag 24):
    /// apply the inner mutation to that item and re-wrap.
    Embedded(usize, Box<Mutation>),
    /// Several mutations at once, applied in order (typically a whole-item form
    /// followed by one single-site mutation).
    Compose(Vec<Mutation>),
}

impl Mutation {
    /// Short class name for statistics.
    pub fn class(&self) -> &'static str {
        match self {
            Mutation::Identity => "identity",
            Mutation::ToggleContainer(_) => "toggle-indef",
            Mutation::ToggleAll => "toggle-indef-all",
            Mutation::AllIndef => "all-indef",
            Mutation::AllDef => "all-def",
            Mutation::WidenInt(..) => "widen-int",
            Mutation::WidenAllInts(_) => "widen-int-all",
            Mutation::WidenLen(..) => "widen-len",
            Mutation::WidenAllLens(_) => "widen-len-all",
            Mutation::Rechunk(..) => "rechunk-string",
            Mutation::StripTag258(_) => "strip-258",
            Mutation::AddTag258(_) => "add-258",
            Mutation::MapReverse(_) => "map-reverse",
            Mutation::MapRotate(_) => "map-rotate",
            Mutation::Embedded(_, m) => match m.class() {
                "toggle-indef" => "embedded:toggle-indef",
                "widen-int" => "embedded:widen-int",
                "widen-len" => "embedded:widen-len",
                "rechunk-string" => "embedded:rechunk-string",
                "map-reverse" => "embedded:map-reverse",
                "map-rotate" => "embedded:map-rotate",
                "add-258" => "embedded:add-258",
                "strip-258" => "embedded:strip-258",
                _ => "embedded:global",
            },
            Mutation::Compose(v) => match v.first() {
                Some(Mutation::AllIndef) => "site-on-all-indef",
                Some(Mutation::WidenAllInts(_)) => "site-on-wide-ints",
                _ => "composed",
            },
        }
    }
    /// The node the mutation is attached to (None for global ones).
    pub fn site(&self) -> Option<usize> {
        match self {
            Mutation::ToggleContainer(i)
            | Mutation::WidenInt(i, _)
            | Mutation::WidenLen(i, _)
            | Mutation::Rechunk(i, _)
            | Mutation::StripTag258(i)
            | Mutation::AddTag258(i)
            | Mutation::MapReverse(i)
            | Mutation::MapRotate(i)
            | Mutation::Embedded(i, _) => Some(*i),
            Mutation::Compose(v) => v.last().and_then(|m| m.site()),
            _ => None,
        }
    }
}

pub const WIDTHS: [W; 5] = [0, 1, 2, 4, 8];

/// Which mutation families to enumerate.
#[derive(Clone, Copy)]
pub struct Families {
    pub length_heads: bool,
    pub rechunk: bool,
    pub add_258: bool,
    pub embedded: bool,
}

impl Families {
    pub const ALL: Families = Families { length_heads: true, rechunk: true, add_258: true, embedded: true };
}

/// Per-node mutations of the node with pre-order index `i`.
fn node_mutations(flat: &Flat, i: usize, fam: Families, out: &mut Vec<Mutation>) {
    match flat.kind(i) {
        Kind::UInt(v, w) | Kind::NInt(v, w) => {
            for nw in WIDTHS {
                if nw > *w && width_fits(*v, nw) {
                    out.push(Mutation::WidenInt(i, nw));
                }
            }
        }
        Kind::Bytes(s, w) | Kind::Text(s, w) => {
            if fam.length_heads {
                for nw in WIDTHS {
                    if nw > *w && width_fits(s.len() as u64, nw) {
                        out.push(Mutation::WidenLen(i, nw));
                    }
                }
            }
            if fam.rechunk {
                out.push(Mutation::Rechunk(i, 1));
                // text strings are only cut where both halves stay valid UTF-8
                if s.len() >= 2 && (matches!(flat.kind(i), Kind::Bytes(..)) || s.is_ascii()) {
                    out.push(Mutation::Rechunk(i, 2));
                }
            }
            if fam.embedded && matches!(flat.kind(i), Kind::Bytes(..)) {
                let parent = flat.parent[i];
                let wrapped = parent != usize::MAX && matches!(flat.kind(parent), Kind::Tag(24, _, _));
                if wrapped {
                    if let Ok(inner) = refcbor::parse_one(s) {
                        let iflat = Flat::new(&inner);
                        let inner_fam = Families { embedded: false, ..fam };
                        for m in enumerate(&iflat, &|_| true, inner_fam, true) {
                            out.push(Mutation::Embedded(i, Box::new(m)));
                        }
                    }
                }
            }
        }
        Kind::BytesIndef(_) | Kind::TextIndef(_) => {
            if fam.rechunk {
                out.push(Mutation::Rechunk(i, 0));
            }
        }
        Kind::Array(v, w) => {
            out.push(Mutation::ToggleContainer(i));
            if let (true, Some(w)) = (fam.length_heads, w) {
                for nw in WIDTHS {
                    if nw > *w && width_fits(v.len() as u64, nw) {
                        out.push(Mutation::WidenLen(i, nw));
                    }
                }
            }
            if fam.add_258 {
                let parent = flat.parent[i];
                let tagged = parent != usize::MAX && matches!(flat.kind(parent), Kind::Tag(258, _, _));
                if !tagged {
                    out.push(Mutation::AddTag258(i));
                }
            }
        }
        Kind::Map(v, w) => {
            out.push(Mutation::ToggleContainer(i));
            if let (true, Some(w)) = (fam.length_heads, w) {
                for nw in WIDTHS {
                    if nw > *w && width_fits(v.len() as u64, nw) {
                        out.push(Mutation::WidenLen(i, nw));
                    }
                }
            }
            if v.len() >= 2 {
                out.push(Mutation::MapReverse(i));
                if v.len() >= 3 {
                    out.push(Mutation::MapRotate(i));
                }
            }
        }
        Kind::Tag(t, w, _) => {
            if *t == 258 {
                out.push(Mutation::StripTag258(i));
            }
            if fam.length_heads {
                for nw in WIDTHS {
                    if nw > *w && width_fits(*t, nw) {
                        out.push(Mutation::WidenLen(i, nw));
                    }
                }
            }
        }
        Kind::Simple(..) | Kind::Float(..) => {}
    }
}

/// The finite set of single-site mutations at every node accepted by
/// `in_scope`, followed (if `globals`) by the whole-item ones.
pub fn enumerate(flat: &Flat, in_scope: &dyn Fn(usize) -> bool, fam: Families, globals: bool) -> Vec<Mutation> {
    let mut out = vec![];
    for i in 0..flat.len() {
        if in_scope(i) {
            node_mutations(flat, i, fam, &mut out);
        }
    }
    if globals {
        out.push(Mutation::ToggleAll);
        out.push(Mutation::AllIndef);
        out.push(Mutation::AllDef);
        for w in [1, 2, 4, 8] {
            out.push(Mutation::WidenAllInts(w));
        }
        if fam.length_heads {
            for w in [1, 2, 4, 8] {
                out.push(Mutation::WidenAllLens(w));
            }
        }
    }
    out
}

/// Result of writing an item under a mutation.
pub struct Encoded {
    pub bytes: Vec<u8>,
    /// `[start, end)` of the item that now stands where original node `i`
    /// stood (for `AddTag258(i)` the span includes the tag, for
    /// `StripTag258(i)` it is the span of the untagged item).
    pub spans: Vec<(usize, usize)>,
    /// For `Embedded(i, m)`: `i`, the offset of the embedded item's first byte
    /// in `bytes`, and the spans of the embedded item's nodes relative to it.
    pub embedded: Option<(usize, usize, Vec<(usize, usize)>)>,
}

impl Encoded {
    pub fn span(&self, i: usize) -> &[u8] {
        &self.bytes[self.spans[i].0..self.spans[i].1]
    }
}

struct Wr<'m> {
    ms: Vec<&'m Mutation>,
    out: Vec<u8>,
    spans: Vec<(usize, usize)>,
    idx: usize,
    embedded: Option<(usize, usize, Vec<(usize, usize)>)>,
}

fn flatten<'m>(m: &'m Mutation, out: &mut Vec<&'m Mutation>) {
    match m {
        Mutation::Compose(v) => v.iter().for_each(|x| flatten(x, out)),
        other => out.push(other),
    }
}

impl Wr<'_> {
    fn int_width(&self, i: usize, _v: u64, w: W) -> W {
        let mut w = w;
        for m in &self.ms {
            match m {
                Mutation::WidenInt(j, nw) if *j == i => w = *nw,
                Mutation::WidenAllInts(nw) => w = w.max(*nw),
                _ => {}
            }
        }
        w
    }
    fn len_width(&self, i: usize, _v: u64, w: W) -> W {
        let mut w = w;
        for m in &self.ms {
            match m {
                Mutation::WidenLen(j, nw) if *j == i => w = *nw,
                Mutation::WidenAllLens(nw) => w = w.max(*nw),
                _ => {}
            }
        }
        w
    }
    /// Form of the container at `i`: Some(width) definite, None indefinite.
    fn form(&self, i: usize, len: u64, w: Option<W>) -> Option<W> {
        let mut f = w;
        let mut touched = false;
        for m in &self.ms {
            let toggled = match f {
                Some(_) => None,
                None => Some(min_width(len)),
            };
            match m {
                Mutation::ToggleContainer(j) if *j == i => {
                    f = toggled;
                    touched = true
                }
                Mutation::ToggleAll => {
                    f = toggled;
                    touched = true
                }
                Mutation::AllIndef => {
                    f = None;
                    touched = true
                }
                Mutation::AllDef => {
                    f = Some(min_width(len));
                    touched = true
                }
                _ => {}
            }
        }
        match (f, touched) {
            (Some(w), _) => Some(self.len_width(i, len, w)),
            (None, _) => None,
        }
    }
    fn has(&self, pred: impl Fn(&Mutation) -> bool) -> bool {
        self.ms.iter().any(|m| pred(m))
    }
    fn string(&mut self, i: usize, major: u8, s: &[u8], w: W) {
        let special = self.ms.iter().copied().find(|m| match m {
            Mutation::Rechunk(j, _) => *j == i,
            Mutation::Embedded(j, _) => *j == i && major == 2,
            _ => false,
        });
        match special {
            Some(Mutation::Rechunk(_, k)) => {
                self.out.push((major << 5) | 31);
                let parts: Vec<&[u8]> = if *k >= 2 && s.len() >= 2 {
                    vec![&s[..s.len() / 2], &s[s.len() / 2..]]
                } else if s.is_empty() {
                    vec![]
                } else {
                    vec![s]
                };
                for part in parts {
                    write_head(&mut self.out, major, part.len() as u64, min_width(part.len() as u64));
                    self.out.extend_from_slice(part);
                }
                self.out.push(0xff);
            }
            Some(Mutation::Embedded(_, inner_m)) => {
                let inner = refcbor::parse_one(s).expect("embedded item parsed at enumeration time");
                let enc = encode(&inner, inner_m);
                write_head(&mut self.out, 2, enc.bytes.len() as u64, min_width(enc.bytes.len() as u64));
                let off = self.out.len();
                self.out.extend_from_slice(&enc.bytes);
                self.embedded = Some((i, off, enc.spans));
            }
            _ => {
                let w = self.len_width(i, s.len() as u64, w);
                write_head(&mut self.out, major, s.len() as u64, w);
                self.out.extend_from_slice(s);
            }
        }
    }
    fn node(&mut self, n: &Node) {
        let i = self.idx;
        self.idx += 1;
        let start = self.out.len();
        match &n.kind {
            Kind::UInt(v, w) => {
                let w = self.int_width(i, *v, *w);
                write_head(&mut self.out, 0, *v, w)
            }
            Kind::NInt(v, w) => {
                let w = self.int_width(i, *v, *w);
                write_head(&mut self.out, 1, *v, w)
            }
            Kind::Bytes(s, w) => self.string(i, 2, s, *w),
            Kind::Text(s, w) => self.string(i, 3, s, *w),
            Kind::BytesIndef(ch) | Kind::TextIndef(ch) => {
                let major = if matches!(n.kind, Kind::BytesIndef(_)) { 2 } else { 3 };
                if self.has(|m| matches!(m, Mutation::Rechunk(j, _) if *j == i)) {
                    let all: Vec<u8> = ch.iter().flat_map(|c| c.0.iter().copied()).collect();
                    write_head(&mut self.out, major, all.len() as u64, min_width(all.len() as u64));
                    self.out.extend_from_slice(&all);
                } else {
                    self.out.push((major << 5) | 31);
                    for (s, w) in ch {
                        write_head(&mut self.out, major, s.len() as u64, *w);
                        self.out.extend_from_slice(s);
                    }
                    self.out.push(0xff);
                }
            }
            Kind::Array(v, w) => {
                if self.has(|m| matches!(m, Mutation::AddTag258(j) if *j == i)) {
                    write_head(&mut self.out, 6, 258, 2);
                }
                let form = self.form(i, v.len() as u64, *w);
                match form {
                    Some(w) => write_head(&mut self.out, 4, v.len() as u64, w),
                    None => self.out.push(0x9f),
                }
                for c in v {
                    self.node(c);
                }
                if form.is_none() {
                    self.out.push(0xff);
                }
            }
            Kind::Map(v, w) => {
                let form = self.form(i, v.len() as u64, *w);
                match form {
                    Some(w) => write_head(&mut self.out, 5, v.len() as u64, w),
                    None => self.out.push(0xbf),
                }
                // Entries may be written in a permuted order; the pre-order index
                // of each entry's nodes must stay the ORIGINAL one, so the index
                // counter is positioned per entry.
                let n_entries = v.len();
                let order: Option<Vec<usize>> = if self.has(|m| matches!(m, Mutation::MapReverse(j) if *j == i)) {
                    Some((0..n_entries).rev().collect())
                } else if self.has(|m| matches!(m, Mutation::MapRotate(j) if *j == i)) {
                    Some((0..n_entries).map(|k| (k + 1) % n_entries).collect())
                } else {
                    None
                };
                match order {
                    None => {
                        for (k, x) in v {
                            self.node(k);
                            self.node(x);
                        }
                    }
                    Some(order) => {
                        let mut first_idx = Vec::with_capacity(n_entries);
                        let mut at = self.idx;
                        for (k, x) in v {
                            first_idx.push(at);
                            at += k.count_nodes() + x.count_nodes();
                        }
                        for e in order {
                            self.idx = first_idx[e];
                            self.node(&v[e].0);
                            self.node(&v[e].1);
                        }
                        self.idx = at;
                    }
                }
                if form.is_none() {
                    self.out.push(0xff);
                }
            }
            Kind::Tag(t, w, inner) => {
                let strip = *t == 258 && self.has(|m| matches!(m, Mutation::StripTag258(j) if *j == i));
                if !strip {
                    let w = self.len_width(i, *t, *w);
                    write_head(&mut self.out, 6, *t, w);
                }
                self.node(inner);
            }
            Kind::Simple(..) | Kind::Float(..) => n.write(&mut self.out),
        }
        self.spans[i] = (start, self.out.len());
    }
}

/// Write `root` under mutation `m`.
pub fn encode(root: &Node, m: &Mutation) -> Encoded {
    let n = root.count_nodes();
    let mut ms = vec![];
    flatten(m, &mut ms);
    let mut w = Wr { ms, out: Vec::with_capacity(root.end.saturating_sub(root.start) + 64), spans: vec![(0, 0); n], idx: 0, embedded: None };
    w.node(root);
    Encoded { bytes: w.out, spans: w.spans, embedded: w.embedded }
}

/// Encoding-independent normal form: minimal heads, definite containers,
/// unchunked strings, tag 258 removed, map entries sorted by their normalised
/// key bytes, CBOR-in-CBOR (tag 24) contents normalised recursively, spans
/// zeroed. Two encodings are "semantically equal" in the sense of the mutator
/// iff their normal forms are equal.
pub fn normalize(n: &Node) -> Node {
    fn go(n: &Node, in_tag24: bool) -> Node {
        match &n.kind {
            Kind::UInt(v, _) => Node::uint(*v),
            Kind::NInt(v, _) => Node::nint(*v),
            Kind::Bytes(..) | Kind::BytesIndef(_) => {
                let s = n.as_bytes().unwrap();
                if in_tag24 {
                    if let Ok(inner) = refcbor::parse_one(&s) {
                        return Node::bytes(&go(&inner, false).to_vec());
                    }
                }
                Node::bytes(&s)
            }
            Kind::Text(s, _) => Node::new(Kind::Text(s.clone(), min_width(s.len() as u64))),
            Kind::TextIndef(ch) => {
                let s: Vec<u8> = ch.iter().flat_map(|c| c.0.iter().copied()).collect();
                let w = min_width(s.len() as u64);
                Node::new(Kind::Text(s, w))
            }
            Kind::Array(v, _) => Node::array(v.iter().map(|c| go(c, false)).collect()),
            Kind::Map(v, _) => {
                let mut e: Vec<(Vec<u8>, Node, Node)> = v
                    .iter()
                    .map(|(k, x)| {
                        let nk = go(k, false);
                        (nk.to_vec(), nk, go(x, false))
                    })
                    .collect();
                e.sort_by(|a, b| a.0.cmp(&b.0));
                Node::map(e.into_iter().map(|(_, k, x)| (k, x)).collect())
            }
            Kind::Tag(258, _, inner) => go(inner, false),
            Kind::Tag(t, _, inner) => Node::tag(*t, go(inner, *t == 24)),
            Kind::Simple(v, w) => Node::new(Kind::Simple(*v, *w)),
            Kind::Float(w, b) => Node::new(Kind::Float(*w, *b)),
        }
    }
    go(n, false)
}

/// Self-check used by the properties before trusting a mutant: it parses with
/// the independent strict parser, is semantically equal to the original, and
/// the recorded spans are exactly the spans the parser finds for a sample of
/// nodes. Returns a description of the first discrepancy.
pub fn self_check(root: &Node, m: &Mutation, enc: &Encoded) -> Result<(), String> {
    self_check_norm(&normalize(root), m, enc)
}

/// As `self_check`, with the normal form of the original computed once.
pub fn self_check_norm(norm_root: &Node, m: &Mutation, enc: &Encoded) -> Result<(), String> {
    let parsed = refcbor::parse_one(&enc.bytes).map_err(|e| format!("mutant does not parse: {e:?}"))?;
    if normalize(&parsed) != *norm_root {
        return Err("mutant is not semantically equal to the original".into());
    }
    // every recorded span must itself be one well-formed item
    for (i, (s, e)) in enc.spans.iter().enumerate() {
        if s >= e || *e > enc.bytes.len() {
            return Err(format!("span {i} is empty or out of range"));
        }
    }
    let step = (enc.spans.len() / 64).max(1);
    for i in (0..enc.spans.len()).step_by(step) {
        let (s, _) = enc.spans[i];
        let item = refcbor::parse_at(&enc.bytes, s).map_err(|e| format!("span {i} does not start an item: {e:?}"))?;
        if item.end != enc.spans[i].1 {
            return Err(format!("span {i} under {m:?} ends at {} but the item ends at {}", enc.spans[i].1, item.end));
        }
    }
    Ok(())
}

#[cfg(test)]
mod tests {
    use super::*;
    #[test]
    fn all_mutants_of_a_sample_are_equal_and_different() {
        let inner = Node::array(vec![Node::uint(1), Node::map(vec![(Node::uint(0), Node::bytes(b"xy"))])]);
        let root = Node::array(vec![
            Node::map(vec![
                (Node::uint(0), Node::tag(258, Node::array(vec![Node::uint(5), Node::int(-300)]))),
                (Node::uint(1), Node::array_indef(vec![Node::text("hello"), Node::bytes(&[7; 70])])),
                (Node::uint(2), Node::tag(24, Node::bytes(&inner.to_vec()))),
            ]),
            Node::new(Kind::BytesIndef(vec![(vec![1, 2], 0), (vec![3], 0)])),
            Node::null(),
        ]);
        let bytes = root.to_vec();
        let root = refcbor::parse_one(&bytes).unwrap();
        let flat = Flat::new(&root);
        let ms = enumerate(&flat, &|_| true, Families::ALL, true);
        assert!(ms.len() > 50);
        let mut different = 0;
        for m in &ms {
            let enc = encode(&root, m);
            self_check(&root, m, &enc).unwrap_or_else(|e| panic!("{m:?}: {e}"));
            if enc.bytes != bytes {
                different += 1;
            }
        }
        // AllDef on an item with an indefinite array differs too; only mutations
        // that happen to be no-ops may coincide.
        assert!(different + 2 >= ms.len(), "{different} of {}", ms.len());
        let id = encode(&root, &Mutation::Identity);
        assert_eq!(id.bytes, bytes);
        for (i, n) in flat.nodes.iter().enumerate() {
            assert_eq!(id.spans[i], (n.start, n.end));
        }
    }
}
