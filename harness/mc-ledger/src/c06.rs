//! C06 — era ledger codecs are isomorphic on chain data and round-trip all
//! values.
//!
//! (i) every block of the immutable-DB chunks and every block / tx / header of
//!     `test_data`: `encode(decode(b)) == b` through the era wrapper.
//! (ii) generated values of the era types (see `gen_ledger`):
//!     `decode(encode(v)) == v` and `encode(decode(encode(v))) == encode(v)`.

use crate::artefacts::{self, Artefact, NameEra};
use crate::gen_ledger;
use crate::mutate::Flat;
use mc_core::refcbor::{self, Kind, Node};
use mc_core::{catch, cov, json, Ctx, Level, Value};
use pallas_codec::minicbor;
use pallas_primitives::{alonzo, babbage, byron, conway};
use pallas_traverse::{Era, MultiEraTx};
use rayon::prelude::*;

/// Path (array positions generalised to `*`, map keys kept when they are small
/// unsigned integers) of the deepest node of `root` whose span contains `off`.
fn path_at(root: &Node, off: usize) -> String {
    let mut path = String::new();
    let mut cur = root;
    loop {
        let mut next: Option<(&Node, String)> = None;
        match &cur.kind {
            Kind::Array(v, _) => {
                for (i, c) in v.iter().enumerate() {
                    if c.start <= off && off < c.end {
                        // the first levels of a block / tx are positional structs
                        let label = if path.matches('/').count() < 3 { format!("{i}") } else { "*".into() };
                        next = Some((c, label));
                        break;
                    }
                }
            }
            Kind::Map(v, _) => {
                for (k, c) in v {
                    if k.start <= off && off < k.end {
                        next = Some((k, "key".into()));
                        break;
                    }
                    if c.start <= off && off < c.end {
                        let label = match k.as_u64() {
                            Some(x) if x < 64 => format!("{{{x}}}"),
                            _ => "{*}".into(),
                        };
                        next = Some((c, label));
                        break;
                    }
                }
            }
            Kind::Tag(t, _, inner) => {
                if inner.start <= off && off < inner.end {
                    next = Some((inner, format!("#{t}")));
                }
            }
            _ => {}
        }
        match next {
            Some((n, l)) => {
                path.push('/');
                path.push_str(&l);
                cur = n;
            }
            None => break,
        }
    }
    if path.is_empty() {
        "/".into()
    } else {
        path
    }
}

fn first_diff(a: &[u8], b: &[u8]) -> usize {
    a.iter().zip(b.iter()).position(|(x, y)| x != y).unwrap_or(a.len().min(b.len()))
}

fn window(b: &[u8], at: usize) -> String {
    let s = at.saturating_sub(8);
    let e = (at + 16).min(b.len());
    hex::encode(&b[s..e])
}

enum Iso {
    Same,
    Rejected(String),
    Differs { off: usize, reencoded_len: usize, got: String },
}

macro_rules! iso_block {
    ($ty:ty, $bytes:expr) => {{
        match catch(|| {
            minicbor::decode::<(u16, $ty)>($bytes).map(|v| minicbor::to_vec(&v).map_err(|e| e.to_string()))
        }) {
            Err(p) => Err(p),
            Ok(Err(e)) => Ok(Iso::Rejected(e.to_string())),
            Ok(Ok(Err(e))) => Ok(Iso::Rejected(format!("encode error: {e}"))),
            Ok(Ok(Ok(b2))) => Ok(if b2 == $bytes { Iso::Same } else { Iso::Differs { off: first_diff($bytes, &b2), reencoded_len: b2.len(), got: window(&b2, first_diff($bytes, &b2)) } }),
        }
    }};
}

macro_rules! iso_plain {
    ($ty:ty, $bytes:expr) => {{
        match catch(|| minicbor::decode::<$ty>($bytes).map(|v| minicbor::to_vec(&v).map_err(|e| e.to_string()))) {
            Err(p) => Err(p),
            Ok(Err(e)) => Ok(Iso::Rejected(e.to_string())),
            Ok(Ok(Err(e))) => Ok(Iso::Rejected(format!("encode error: {e}"))),
            Ok(Ok(Ok(b2))) => Ok(if b2 == $bytes { Iso::Same } else { Iso::Differs { off: first_diff($bytes, &b2), reencoded_len: b2.len(), got: window(&b2, first_diff($bytes, &b2)) } }),
        }
    }};
}

fn era_tag_of(bytes: &[u8]) -> Option<(u64, Node)> {
    let root = refcbor::parse_one(bytes).ok()?;
    let t = root.as_array()?.first()?.as_u64()?;
    Some((t, root))
}

fn pallas_era(e: NameEra) -> Era {
    match e {
        NameEra::Byron => Era::Byron,
        NameEra::Shelley => Era::Shelley,
        NameEra::Allegra => Era::Allegra,
        NameEra::Mary => Era::Mary,
        NameEra::Alonzo => Era::Alonzo,
        NameEra::Babbage => Era::Babbage,
        NameEra::Conway => Era::Conway,
    }
}

struct IsoStats {
    evaluations: u64,
    same: u64,
    skipped: Vec<String>,
}

fn report_iso(ctx: &Ctx, st: &mut IsoStats, what: &str, era: &str, a: &Artefact, root: &Node, r: Result<Iso, mc_core::panics::PanicInfo>) {
    st.evaluations += 1;
    match r {
        Err(p) => ctx.violation(p.site(), format!("{what} {} decode/encode panicked: {} at {}", a.name, p.message, p.location), json!({"artefact": a.name})),
        Ok(Iso::Same) => st.same += 1,
        Ok(Iso::Rejected(e)) => st.skipped.push(format!("{} ({what}, {era}): rejected by the typed decoder: {e}", a.name)),
        Ok(Iso::Differs { off, reencoded_len, got }) => {
            let path = path_at(root, off);
            ctx.note(format!("not isomorphic: {} ({what}, {era}) at byte {off}, CBOR path {path}", a.name));
            ctx.violation(
                format!("reencode-differs:{what}:{era}:{path}"),
                format!(
                    "{}: encode(decode(b)) != b; first difference at byte {off} (CBOR path {path}): original ..{}.., re-encoded ..{got}.. (lengths {} vs {reencoded_len})",
                    a.name,
                    window(&a.bytes, off),
                    a.bytes.len()
                ),
                json!({"artefact": a.name, "offset": off, "path": path}),
            );
        }
    }
}

fn part_i(ctx: &Ctx) -> (IsoStats, Value) {
    let mut st = IsoStats { evaluations: 0, same: 0, skipped: vec![] };
    let blocks = artefacts::load_hex("block");
    let chunks = artefacts::chunk_blocks();
    let txs = artefacts::load_hex("tx");
    let headers = artefacts::load_hex("header");
    let n_chunks = chunks.len();
    let all_blocks: Vec<&Artefact> = blocks.iter().chain(chunks.iter()).collect();

    // blocks through the era wrapper `(tag, era::Block)`
    let results: Vec<_> = all_blocks
        .par_iter()
        .map(|a| {
            let Some((tag, root)) = era_tag_of(&a.bytes) else {
                mc_core::report::machinery_failure(&format!("{} is not [era, block]", a.name))
            };
            let r = match tag {
                0 => iso_block!(byron::EbBlock, &a.bytes[..]),
                1 => iso_block!(byron::Block, &a.bytes[..]),
                2..=5 => iso_block!(alonzo::Block, &a.bytes[..]),
                6 => iso_block!(babbage::Block, &a.bytes[..]),
                7 => iso_block!(conway::Block, &a.bytes[..]),
                t => mc_core::report::machinery_failure(&format!("{}: unknown era tag {t}", a.name)),
            };
            // the header alone, decoded WITHOUT the raw-preserving wrapper
            let hdr = root.as_array().unwrap()[1].as_array().unwrap()[0].span(&a.bytes);
            let h = match tag {
                0 => iso_plain!(byron::EbbHead, hdr),
                1 => iso_plain!(byron::BlockHead, hdr),
                2..=5 => iso_plain!(alonzo::Header, hdr),
                _ => iso_plain!(babbage::Header, hdr),
            };
            (tag, root, r, h)
        })
        .collect();
    for (a, (tag, root, r, h)) in all_blocks.iter().zip(results) {
        let era = match tag {
            0 => "ebb",
            1 => "byron",
            2..=5 => "alonzo-compatible",
            6 => "babbage",
            _ => "conway",
        };
        report_iso(ctx, &mut st, "block", era, a, &root, r);
        // header of the block: part of "blocks/txs/headers in test_data"
        let hdr_node = &root.as_array().unwrap()[1].as_array().unwrap()[0];
        let hdr_art = Artefact { name: format!("{}:header", a.name), bytes: hdr_node.span(&a.bytes).to_vec() };
        let hdr_root = refcbor::parse_one(&hdr_art.bytes).unwrap();
        report_iso(ctx, &mut st, "header", era, &hdr_art, &hdr_root, h);
    }

    // transactions through MultiEraTx
    for a in &txs {
        let root = refcbor::parse_one(&a.bytes).unwrap_or_else(|e| mc_core::report::machinery_failure(&format!("{}: {e:?}", a.name)));
        let mut cands = vec![];
        if let Some(e) = artefacts::era_of_name(&a.name) {
            cands.push(pallas_era(e));
        }
        cands.extend([Era::Conway, Era::Babbage, Era::Alonzo, Era::Byron]);
        let mut done = false;
        for era in cands {
            let r = catch(|| MultiEraTx::decode_for_era(era, &a.bytes).map(|t| t.encode()));
            match r {
                Err(p) => {
                    report_iso(ctx, &mut st, "tx", &format!("{era:?}"), a, &root, Err(p));
                    done = true;
                    break;
                }
                Ok(Err(_)) => continue,
                Ok(Ok(b2)) => {
                    let iso = if b2 == a.bytes { Iso::Same } else { Iso::Differs { off: first_diff(&a.bytes, &b2), reencoded_len: b2.len(), got: window(&b2, first_diff(&a.bytes, &b2)) } };
                    let variant = match era {
                        Era::Byron => "byron",
                        Era::Babbage => "babbage",
                        Era::Conway => "conway",
                        _ => "alonzo-compatible",
                    };
                    report_iso(ctx, &mut st, "tx", variant, a, &root, Ok(iso));
                    done = true;
                    break;
                }
            }
        }
        if !done {
            st.evaluations += 1;
            st.skipped.push(format!("{} (tx): no era decodes the shipped bytes", a.name));
        }
    }

    // header files, typed (no KeepRaw)
    for a in &headers {
        let root = refcbor::parse_one(&a.bytes).unwrap_or_else(|e| mc_core::report::machinery_failure(&format!("{}: {e:?}", a.name)));
        let (era, r) = match artefacts::era_of_name(&a.name) {
            Some(NameEra::Byron) => ("byron", iso_plain!(byron::BlockHead, &a.bytes[..])),
            Some(NameEra::Babbage) | Some(NameEra::Conway) => ("babbage", iso_plain!(babbage::Header, &a.bytes[..])),
            _ => ("alonzo-compatible", iso_plain!(alonzo::Header, &a.bytes[..])),
        };
        report_iso(ctx, &mut st, "header", era, a, &root, r);
    }
    let _ = Flat::new;
    let summary = json!({
        "block_files": blocks.len(), "chunk_blocks": n_chunks, "tx_files": txs.len(), "header_files": headers.len(),
        "headers_cut_from_blocks": all_blocks.len(),
    });
    (st, summary)
}

pub fn run(ctx: Ctx) -> ! {
    let (iso, artefact_summary) = part_i(&ctx);
    eprintln!("part (i) done at {:.1}s", ctx.elapsed());
    if iso.same < 1000 {
        mc_core::report::machinery_failure(&format!("C06(i): only {} artefacts re-encoded identically; the artefact set was not reached", iso.same));
    }
    let vals = gen_ledger::run_all(&ctx);
    if vals.distinct < 1000 || vals.types.len() < 60 {
        mc_core::report::machinery_failure(&format!("C06(ii): value grammar too small: {} values of {} types", vals.distinct, vals.types.len()));
    }
    let mut samples = vals.samples.clone();
    samples.truncate(12);
    let cov = cov! {
        "evaluations" => iso.evaluations + vals.evaluations,
        "distinct_nontrivial" => iso.same + vals.distinct,
        "rule" => "evaluation = one artefact decoded and re-encoded through the era wrapper, or one generated value taken through encode -> decode -> encode -> decode; non-trivial = artefact accepted by the typed decoder and compared byte-for-byte (artefacts are distinct files / chunk offsets), or a generated value with an encoding not seen before for its type (distinct (type, encoding) pairs are counted)",
        "samples" => samples,
        "artefacts" => artefact_summary,
        "artefacts_identical" => iso.same,
        "artefacts_skipped" => iso.skipped,
        "generated_values" => vals.evaluations,
        "generated_distinct_encodings" => vals.distinct,
        "types_covered" => vals.types,
        "exhaustive" => true,
    };
    ctx.finish(
        Level::Exploration,
        cov,
        &[
            "generated values come from a finite grammar per type (boundary integers, every variant, every subset of optional fields); interior values are not enumerated",
            "types embedding KeepRaw are compared decoded-vs-decoded and through a Debug rendering with the retained bytes masked, never in-memory-vs-decoded with the derived PartialEq",
            "artefacts that the typed decoder rejects without the `relaxed` feature are listed under artefacts_skipped",
        ],
    )
}
