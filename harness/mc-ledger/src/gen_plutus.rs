//! PlutusData universe generator (shared helper): atoms chosen from the
//! branches of `impl Ord for BigInt / Constr / PlutusData` and of the
//! bounded-bytes codec, closed under the three container forms in both
//! definite and indefinite encodings.

use pallas_codec::utils::{Int, KeyValuePairs, MaybeIndefArray};
use pallas_primitives::{BigInt, BoundedBytes, Constr, PlutusData};

pub type PD = PlutusData;

pub fn int(v: i128) -> PD {
    PD::BigInt(BigInt::Int(Int::try_from(v).unwrap()))
}
pub fn biguint(b: &[u8]) -> PD {
    PD::BigInt(BigInt::BigUInt(BoundedBytes::from(b.to_vec())))
}
pub fn bignint(b: &[u8]) -> PD {
    PD::BigInt(BigInt::BigNInt(BoundedBytes::from(b.to_vec())))
}
pub fn bytes(b: &[u8]) -> PD {
    PD::BoundedBytes(BoundedBytes::from(b.to_vec()))
}
pub fn arr(indef: bool, v: Vec<PD>) -> PD {
    PD::Array(if indef { MaybeIndefArray::Indef(v) } else { MaybeIndefArray::Def(v) })
}
pub fn map(indef: bool, v: Vec<(PD, PD)>) -> PD {
    PD::Map(if indef { KeyValuePairs::Indef(v) } else { KeyValuePairs::Def(v) })
}
pub fn constr(tag: u64, any: Option<u64>, indef: bool, v: Vec<PD>) -> PD {
    PD::Constr(Constr { tag, any_constructor: any, fields: if indef { MaybeIndefArray::Indef(v) } else { MaybeIndefArray::Def(v) } })
}

pub const BYTE_LENGTHS: [usize; 7] = [0, 1, 63, 64, 65, 128, 129];

pub fn atoms() -> Vec<PD> {
    let mut v = vec![];
    for i in [
        0i128,
        1,
        -1,
        2,
        -2,
        255,
        256,
        -256,
        i64::MAX as i128,
        i64::MIN as i128,
        1 << 63,
        -(1 << 63) - 1,
        (1 << 64) - 1,
        -(1 << 64),
    ] {
        v.push(int(i));
    }
    let mut big65 = vec![1u8; 65];
    big65[64] = 2;
    for b in [&[][..], &[0], &[1], &[0, 1], &[1, 0], &[0, 0, 2], &[0xff; 8], &[1, 0, 0, 0, 0, 0, 0, 0, 0], &[0, 1, 0, 0, 0, 0, 0, 0, 0, 0], &big65] {
        v.push(biguint(b));
        v.push(bignint(b));
    }
    for l in BYTE_LENGTHS {
        v.push(bytes(&vec![0xab; l]));
    }
    v.push(bytes(&[0]));
    v.push(bytes(&[1]));
    let mut b64 = vec![0xab; 64];
    b64[63] = 0xac;
    v.push(bytes(&b64));
    v.push(bytes(&[0xab, 0xab]));
    v
}

pub const TAGS: [(u64, Option<u64>); 10] =
    [(121, None), (122, None), (127, None), (1280, None), (1281, None), (1400, None), (102, Some(0)), (102, Some(1)), (102, Some(7)), (102, Some(127))];

/// All containers over the given children: arrays / constr fields with 0, 1
/// (every kid) and 2 (every listed pair) children, maps with 0, 1 (every
/// listed pair) and 2 entries, each in definite and indefinite form.
pub fn containers(kids: &[PD], pairs: &[(PD, PD)], tags: &[(u64, Option<u64>)]) -> Vec<PD> {
    let mut lists: Vec<Vec<PD>> = vec![vec![]];
    for k in kids {
        lists.push(vec![k.clone()]);
    }
    for (a, b) in pairs {
        lists.push(vec![a.clone(), b.clone()]);
    }
    let mut entry_lists: Vec<Vec<(PD, PD)>> = vec![vec![]];
    for p in pairs {
        entry_lists.push(vec![p.clone()]);
    }
    for w in pairs.windows(2).step_by(2) {
        entry_lists.push(vec![w[0].clone(), w[1].clone()]);
        entry_lists.push(vec![w[1].clone(), w[0].clone()]);
    }
    let mut out = vec![];
    for indef in [false, true] {
        for l in &lists {
            out.push(arr(indef, l.clone()));
            for (t, any) in tags {
                out.push(constr(*t, *any, indef, l.clone()));
            }
        }
        for e in &entry_lists {
            out.push(map(indef, e.clone()));
        }
    }
    out
}

fn pairs_of(kids: &[PD], n: usize) -> Vec<(PD, PD)> {
    // deterministic spread over the product, diagonal included
    let mut v = vec![];
    let k = kids.len();
    let mut i = 0usize;
    while v.len() < n && i < k * k {
        let a = i / k;
        let b = (i * 7 + a) % k;
        v.push((kids[a].clone(), kids[b].clone()));
        i += (k * k / n).max(1);
    }
    v
}

/// The universe: atoms, then `levels` rounds of containers whose children
/// come from a reduced set of the previous rounds.
pub fn universe(levels: usize, wide: bool) -> Vec<PD> {
    let mut seen = std::collections::BTreeSet::new();
    universe_raw(levels, wide).into_iter().filter(|d| seen.insert(format!("{d:?}"))).collect()
}

fn universe_raw(levels: usize, wide: bool) -> Vec<PD> {
    let a = atoms();
    let mut all = a.clone();
    // cross-representation equal pairs on purpose: Int 1 / BigUInt[1] / BigUInt[0,1]; Int 0 / BigNInt[]; Int -1 / BigNInt[1]
    let mut kids: Vec<PD> = vec![int(0), int(1), biguint(&[0, 1]), bignint(&[1]), int(-1), bytes(&[]), bytes(&[1]), bytes(&vec![0xab; 65])];
    if wide {
        kids.extend([bignint(&[]), int((1 << 64) - 1), biguint(&[0xff; 8]), bytes(&vec![0xab; 64]), biguint(&[1; 65])]);
    }
    let mut tags: Vec<(u64, Option<u64>)> = TAGS.to_vec();
    for lvl in 0..levels {
        let n_pairs = if wide { 60 } else { 24 };
        let pairs = pairs_of(&kids, if lvl == 0 { n_pairs } else { n_pairs / 2 + 4 });
        let level = containers(&kids, &pairs, &tags);
        all.extend(level.iter().cloned());
        // next round: a few atoms + a spread of this level (both forms, all three kinds)
        let step = (level.len() / if wide { 17 } else { 11 }).max(1);
        let mut next: Vec<PD> = vec![int(1), biguint(&[1]), bytes(&[])];
        next.extend(level.iter().step_by(step).cloned());
        next.push(arr(false, vec![]));
        next.push(arr(true, vec![]));
        next.push(map(false, vec![]));
        next.push(map(true, vec![]));
        next.push(constr(121, None, false, vec![]));
        next.push(constr(102, Some(0), true, vec![]));
        kids = next;
        tags = vec![(121, None), (1280, None), (102, Some(0)), (102, Some(7))];
    }
    all
}

/// Number of container nodes (places where a definite/indefinite choice exists).
pub fn container_count(d: &PD) -> usize {
    match d {
        PD::Array(a) => 1 + a.iter().map(container_count).sum::<usize>(),
        PD::Constr(c) => 1 + c.fields.iter().map(container_count).sum::<usize>(),
        PD::Map(m) => 1 + m.iter().map(|(k, v)| container_count(k) + container_count(v)).sum::<usize>(),
        _ => 0,
    }
}

/// Copy of `d` in which the i-th container (pre-order) is definite iff bit i of
/// `bits` is clear.
pub fn with_forms(d: &PD, bits: u64) -> PD {
    fn go(d: &PD, bits: u64, next: &mut u32) -> PD {
        match d {
            PD::Array(a) => {
                let indef = bits >> *next & 1 == 1;
                *next += 1;
                arr(indef, a.iter().map(|x| go(x, bits, next)).collect())
            }
            PD::Constr(c) => {
                let indef = bits >> *next & 1 == 1;
                *next += 1;
                constr(c.tag, c.any_constructor, indef, c.fields.iter().map(|x| go(x, bits, next)).collect())
            }
            PD::Map(m) => {
                let indef = bits >> *next & 1 == 1;
                *next += 1;
                map(indef, m.iter().map(|(k, v)| (go(k, bits, next), go(v, bits, next))).collect())
            }
            other => other.clone(),
        }
    }
    go(d, bits, &mut 0)
}
