//! mc-ledger — property group "ledger codecs and identities": C05..C08.

pub mod artefacts;
pub mod costmodels;
pub mod gen_alonzo;
pub mod gen_babbage;
pub mod gen_byron;
pub mod gen_common;
pub mod gen_conway;
pub mod gen_ledger;
pub mod gen_plutus;
pub mod locate;
pub mod mutate;

mod c05;
mod c06;
mod c07;
mod c08;
mod c08_builder;

fn main() {
    let ctx = mc_core::Ctx::from_args();
    match ctx.prop.as_str() {
        "C05" => c05::run(ctx),
        "C06" => c06::run(ctx),
        "C07" => c07::run(ctx),
        "C08" => c08::run(ctx),
        p => mc_core::report::machinery_failure(&format!("mc-ledger does not serve {p}")),
    }
}
