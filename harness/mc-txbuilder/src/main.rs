mod c40;
mod c41;

fn main() {
    let ctx = mc_core::Ctx::from_args();
    match ctx.prop.as_str() {
        "C40" => c40::run(ctx),
        "C41" => c41::run(ctx),
        p => mc_core::report::machinery_failure(&format!("mc-txbuilder does not serve {p}")),
    }
}
