//! C40 — built transactions encode the staged content with a correct id.
//!
//! SEQ / model checking: breadth-first search over histories of
//! `StagingTransaction` method calls. Every history is replayed on a fresh real
//! `StagingTransaction` (and on a plain bookkeeping model); the canonical state
//! key is the serde_json form of the staged struct (maps sorted). At every
//! state `build_conway_raw` is called:
//!   * panic                      -> violation (fingerprint = panic site + entry point)
//!   * `Err(_)`                   -> always acceptable
//!   * `Ok(built)`                -> `tx_bytes` must decode as `conway::Tx` whose listed
//!     fields are the staged ones; `tx_hash` must be the reference Blake2b-256 of the
//!     body byte span located with refcbor inside `tx_bytes`; every redeemer index must
//!     be the position of its target in the ledger's canonical order (sorted *set* of
//!     inputs / sorted policy ids).

use mc_core::bfs::{self, Outcome};
use mc_core::{blake2b, catch, cov, json, refcbor, Ctx, Level, Value};
use pallas_addresses::Address;
use pallas_codec::minicbor;
use pallas_crypto::hash::Hash;
use pallas_primitives::{conway, Fragment};
use pallas_txbuilder::{BuildConway, BuiltTransaction, ExUnits, Input, Output, ScriptKind, StagingTransaction};
use std::collections::{BTreeMap, BTreeSet};
use std::ops::Deref;
use std::sync::atomic::{AtomicU64, Ordering};
use std::sync::Mutex;

// ------------------------------------------------------------------ domain

type In = (Vec<u8>, u64);

/// Inputs: insertion order I0, I1, I2 is the reverse of the ledger order
/// (I2 < I1 < I0), so any pointer computed on the unsorted list is wrong.
pub fn inp(i: u8) -> In {
    match i {
        0 => (vec![0xBB; 32], 0),
        1 => (vec![0xAA; 32], 1),
        _ => (vec![0xAA; 32], 0),
    }
}
/// Policies: P1 < P0.
pub fn pol(p: u8) -> Vec<u8> {
    if p == 0 {
        vec![0x22; 28]
    } else {
        vec![0x11; 28]
    }
}
pub fn aname(n: u8) -> Vec<u8> {
    if n == 0 {
        b"a".to_vec()
    } else {
        b"b".to_vec()
    }
}
fn signer(s: u8) -> Vec<u8> {
    if s == 0 {
        vec![0x55; 28]
    } else {
        vec![0x44; 28]
    }
}
fn native_script_ok() -> Vec<u8> {
    // [0, addr_keyhash]
    let mut v = vec![0x82, 0x00, 0x58, 0x1c];
    v.extend([0x33; 28]);
    v
}
fn plutus_bytes() -> Vec<u8> {
    hex::decode("4d01000033222220051200120011").unwrap()
}
/// (kind tag 0 native / 1..3 plutus, bytes)
fn script_dom(i: u8) -> (u8, Vec<u8>) {
    match i {
        0 => (0, native_script_ok()),
        1 => (0, vec![0xff]), // malformed native script
        2 => (1, plutus_bytes()),
        3 => (2, plutus_bytes()),
        _ => (3, plutus_bytes()),
    }
}
fn kind_of(t: u8) -> ScriptKind {
    match t {
        0 => ScriptKind::Native,
        1 => ScriptKind::PlutusV1,
        2 => ScriptKind::PlutusV2,
        _ => ScriptKind::PlutusV3,
    }
}
fn kind_tag(k: ScriptKind) -> u8 {
    match k {
        ScriptKind::Native => 0,
        ScriptKind::PlutusV1 => 1,
        ScriptKind::PlutusV2 => 2,
        ScriptKind::PlutusV3 => 3,
    }
}
fn script_hash((tag, bytes): &(u8, Vec<u8>)) -> Vec<u8> {
    let mut v = vec![*tag];
    v.extend(bytes);
    blake2b::blake2b_224(&v).to_vec()
}
fn datum_dom(i: u8) -> Vec<u8> {
    match i {
        0 => hex::decode("d87980").unwrap(),   // Constr 0 []
        1 => hex::decode("d8798101").unwrap(), // Constr 0 [1], definite-length spelling
        _ => vec![0xff],                       // malformed
    }
}
fn rdmr_data(i: u8) -> Vec<u8> {
    if i == 0 {
        vec![0x18, 0x2a]
    } else {
        vec![0xff]
    }
}
/// (bytes, is well-formed auxiliary data)
fn aux_dom(i: u8) -> (Vec<u8>, bool) {
    match i {
        0 => (hex::decode("a10102").unwrap(), true),             // shelley metadata {1: 2}
        1 => (hex::decode("d90103a100a1056161").unwrap(), true), // post-alonzo {0: {5: "a"}}
        _ => (vec![0xff], false),
    }
}
fn addr_bytes(i: u8) -> Vec<u8> {
    let mut v = vec![if i == 0 { 0x61 } else { 0x60 }];
    v.extend([if i == 0 { 0x77 } else { 0x66 }; 28]);
    v
}
const EX: (u64, u64) = (100, 200);

#[derive(Clone, Debug, PartialEq, Eq, PartialOrd, Ord)]
pub struct OutC {
    address: Vec<u8>,
    lovelace: u64,
    assets: BTreeMap<Vec<u8>, BTreeMap<Vec<u8>, u64>>,
    /// ("hash", 32 bytes) or ("inline", canonical CBOR of the datum)
    datum: Option<(String, Vec<u8>)>,
    /// (kind tag, script bytes; canonical CBOR for native scripts)
    script: Option<(u8, Vec<u8>)>,
}

struct OutSpec {
    addr: u8,
    lovelace: u64,
    assets: Vec<(u8, u8, u64)>,
    datum_hash: Option<[u8; 32]>,
    inline_datum: Option<Vec<u8>>,
    script: Option<(u8, Vec<u8>)>,
}

fn out_spec(i: u8) -> OutSpec {
    let base = |addr, lovelace| OutSpec { addr, lovelace, assets: vec![], datum_hash: None, inline_datum: None, script: None };
    match i {
        0 => base(0, 1_000_000),
        1 => OutSpec { assets: vec![(0, 0, 7), (1, 1, 3)], datum_hash: Some([0xDD; 32]), ..base(1, 2_000_000) },
        2 => OutSpec { inline_datum: Some(datum_dom(1)), script: Some((0, native_script_ok())), ..base(0, 3_000_000) },
        3 => OutSpec { assets: vec![(0, 1, 1)], script: Some((2, plutus_bytes())), ..base(0, 1_500_000) },
        4 => OutSpec { inline_datum: Some(vec![0xff]), ..base(0, 1_000_000) }, // malformed inline datum
        5 => OutSpec { assets: vec![(0, 0, 0)], ..base(0, 1_000_000) },         // asset with quantity 0
        // one output per reference-script language (the builder converts each kind in its own arm)
        6 => OutSpec { script: Some((1, plutus_bytes())), ..base(1, 1_200_000) },
        7 => OutSpec { script: Some((3, plutus_bytes())), ..base(0, 1_300_000) },
        // the same asset added twice to one output (quantities accumulate), next to another name
        _ => OutSpec { assets: vec![(0, 0, 5), (0, 1, 2), (0, 0, 7)], ..base(1, 1_400_000) },
    }
}

fn canon(b: &[u8]) -> Vec<u8> {
    match refcbor::parse_one(b) {
        Ok(n) => n.canonical().to_vec(),
        Err(_) => b.to_vec(),
    }
}

impl OutSpec {
    fn real(&self) -> Result<Output, String> {
        let a = Address::from_bytes(&addr_bytes(self.addr)).map_err(|e| format!("address: {e:?}"))?;
        let mut o = Output::new(a, self.lovelace);
        for (p, n, q) in &self.assets {
            o = o.add_asset(Hash::<28>::from(&pol(*p)[..]), aname(*n), *q).map_err(|e| format!("{e:?}"))?;
        }
        if let Some(h) = self.datum_hash {
            o = o.set_datum_hash(Hash::<32>::from(h));
        }
        if let Some(d) = &self.inline_datum {
            o = o.set_inline_datum(d.clone());
        }
        if let Some((k, b)) = &self.script {
            o = o.set_inline_script(kind_of(*k), b.clone());
        }
        Ok(o)
    }
    fn model(&self) -> OutC {
        let mut assets: BTreeMap<Vec<u8>, BTreeMap<Vec<u8>, u64>> = BTreeMap::new();
        for (p, n, q) in &self.assets {
            *assets.entry(pol(*p)).or_default().entry(aname(*n)).or_default() += *q;
        }
        let datum = match (&self.datum_hash, &self.inline_datum) {
            (_, Some(d)) => Some(("inline".to_string(), canon(d))),
            (Some(h), None) => Some(("hash".to_string(), h.to_vec())),
            _ => None,
        };
        let script = self.script.as_ref().map(|(k, b)| (*k, if *k == 0 { canon(b) } else { b.clone() }));
        OutC { address: addr_bytes(self.addr), lovelace: self.lovelace, assets, datum, script }
    }
}

// ------------------------------------------------------------------ events

#[derive(Clone, Debug, PartialEq, Eq)]
pub enum Ev {
    Input(u8),
    RemoveInput(u8),
    RefInput(u8),
    RemoveRefInput(u8),
    CollInput(u8),
    RemoveCollInput(u8),
    Output(u8),
    RemoveOutput(usize),
    CollOutput(u8),
    ClearCollOutput,
    Fee(u64),
    ClearFee,
    Mint(u8, u8, i64),
    RemoveMint(u8, u8),
    ValidFrom(u64),
    ClearValidFrom,
    InvalidFrom(u64),
    ClearInvalidFrom,
    NetworkId(u8),
    ClearNetworkId,
    Signer(u8),
    RemoveSigner(u8),
    Script(u8),
    RemoveScript(u8),
    Datum(u8),
    RemoveDatum(u8),
    RemoveDatumByHash(u8),
    LanguageViews,
    AddLanguage(u8),
    SpendRdmr(u8, u8, bool),
    RemoveSpendRdmr(u8),
    MintRdmr(u8, bool),
    RemoveMintRdmr(u8),
    SigOverride(u8),
    ClearSigOverride,
    ChangeAddr,
    ClearChangeAddr,
    Aux(u8),
    ClearAux,
}

fn hx(b: &[u8]) -> String {
    hex::encode(b)
}
fn in_s(i: u8) -> String {
    let (h, ix) = inp(i);
    format!("{}#{}", hx(&h), ix)
}

impl Ev {
    /// The call as a reader would write it.
    pub fn describe(&self) -> String {
        use Ev::*;
        match self {
            Input(i) => format!("input({})", in_s(*i)),
            RemoveInput(i) => format!("remove_input({})", in_s(*i)),
            RefInput(i) => format!("reference_input({})", in_s(*i)),
            RemoveRefInput(i) => format!("remove_reference_input({})", in_s(*i)),
            CollInput(i) => format!("collateral_input({})", in_s(*i)),
            RemoveCollInput(i) => format!("remove_collateral_input({})", in_s(*i)),
            Output(i) => format!("output(OUT{i}: {})", out_desc(*i)),
            RemoveOutput(i) => format!("remove_output({i})"),
            CollOutput(i) => format!("collateral_output(OUT{i}: {})", out_desc(*i)),
            ClearCollOutput => "clear_collateral_output()".into(),
            Fee(f) => format!("fee({f})"),
            ClearFee => "clear_fee()".into(),
            Mint(p, n, a) => format!("mint_asset(policy={}, name={:?}, {a:+})", hx(&pol(*p)), String::from_utf8_lossy(&aname(*n))),
            RemoveMint(p, n) => format!("remove_mint_asset(policy={}, name={:?})", hx(&pol(*p)), String::from_utf8_lossy(&aname(*n))),
            ValidFrom(s) => format!("valid_from_slot({s})"),
            ClearValidFrom => "clear_valid_from_slot()".into(),
            InvalidFrom(s) => format!("invalid_from_slot({s})"),
            ClearInvalidFrom => "clear_invalid_from_slot()".into(),
            NetworkId(n) => format!("network_id({n})"),
            ClearNetworkId => "clear_network_id()".into(),
            Signer(s) => format!("disclosed_signer({})", hx(&signer(*s))),
            RemoveSigner(s) => format!("remove_disclosed_signer({})", hx(&signer(*s))),
            Script(i) => {
                let (k, b) = script_dom(*i);
                format!("script({:?}, {})", kind_of(k), hx(&b))
            }
            RemoveScript(i) => {
                let d = script_dom(*i);
                format!("remove_script_by_hash({} = hash of {:?} script {})", hx(&script_hash(&d)), kind_of(d.0), hx(&d.1))
            }
            Datum(i) => format!("datum({})", hx(&datum_dom(*i))),
            RemoveDatum(i) => format!("remove_datum({})", hx(&datum_dom(*i))),
            RemoveDatumByHash(i) => format!("remove_datum_by_hash(blake2b256({}))", hx(&datum_dom(*i))),
            LanguageViews => "language_views({1: [1, 2, 3]})".into(),
            AddLanguage(k) => format!("add_language({:?}, [10, 20])", kind_of(*k)),
            SpendRdmr(i, d, ex) => format!("add_spend_redeemer({}, data={}, ex_units={})", in_s(*i), hx(&rdmr_data(*d)), if *ex { "Some{mem:100,steps:200}" } else { "None" }),
            RemoveSpendRdmr(i) => format!("remove_spend_redeemer({})", in_s(*i)),
            MintRdmr(p, ex) => format!("add_mint_redeemer(policy={}, data=182a, ex_units={})", hx(&pol(*p)), if *ex { "Some{mem:100,steps:200}" } else { "None" }),
            RemoveMintRdmr(p) => format!("remove_mint_redeemer(policy={})", hx(&pol(*p))),
            SigOverride(n) => format!("signature_amount_override({n})"),
            ClearSigOverride => "clear_signature_amount_override()".into(),
            ChangeAddr => format!("change_address({})", hx(&addr_bytes(0))),
            ClearChangeAddr => "clear_change_address()".into(),
            Aux(i) => format!("add_auxiliary_data({})", hx(&aux_dom(*i).0)),
            ClearAux => "clear_auxiliary_data()".into(),
        }
    }
}

fn out_desc(i: u8) -> String {
    let s = out_spec(i);
    let mut d = format!("addr={} lovelace={}", hx(&addr_bytes(s.addr)), s.lovelace);
    for (p, n, q) in &s.assets {
        d += &format!(" +asset({}.{}, {q})", hx(&pol(*p)[..2]), String::from_utf8_lossy(&aname(*n)));
    }
    if let Some(h) = s.datum_hash {
        d += &format!(" datum_hash={}..", hx(&h[..2]));
    }
    if let Some(x) = &s.inline_datum {
        d += &format!(" inline_datum={}", hx(x));
    }
    if let Some((k, b)) = &s.script {
        d += &format!(" script=({:?},{})", kind_of(*k), hx(b));
    }
    d
}

fn mk_input(i: u8) -> Input {
    let (h, ix) = inp(i);
    Input::new(Hash::<32>::from(&h[..]), ix)
}

pub fn apply_real_pub(st: StagingTransaction, ev: &Ev) -> Result<StagingTransaction, String> {
    apply_real(st, ev)
}

fn apply_real(st: StagingTransaction, ev: &Ev) -> Result<StagingTransaction, String> {
    use Ev::*;
    Ok(match ev {
        Input(i) => st.input(mk_input(*i)),
        RemoveInput(i) => st.remove_input(mk_input(*i)),
        RefInput(i) => st.reference_input(mk_input(*i)),
        RemoveRefInput(i) => st.remove_reference_input(mk_input(*i)),
        CollInput(i) => st.collateral_input(mk_input(*i)),
        RemoveCollInput(i) => st.remove_collateral_input(mk_input(*i)),
        Output(i) => st.output(out_spec(*i).real()?),
        RemoveOutput(i) => st.remove_output(*i),
        CollOutput(i) => st.collateral_output(out_spec(*i).real()?),
        ClearCollOutput => st.clear_collateral_output(),
        Fee(f) => st.fee(*f),
        ClearFee => st.clear_fee(),
        Mint(p, n, a) => st.mint_asset(Hash::<28>::from(&pol(*p)[..]), aname(*n), *a).map_err(|e| format!("{e:?}"))?,
        RemoveMint(p, n) => st.remove_mint_asset(Hash::<28>::from(&pol(*p)[..]), aname(*n)),
        ValidFrom(s) => st.valid_from_slot(*s),
        ClearValidFrom => st.clear_valid_from_slot(),
        InvalidFrom(s) => st.invalid_from_slot(*s),
        ClearInvalidFrom => st.clear_invalid_from_slot(),
        NetworkId(n) => st.network_id(*n),
        ClearNetworkId => st.clear_network_id(),
        Signer(s) => st.disclosed_signer(Hash::<28>::from(&signer(*s)[..])),
        RemoveSigner(s) => st.remove_disclosed_signer(Hash::<28>::from(&signer(*s)[..])),
        Script(i) => {
            let (k, b) = script_dom(*i);
            st.script(kind_of(k), b)
        }
        RemoveScript(i) => st.remove_script_by_hash(Hash::<28>::from(&script_hash(&script_dom(*i))[..])),
        Datum(i) => st.datum(datum_dom(*i)),
        RemoveDatum(i) => st.remove_datum(datum_dom(*i)),
        RemoveDatumByHash(i) => st.remove_datum_by_hash(Hash::<32>::from(blake2b::blake2b_256(&datum_dom(*i)))),
        LanguageViews => st.language_views(conway::LanguageViews([(1u8, vec![1i64, 2, 3])].into_iter().collect())),
        AddLanguage(k) => st.add_language(kind_of(*k), vec![10, 20]),
        SpendRdmr(i, d, ex) => st.add_spend_redeemer(mk_input(*i), rdmr_data(*d), ex.then_some(ExUnits { mem: EX.0, steps: EX.1 })),
        RemoveSpendRdmr(i) => st.remove_spend_redeemer(mk_input(*i)),
        MintRdmr(p, ex) => st.add_mint_redeemer(Hash::<28>::from(&pol(*p)[..]), rdmr_data(0), ex.then_some(ExUnits { mem: EX.0, steps: EX.1 })),
        RemoveMintRdmr(p) => st.remove_mint_redeemer(Hash::<28>::from(&pol(*p)[..])),
        SigOverride(n) => st.signature_amount_override(*n),
        ClearSigOverride => st.clear_signature_amount_override(),
        ChangeAddr => st.change_address(Address::from_bytes(&addr_bytes(0)).map_err(|e| format!("{e:?}"))?),
        ClearChangeAddr => st.clear_change_address(),
        Aux(i) => st.add_auxiliary_data(aux_dom(*i).0),
        ClearAux => st.clear_auxiliary_data(),
    })
}

// ------------------------------------------------------------------ staged content (model and struct views)

#[derive(Clone, Debug, PartialEq, Eq, PartialOrd, Ord)]
pub enum Purpose {
    Spend(In),
    Mint(Vec<u8>),
}

/// The fields the property lists, in a form in which "are the staged ones"
/// is plain equality. Sets are sets; outputs keep their order.
#[derive(Clone, Debug, PartialEq, Eq, Default)]
pub struct Content {
    inputs: BTreeSet<In>,
    outputs: Vec<OutC>,
    mint: BTreeMap<Vec<u8>, BTreeMap<Vec<u8>, i64>>,
    collateral: BTreeSet<In>,
    collateral_return: Option<OutC>,
    reference_inputs: BTreeSet<In>,
    signers: BTreeSet<Vec<u8>>,
    valid_from: Option<u64>,
    invalid_from: Option<u64>,
    network_id: Option<u8>,
    datums: BTreeSet<Vec<u8>>,
    scripts: BTreeSet<(u8, Vec<u8>)>,
    aux: Option<Vec<u8>>,
}

/// The mint a staged bundle stands for: zero amounts dropped, then empty policies.
fn effective_mint(m: &BTreeMap<Vec<u8>, BTreeMap<Vec<u8>, i64>>) -> BTreeMap<Vec<u8>, BTreeMap<Vec<u8>, i64>> {
    m.iter()
        .map(|(p, a)| (p.clone(), a.iter().filter(|(_, q)| **q != 0).map(|(n, q)| (n.clone(), *q)).collect::<BTreeMap<_, _>>()))
        .filter(|(_, a)| !a.is_empty())
        .collect()
}

impl Content {
    fn first_difference(&self, o: &Content) -> Option<(&'static str, String)> {
        macro_rules! f {
            ($name:ident) => {
                if self.$name != o.$name {
                    return Some((stringify!($name), format!("staged {:?} vs built {:?}", self.$name, o.$name)));
                }
            };
        }
        f!(inputs);
        f!(outputs);
        f!(mint);
        f!(collateral);
        f!(collateral_return);
        f!(reference_inputs);
        f!(signers);
        f!(valid_from);
        f!(invalid_from);
        f!(network_id);
        f!(datums);
        f!(scripts);
        f!(aux);
        None
    }
}

#[derive(Clone, Debug, PartialEq, Eq, Default)]
pub struct Staged {
    content: Content,
    /// inputs as a list (duplicates visible)
    inputs_list: Vec<In>,
    redeemers: BTreeMap<Purpose, (Vec<u8>, Option<(u64, u64)>)>,
    fee: Option<u64>,
}

/// Plain bookkeeping of what the calls staged, following the documented
/// meaning of each method.
#[derive(Clone, Default)]
struct Model {
    inputs: Vec<In>,
    ref_inputs: Vec<In>,
    coll_inputs: Vec<In>,
    outputs: Vec<OutC>,
    coll_output: Option<OutC>,
    fee: Option<u64>,
    mint: BTreeMap<Vec<u8>, BTreeMap<Vec<u8>, i64>>,
    valid_from: Option<u64>,
    invalid_from: Option<u64>,
    network_id: Option<u8>,
    signers: Vec<Vec<u8>>,
    scripts: BTreeMap<Vec<u8>, (u8, Vec<u8>)>,
    datums: BTreeMap<Vec<u8>, Vec<u8>>,
    redeemers: BTreeMap<Purpose, (Vec<u8>, Option<(u64, u64)>)>,
    aux: Option<Vec<u8>>,
}

impl Model {
    /// Returns false when the call is outside the method's domain (index out
    /// of range) and the history is not a staged transaction.
    fn apply(&mut self, ev: &Ev) -> bool {
        use Ev::*;
        match ev {
            Input(i) => self.inputs.push(inp(*i)),
            RemoveInput(i) => self.inputs.retain(|x| *x != inp(*i)),
            RefInput(i) => self.ref_inputs.push(inp(*i)),
            RemoveRefInput(i) => self.ref_inputs.retain(|x| *x != inp(*i)),
            CollInput(i) => self.coll_inputs.push(inp(*i)),
            RemoveCollInput(i) => self.coll_inputs.retain(|x| *x != inp(*i)),
            Output(i) => self.outputs.push(out_spec(*i).model()),
            RemoveOutput(i) => {
                if *i >= self.outputs.len() {
                    return false;
                }
                self.outputs.remove(*i);
            }
            CollOutput(i) => self.coll_output = Some(out_spec(*i).model()),
            ClearCollOutput => self.coll_output = None,
            Fee(f) => self.fee = Some(*f),
            ClearFee => self.fee = None,
            Mint(p, n, a) => *self.mint.entry(pol(*p)).or_default().entry(aname(*n)).or_default() += *a,
            RemoveMint(p, n) => {
                if let Some(m) = self.mint.get_mut(&pol(*p)) {
                    m.remove(&aname(*n));
                    if m.is_empty() {
                        self.mint.remove(&pol(*p));
                    }
                }
            }
            ValidFrom(s) => self.valid_from = Some(*s),
            ClearValidFrom => self.valid_from = None,
            InvalidFrom(s) => self.invalid_from = Some(*s),
            ClearInvalidFrom => self.invalid_from = None,
            NetworkId(n) => self.network_id = Some(*n),
            ClearNetworkId => self.network_id = None,
            Signer(s) => self.signers.push(signer(*s)),
            RemoveSigner(s) => self.signers.retain(|x| *x != signer(*s)),
            Script(i) => {
                let d = script_dom(*i);
                self.scripts.insert(script_hash(&d), d);
            }
            RemoveScript(i) => {
                self.scripts.remove(&script_hash(&script_dom(*i)));
            }
            Datum(i) => {
                let d = datum_dom(*i);
                self.datums.insert(blake2b::blake2b_256(&d).to_vec(), d);
            }
            RemoveDatum(i) | RemoveDatumByHash(i) => {
                self.datums.remove(&blake2b::blake2b_256(&datum_dom(*i)).to_vec());
            }
            LanguageViews | AddLanguage(_) | SigOverride(_) | ClearSigOverride | ChangeAddr | ClearChangeAddr => {}
            SpendRdmr(i, d, ex) => {
                self.redeemers.insert(Purpose::Spend(inp(*i)), (rdmr_data(*d), ex.then_some(EX)));
            }
            RemoveSpendRdmr(i) => {
                self.redeemers.remove(&Purpose::Spend(inp(*i)));
            }
            MintRdmr(p, ex) => {
                self.redeemers.insert(Purpose::Mint(pol(*p)), (rdmr_data(0), ex.then_some(EX)));
            }
            RemoveMintRdmr(p) => {
                self.redeemers.remove(&Purpose::Mint(pol(*p)));
            }
            Aux(i) => {
                let (b, ok) = aux_dom(*i);
                if ok {
                    self.aux = Some(b);
                }
            }
            ClearAux => self.aux = None,
        }
        true
    }

    fn staged(&self) -> Staged {
        Staged {
            content: Content {
                inputs: self.inputs.iter().cloned().collect(),
                outputs: self.outputs.clone(),
                mint: self.mint.clone(),
                collateral: self.coll_inputs.iter().cloned().collect(),
                collateral_return: self.coll_output.clone(),
                reference_inputs: self.ref_inputs.iter().cloned().collect(),
                signers: self.signers.iter().cloned().collect(),
                valid_from: self.valid_from,
                invalid_from: self.invalid_from,
                network_id: self.network_id,
                datums: self.datums.values().map(|d| canon(d)).collect(),
                scripts: self.scripts.values().map(|(k, b)| (*k, if *k == 0 { canon(b) } else { b.clone() })).collect(),
                aux: self.aux.as_ref().map(|a| canon(a)),
            },
            inputs_list: self.inputs.clone(),
            redeemers: self.redeemers.clone(),
            fee: self.fee,
        }
    }
}

fn staged_out(o: &Output) -> OutC {
    let mut assets: BTreeMap<Vec<u8>, BTreeMap<Vec<u8>, u64>> = BTreeMap::new();
    if let Some(a) = &o.assets {
        for (p, m) in a.deref().iter() {
            if !m.is_empty() {
                assets.insert(p.0.to_vec(), m.iter().map(|(n, q)| (n.0.clone(), *q)).collect());
            }
        }
    }
    let datum = o.datum.as_ref().map(|d| {
        let kind = format!("{:?}", d.kind).to_lowercase();
        let bytes = if kind == "inline" { canon(&d.bytes.0) } else { d.bytes.0.clone() };
        (kind, bytes)
    });
    let script = o.script.as_ref().map(|s| {
        let k = kind_tag(s.kind);
        (k, if k == 0 { canon(&s.bytes.0) } else { s.bytes.0.clone() })
    });
    OutC { address: o.address.0.to_vec(), lovelace: o.lovelace, assets, datum, script }
}

/// Read the staged struct through its public fields.
fn staged_of(st: &StagingTransaction, json_form: &Value) -> Result<Staged, String> {
    let ins = |v: &Option<Vec<Input>>| -> Vec<In> { v.iter().flatten().map(|i| (i.tx_hash.0.to_vec(), i.txo_index)).collect() };
    let inputs_list = ins(&st.inputs);
    let mut mint: BTreeMap<Vec<u8>, BTreeMap<Vec<u8>, i64>> = BTreeMap::new();
    if let Some(m) = &st.mint {
        for (p, a) in m.deref().iter() {
            if !a.is_empty() {
                mint.insert(p.0.to_vec(), a.iter().map(|(n, q)| (n.0.clone(), *q)).collect());
            }
        }
    }
    let mut redeemers = BTreeMap::new();
    if let Some(r) = json_form.get("redeemers").and_then(|r| r.as_object()) {
        for (k, v) in r {
            let purpose = if let Some(rest) = k.strip_prefix("spend:") {
                let (h, ix) = rest.split_once('#').ok_or("bad spend key")?;
                Purpose::Spend((hex::decode(h).map_err(|e| e.to_string())?, ix.parse::<u64>().map_err(|e| e.to_string())?))
            } else if let Some(rest) = k.strip_prefix("mint:") {
                Purpose::Mint(hex::decode(rest).map_err(|e| e.to_string())?)
            } else {
                return Err(format!("unknown redeemer key {k}"));
            };
            let data = hex::decode(v.get(0).and_then(|x| x.as_str()).ok_or("redeemer data")?).map_err(|e| e.to_string())?;
            let ex = match v.get(1) {
                Some(Value::Null) | None => None,
                Some(e) => Some((e["mem"].as_u64().ok_or("mem")?, e["steps"].as_u64().ok_or("steps")?)),
            };
            redeemers.insert(purpose, (data, ex));
        }
    }
    let aux = match &st.auxiliary_data {
        None => None,
        Some(a) => Some(canon(&minicbor::to_vec(a).map_err(|e| e.to_string())?)),
    };
    Ok(Staged {
        content: Content {
            inputs: inputs_list.iter().cloned().collect(),
            outputs: st.outputs.iter().flatten().map(staged_out).collect(),
            mint,
            collateral: ins(&st.collateral_inputs).into_iter().collect(),
            collateral_return: st.collateral_output.as_ref().map(staged_out),
            reference_inputs: ins(&st.reference_inputs).into_iter().collect(),
            signers: st.disclosed_signers.iter().flatten().map(|s| s.0.to_vec()).collect(),
            valid_from: st.valid_from_slot,
            invalid_from: st.invalid_from_slot,
            network_id: st.network_id,
            datums: st.datums.iter().flat_map(|m| m.values()).map(|d| canon(&d.0)).collect(),
            scripts: st
                .scripts
                .iter()
                .flat_map(|m| m.values())
                .map(|s| {
                    let k = kind_tag(s.kind);
                    (k, if k == 0 { canon(&s.bytes.0) } else { s.bytes.0.clone() })
                })
                .collect(),
            aux,
        },
        inputs_list,
        redeemers,
        fee: st.fee,
    })
}

// ------------------------------------------------------------------ decoded content

fn decoded_out(o: &conway::TransactionOutput) -> Result<OutC, String> {
    let o = match o {
        conway::TransactionOutput::PostAlonzo(k) => k,
        conway::TransactionOutput::Legacy(_) => return Err("legacy-shaped output".into()),
    };
    let (lovelace, assets) = match &o.value {
        conway::Value::Coin(c) => (*c, BTreeMap::new()),
        conway::Value::Multiasset(c, m) => (
            *c,
            m.iter()
                .filter(|(_, a)| !a.is_empty())
                .map(|(p, a)| (p.to_vec(), a.iter().map(|(n, q)| (n.to_vec(), u64::from(*q))).collect()))
                .collect(),
        ),
    };
    let datum = o.datum_option.as_ref().map(|d| match d.deref() {
        conway::DatumOption::Hash(h) => ("hash".to_string(), h.to_vec()),
        conway::DatumOption::Data(w) => ("inline".to_string(), canon(w.0.raw_cbor())),
    });
    let script = o.script_ref.as_ref().map(|w| match &w.0 {
        conway::ScriptRef::NativeScript(k) => (0u8, canon(k.raw_cbor())),
        conway::ScriptRef::PlutusV1Script(s) => (1, s.0.to_vec()),
        conway::ScriptRef::PlutusV2Script(s) => (2, s.0.to_vec()),
        conway::ScriptRef::PlutusV3Script(s) => (3, s.0.to_vec()),
    });
    Ok(OutC { address: o.address.to_vec(), lovelace, assets, datum, script })
}

struct Decoded {
    content: Content,
    inputs_list: Vec<In>,
    /// (tag 0 spend / 1 mint / 2.. other, index, canonical data, ex units)
    redeemers: Vec<(u8, u32, Vec<u8>, (u64, u64))>,
    fee: u64,
}

fn decoded_of(tx: &conway::Tx) -> Result<Decoded, String> {
    let b = tx.transaction_body.deref();
    let w = tx.transaction_witness_set.deref();
    let tin = |i: &conway::TransactionInput| -> In { (i.transaction_id.to_vec(), i.index) };
    let inputs_list: Vec<In> = b.inputs.iter().map(tin).collect();
    let mut scripts: BTreeSet<(u8, Vec<u8>)> = BTreeSet::new();
    for s in w.native_script.iter().flat_map(|s| s.iter()) {
        scripts.insert((0, canon(s.raw_cbor())));
    }
    for s in w.plutus_v1_script.iter().flat_map(|s| s.iter()) {
        scripts.insert((1, s.0.to_vec()));
    }
    for s in w.plutus_v2_script.iter().flat_map(|s| s.iter()) {
        scripts.insert((2, s.0.to_vec()));
    }
    for s in w.plutus_v3_script.iter().flat_map(|s| s.iter()) {
        scripts.insert((3, s.0.to_vec()));
    }
    let tagn = |t: &conway::RedeemerTag| -> u8 {
        match t {
            conway::RedeemerTag::Spend => 0,
            conway::RedeemerTag::Mint => 1,
            conway::RedeemerTag::Cert => 2,
            conway::RedeemerTag::Reward => 3,
            conway::RedeemerTag::Vote => 4,
            conway::RedeemerTag::Propose => 5,
        }
    };
    let pd = |d: &conway::PlutusData| -> Vec<u8> { minicbor::to_vec(d).map(|v| canon(&v)).unwrap_or_default() };
    let mut redeemers = vec![];
    match w.redeemer.as_ref().map(|r| r.deref()) {
        None => {}
        Some(conway::Redeemers::List(l)) => {
            for r in l {
                redeemers.push((tagn(&r.tag), r.index, pd(&r.data), (r.ex_units.mem, r.ex_units.steps)));
            }
        }
        Some(conway::Redeemers::Map(m)) => {
            for (k, v) in m.iter() {
                redeemers.push((tagn(&k.tag), k.index, pd(&v.data), (v.ex_units.mem, v.ex_units.steps)));
            }
        }
    }
    let aux = match &tx.auxiliary_data {
        pallas_primitives::Nullable::Some(k) => Some(canon(k.raw_cbor())),
        _ => None,
    };
    Ok(Decoded {
        content: Content {
            inputs: inputs_list.iter().cloned().collect(),
            outputs: b.outputs.iter().map(decoded_out).collect::<Result<_, _>>()?,
            mint: b
                .mint
                .iter()
                .flat_map(|m| m.iter())
                .filter(|(_, a)| !a.is_empty())
                .map(|(p, a)| (p.to_vec(), a.iter().map(|(n, q)| (n.to_vec(), i64::from(*q))).collect()))
                .collect(),
            collateral: b.collateral.iter().flat_map(|s| s.iter()).map(tin).collect(),
            collateral_return: b.collateral_return.as_ref().map(decoded_out).transpose()?,
            reference_inputs: b.reference_inputs.iter().flat_map(|s| s.iter()).map(tin).collect(),
            signers: b.required_signers.iter().flat_map(|s| s.iter()).map(|h| h.to_vec()).collect(),
            valid_from: b.validity_interval_start,
            invalid_from: b.ttl,
            network_id: b.network_id.map(u8::from),
            datums: w.plutus_data.iter().flat_map(|s| s.deref().iter()).map(|d| canon(d.raw_cbor())).collect(),
            scripts,
            aux,
        },
        inputs_list,
        redeemers,
        fee: b.fee,
    })
}

/// Scripts of the built witness set read with refcbor, by language key
/// (1 native, 3 PlutusV1, 6 PlutusV2, 7 PlutusV3), as a sorted list (duplicates visible).
fn witness_scripts(bytes: &[u8]) -> Result<Vec<(u8, Vec<u8>)>, String> {
    let top = refcbor::parse_one(bytes).map_err(|e| format!("{e:?}"))?;
    let ws = top.as_array().and_then(|a| a.get(1)).ok_or("no witness set")?;
    let mut out = vec![];
    for (key, kind) in [(1u64, 0u8), (3, 1), (6, 2), (7, 3)] {
        if let Some(v) = ws.map_get(key) {
            for item in v.untagged().as_array().ok_or("script section is not an array")? {
                out.push((kind, if kind == 0 { item.canonical().to_vec() } else { item.as_bytes().ok_or("plutus script is not a byte string")? }));
            }
        }
    }
    out.sort();
    Ok(out)
}

// ------------------------------------------------------------------ accumulators

#[derive(Default)]
struct Best {
    /// witnesses at states whose build outcome does not depend on HashMap iteration order
    count: u64,
    /// witnesses at order-dependent states (not reproducible run to run, reported separately)
    count_order_dependent: u64,
    hist: Vec<Ev>,
    what: String,
    extra: Value,
    /// the few shortest histories that hit this fingerprint
    shortest: Vec<((usize, Vec<usize>), Vec<String>)>,
}

#[derive(Default)]
struct Acc {
    evaluations: AtomicU64,
    build_ok: AtomicU64,
    build_err: Mutex<BTreeMap<String, u64>>,
    build_panic: AtomicU64,
    order_dependent_states: AtomicU64,
    staging_skips: Mutex<BTreeMap<String, (u64, Vec<String>)>>,
    divergences: Mutex<BTreeMap<String, (u64, Vec<String>)>>,
    redeemer_pointer_checks: AtomicU64,
    reordered_pointer_checks: AtomicU64,
    hash_checks: AtomicU64,
    cancelled_mint_builds_ok: AtomicU64,
    same_bytes_multi_language_builds_ok: AtomicU64,
    script_removals_by_reference_hash_builds_ok: AtomicU64,
    diag_redeemer_payload_differs: AtomicU64,
    diag_fee_differs: AtomicU64,
    violations: Mutex<BTreeMap<String, Best>>,
}

fn hist_rank(h: &[Ev]) -> (usize, Vec<usize>) {
    static ALL: std::sync::OnceLock<Vec<Ev>> = std::sync::OnceLock::new();
    let all = ALL.get_or_init(all_events);
    (h.len(), h.iter().map(|e| all.iter().position(|x| x == e).unwrap_or(usize::MAX)).collect())
}

impl Acc {
    fn violation(&self, fp: String, what: String, hist: &[Ev], extra: Value, order_dependent: bool) {
        let mut v = self.violations.lock().unwrap();
        let e = v.entry(fp).or_default();
        if order_dependent {
            e.count_order_dependent += 1;
        } else {
            e.count += 1;
        }
        let r = hist_rank(hist);
        if e.shortest.len() < 4 || r < e.shortest.last().unwrap().0 {
            // (rare after the first few witnesses)
            e.shortest.push((r.clone(), hist.iter().map(|x| x.describe()).collect()));
            e.shortest.sort();
            e.shortest.dedup();
            e.shortest.truncate(4);
        }
        if e.count + e.count_order_dependent == 1 || r < hist_rank(&e.hist) {
            e.hist = hist.to_vec();
            e.what = what;
            e.extra = extra;
        }
    }
    fn bump(m: &Mutex<BTreeMap<String, (u64, Vec<String>)>>, k: String, hist: &[Ev]) {
        let mut m = m.lock().unwrap();
        let e = m.entry(k).or_default();
        e.0 += 1;
        let d: Vec<String> = hist.iter().map(|e| e.describe()).collect();
        if e.1.is_empty() || d.len() < e.1.len() || (d.len() == e.1.len() && d < e.1) {
            e.1 = d;
        }
    }
}

pub fn state_key(v: &Value) -> String {
    hex::encode(blake2b::blake2b_256(v.to_string().as_bytes()))
}

// ------------------------------------------------------------------ one history

/// Replays `hist` on a fresh real object and evaluates the oracle at the state
/// reached.
fn run_history(acc: &Acc, hist: &[Ev]) -> Outcome {
    let mut st = StagingTransaction::new();
    let mut model = Model::default();
    let mut last_removed_a_script = false;
    for (n, ev) in hist.iter().enumerate() {
        last_removed_a_script = matches!(ev, Ev::RemoveScript(i) if model.scripts.contains_key(&script_hash(&script_dom(*i))));
        let enabled = model.apply(ev);
        let s = st;
        match catch(move || apply_real(s, ev)) {
            Err(p) => {
                // A panic inside a staging call is not "building"; recorded as a
                // diagnostic, the history is not a staged transaction.
                if n + 1 == hist.len() {
                    Acc::bump(&acc.staging_skips, format!("{} in {}{}", p.site(), ev.describe().split('(').next().unwrap_or(""), if enabled { "" } else { " (outside the method's domain)" }), hist);
                }
                return Outcome::Skip;
            }
            Ok(Err(e)) => {
                if n + 1 == hist.len() {
                    Acc::bump(&acc.staging_skips, format!("staging call returned Err: {e}"), hist);
                }
                return Outcome::Skip;
            }
            Ok(Ok(s)) => st = s,
        }
        if !enabled {
            Acc::bump(&acc.divergences, "call outside the model's domain was accepted".into(), hist);
        }
    }
    acc.evaluations.fetch_add(1, Ordering::Relaxed);
    let json_form = match mc_core::serde_json::to_value(&st) {
        Ok(v) => v,
        Err(e) => mc_core::report::machinery_failure(&format!("StagingTransaction does not serialise: {e}")),
    };
    let key = state_key(&json_form);
    let staged = match staged_of(&st, &json_form) {
        Ok(s) => s,
        Err(e) => mc_core::report::machinery_failure(&format!("cannot read staged struct: {e}")),
    };
    let m = model.staged();
    if m != staged {
        let field = m.content.first_difference(&staged.content).map(|d| d.0).unwrap_or(if m.redeemers != staged.redeemers {
            "redeemers"
        } else if m.inputs_list != staged.inputs_list {
            "inputs_list"
        } else {
            "fee"
        });
        let last = hist.last().map(|e| e.describe()).unwrap_or_default();
        Acc::bump(&acc.divergences, format!("{field} after {}", last.split('(').next().unwrap_or("")), hist);
    }
    let replay = |extra: Value| json!({"history": hist.iter().map(|e| e.describe()).collect::<Vec<_>>(), "events": format!("{hist:?}"), "detail": extra});

    // build_conway_raw walks the redeemer HashMap in its (per-process random) iteration
    // order and stops at the first redeemer that fails. When two staged redeemers fail for
    // different reasons, which failure is reported is not reproducible; such states are
    // evaluated (a violation seen there is still reported) but they are neither pruned nor
    // counted by outcome, so that the exploration and its counts are the same on every run.
    let failing_classes: BTreeSet<&str> = staged
        .redeemers
        .iter()
        .filter_map(|(p, (data, ex))| {
            if ex.is_none() {
                Some("no-ex-units")
            } else if refcbor::parse_one(data).is_err() {
                Some("malformed-data")
            } else if match p {
                Purpose::Spend(i) => !staged.content.inputs.contains(i),
                Purpose::Mint(pid) => !effective_mint(&staged.content.mint).contains_key(pid),
            } {
                Some("target-missing")
            } else {
                None
            }
        })
        .collect();
    let order_dependent = failing_classes.len() >= 2;
    if order_dependent {
        acc.order_dependent_states.fetch_add(1, Ordering::Relaxed);
    }

    // ---- build at this state
    let st2 = st.clone();
    let built: BuiltTransaction = match catch(move || st2.build_conway_raw()) {
        Err(p) => {
            if !order_dependent {
                acc.build_panic.fetch_add(1, Ordering::Relaxed);
            }
            // Which public entry point panics: a staged output on its own, or the body assembly.
            let outs: Vec<&Output> = st.outputs.iter().flatten().chain(st.collateral_output.iter()).collect();
            let in_output = outs.iter().any(|o| catch(|| o.build_babbage_raw().map(|_| ())).is_err());
            let entry = if in_output { "Output::build_babbage_raw" } else { "build_conway_raw" };
            acc.violation(
                format!("{} in {entry}", p.site()),
                format!("{entry} panicked: {} at {}", p.message, p.location),
                hist,
                replay(json!({"panic": p.message, "location": p.location})),
                order_dependent,
            );
            return if order_dependent { Outcome::State(key) } else { Outcome::Violation };
        }
        Ok(Err(e)) => {
            if !order_dependent {
                *acc.build_err.lock().unwrap().entry(format!("{e:?}")).or_default() += 1;
            }
            return Outcome::State(key);
        }
        Ok(Ok(b)) => b,
    };
    acc.build_ok.fetch_add(1, Ordering::Relaxed);
    let bytes = built.tx_bytes.0.clone();
    let bytes_hex = hex::encode(&bytes);
    let mut bad = false;
    let mut fail = |fp: String, what: String, extra: Value| {
        acc.violation(fp, what, hist, replay(json!({"tx_bytes": bytes_hex, "more": extra})), false);
        bad = true;
    };

    // (1) the built bytes decode to a Conway transaction carrying the staged content
    match catch(|| conway::Tx::decode_fragment(&bytes).map(|tx| decoded_of(&tx))) {
        Err(p) => fail(format!("{} in conway::Tx::decode_fragment(built bytes)", p.site()), format!("decoding the built bytes panicked: {} at {}", p.message, p.location), json!({})),
        Ok(Err(e)) => fail("built-bytes:not-a-conway-tx".into(), format!("built bytes do not decode as conway::Tx: {e}"), json!({})),
        Ok(Ok(Err(e))) => fail("built-bytes:unexpected-shape".into(), format!("decoded transaction has an unexpected shape: {e}"), json!({})),
        Ok(Ok(Ok(dec))) => {
            // A Conway mint cannot carry a zero quantity: a staged amount that cancelled out
            // to 0 mints nothing, so the staged side drops zero amounts, then empty policies.
            // Scripts: the reference is the bookkeeping of the calls (every (language, bytes)
            // staged and not removed by its reference hash), not the keys of the staged map.
            // Outputs and collateral return: the reference is likewise the bookkeeping of the
            // calls (the `Output` builder calls included: an asset added twice accumulates), not
            // the `Output` values as they sit in the staged struct.
            // Every other field as well: what was staged is what the calls said, so a staging
            // call that files its argument wrongly shows up here. Only the datums are taken
            // from the staged struct (remove_datum_by_hash works on the hash of the bytes as
            // staged, which the bookkeeping model does not reproduce; see the diagnostics).
            let staged_cmp = Content { mint: effective_mint(&m.content.mint), datums: staged.content.datums.clone(), ..m.content.clone() };
            let diff = staged_cmp.first_difference(&dec.content);
            if let Some((field, detail)) = &diff {
                fail(format!("built-content:{field}"), format!("built {field} are not the staged ones: {detail}"), json!({}));
            }
            if diff.as_ref().map(|d| d.0) != Some("scripts") {
                // the same, read from the bytes by witness-set key, each script exactly once
                let want: Vec<(u8, Vec<u8>)> = m.content.scripts.iter().cloned().collect();
                match witness_scripts(&bytes) {
                    Ok(got) if got == want => {}
                    Ok(got) => fail("built-content:scripts".into(), format!("witness-set script sections (1 native, 3 V1, 6 V2, 7 V3) hold {got:?}, staged {want:?}"), json!({})),
                    Err(e) => fail("built-bytes:unexpected-shape".into(), format!("cannot read the script sections of the witness set: {e}"), json!({})),
                }
            }
            let sc: Vec<&(u8, Vec<u8>)> = m.content.scripts.iter().collect();
            if sc.iter().any(|a| sc.iter().any(|b| a.0 != b.0 && a.1 == b.1)) {
                acc.same_bytes_multi_language_builds_ok.fetch_add(1, Ordering::Relaxed);
            }
            if last_removed_a_script {
                acc.script_removals_by_reference_hash_builds_ok.fetch_add(1, Ordering::Relaxed);
            }
            if staged_cmp.mint != staged.content.mint {
                acc.cancelled_mint_builds_ok.fetch_add(1, Ordering::Relaxed);
            }
            if dec.fee != staged.fee.unwrap_or(0) {
                acc.diag_fee_differs.fetch_add(1, Ordering::Relaxed);
            }
            // (3) redeemer pointers: index = position of the target in the ledger's
            // canonical order (inputs: the sorted *set* of (tx id, index); mint: sorted policy ids).
            // The order is read off the built transaction (that is what a ledger resolves a
            // pointer against); its inputs / mint equal the staged ones by the check above.
            let sorted_inputs: Vec<&In> = dec.content.inputs.iter().collect();
            let sorted_policies: Vec<&Vec<u8>> = dec.content.mint.keys().collect();
            let has_dup_inputs = staged.inputs_list.len() != staged.content.inputs.len();
            let mut expected: Vec<(u8, u32)> = vec![];
            let mut expected_full: Vec<(u8, u32, Vec<u8>, (u64, u64))> = vec![];
            let mut missing = None;
            for (purpose, (data, ex)) in &staged.redeemers {
                let pos = match purpose {
                    Purpose::Spend(i) => sorted_inputs.iter().position(|x| *x == i).map(|p| (0u8, p as u32)),
                    Purpose::Mint(p) => sorted_policies.iter().position(|x| *x == p).map(|p| (1u8, p as u32)),
                };
                match pos {
                    Some(p) => {
                        expected.push(p);
                        expected_full.push((p.0, p.1, canon(data), ex.unwrap_or((0, 0))));
                    }
                    None => missing = Some(purpose.clone()),
                }
            }
            if let Some(p) = missing {
                fail("redeemer-pointer:target-not-in-built-tx".into(), format!("built although the target of redeemer {p:?} is not among the built inputs / minted policies"), json!({}));
            } else {
                let mut got: Vec<(u8, u32)> = dec.redeemers.iter().map(|r| (r.0, r.1)).collect();
                got.sort();
                expected.sort();
                if !staged.redeemers.is_empty() {
                    acc.redeemer_pointer_checks.fetch_add(1, Ordering::Relaxed);
                    let spend_targets_reordered = staged.redeemers.keys().any(|p| match p {
                        Purpose::Spend(i) => staged.inputs_list.iter().position(|x| x == i) != sorted_inputs.iter().position(|x| *x == i),
                        Purpose::Mint(_) => sorted_policies.len() > 1,
                    });
                    if spend_targets_reordered {
                        acc.reordered_pointer_checks.fetch_add(1, Ordering::Relaxed);
                    }
                }
                if got != expected {
                    let spend_wrong = got.iter().filter(|g| g.0 == 0).ne(expected.iter().filter(|g| g.0 == 0));
                    let class = match (spend_wrong, has_dup_inputs) {
                        (true, true) => "spend-index-counts-duplicate-inputs",
                        (true, false) => "spend-index",
                        (false, _) => "mint-index",
                    };
                    fail(
                        format!("redeemer-pointer:{class}"),
                        format!("redeemer (tag, index) pairs {got:?} but the targets sit at {expected:?} in the ledger order (inputs as staged {:?})", dec.inputs_list.iter().map(|(h, i)| format!("{}#{i}", hx(&h[..1]))).collect::<Vec<_>>()),
                        json!({}),
                    );
                } else {
                    let mut g = dec.redeemers.clone();
                    g.sort();
                    expected_full.sort();
                    if g != expected_full {
                        acc.diag_redeemer_payload_differs.fetch_add(1, Ordering::Relaxed);
                    }
                }
            }
        }
    }

    // (2) reported id == Blake2b-256 of the body bytes inside the built bytes
    acc.hash_checks.fetch_add(1, Ordering::Relaxed);
    match refcbor::parse_one(&bytes) {
        Ok(top) => match top.as_array().and_then(|a| a.first()) {
            Some(body) => {
                let span = body.span(&bytes);
                let h = blake2b::blake2b_256(span);
                if h != built.tx_hash.0 {
                    fail(
                        "tx-hash:not-blake2b256-of-body-span".into(),
                        format!("tx_hash {} but Blake2b-256(body span) = {}", hx(&built.tx_hash.0), hx(&h)),
                        json!({"body": hx(span)}),
                    );
                }
            }
            None => fail("built-bytes:not-an-array".into(), "built bytes are not a CBOR array with a body".into(), json!({})),
        },
        Err(e) => fail("built-bytes:not-well-formed-cbor".into(), format!("built bytes are not one well-formed CBOR item: {e:?}"), json!({})),
    }
    if bad {
        Outcome::Violation
    } else {
        Outcome::State(key)
    }
}

// ------------------------------------------------------------------ alphabets

/// Every staging method over the tiny domains of DESIGN.md 5/C40.
pub fn wide_alphabet() -> Vec<Ev> {
    use Ev::*;
    let mut a = vec![
        Input(0), Input(1), RemoveInput(0), RemoveInput(1),
        RefInput(0), RefInput(1), RemoveRefInput(0),
        CollInput(0), CollInput(1), RemoveCollInput(0),
        Output(0), Output(1), Output(2), Output(3), Output(4), Output(5), Output(6), Output(7), Output(8), RemoveOutput(0), RemoveOutput(1),
        CollOutput(0), CollOutput(1), CollOutput(3), CollOutput(7), ClearCollOutput,
        Fee(7), ClearFee,
    ];
    for p in 0..2 {
        for n in 0..2 {
            for amt in [5, -5, 3] {
                a.push(Mint(p, n, amt));
            }
            a.push(RemoveMint(p, n));
        }
    }
    a.extend([
        ValidFrom(10), ClearValidFrom, InvalidFrom(20), ClearInvalidFrom,
        NetworkId(0), NetworkId(1), NetworkId(2), ClearNetworkId,
        Signer(0), Signer(1), RemoveSigner(0),
        Script(0), Script(1), Script(2), Script(3), Script(4), RemoveScript(0), RemoveScript(1), RemoveScript(2), RemoveScript(3), RemoveScript(4),
        Datum(0), Datum(1), Datum(2), RemoveDatum(0), RemoveDatumByHash(1),
        LanguageViews, AddLanguage(1), AddLanguage(2), AddLanguage(0),
        SpendRdmr(0, 0, true), SpendRdmr(1, 0, true), SpendRdmr(0, 0, false), SpendRdmr(0, 1, true), RemoveSpendRdmr(0),
        MintRdmr(0, true), MintRdmr(1, true), MintRdmr(0, false), RemoveMintRdmr(0),
        SigOverride(2), ClearSigOverride, ChangeAddr, ClearChangeAddr,
        Aux(0), Aux(1), Aux(2), ClearAux,
    ]);
    a
}

/// The calls that interact through ordering / accumulation (inputs incl. a
/// third one and duplicates, mint accumulate/cancel/remove, redeemers).
pub fn deep_alphabet() -> Vec<Ev> {
    use Ev::*;
    vec![
        Input(0), Input(1), Input(2), RemoveInput(1),
        SpendRdmr(0, 0, true), SpendRdmr(1, 0, true), RemoveSpendRdmr(0),
        Mint(0, 0, 5), Mint(0, 0, -5), Mint(1, 0, 3), Mint(0, 1, 3), RemoveMint(0, 0),
        MintRdmr(0, true), MintRdmr(1, true),
    ]
}

fn all_events() -> Vec<Ev> {
    let mut a = wide_alphabet();
    for e in deep_alphabet() {
        if !a.contains(&e) {
            a.push(e);
        }
    }
    a
}

// ------------------------------------------------------------------ driver

pub fn run(ctx: Ctx) -> ! {
    let acc = Acc::default();
    if let Some(p) = &ctx.replay {
        let v: Value = match std::fs::read_to_string(p).ok().and_then(|s| mc_core::serde_json::from_str(&s).ok()) {
            Some(v) => v,
            None => mc_core::report::machinery_failure(&format!("cannot read replay file {p:?}")),
        };
        let want: Vec<String> = v["case"]["history"].as_array().map(|a| a.iter().filter_map(|x| x.as_str().map(String::from)).collect()).unwrap_or_default();
        let all = all_events();
        let hist: Vec<Ev> = want
            .iter()
            .map(|d| all.iter().find(|e| e.describe() == *d).cloned().unwrap_or_else(|| mc_core::report::machinery_failure(&format!("unknown event {d}"))))
            .collect();
        let o = run_history(&acc, &hist);
        println!("replay C40: {} calls -> {}", hist.len(), match o { Outcome::State(_) => "state reached, oracle holds", Outcome::Violation => "violation", Outcome::Skip => "a staging call was not enabled" });
        for (fp, b) in acc.violations.lock().unwrap().iter() {
            println!("  [{fp}] {}", b.what);
        }
        std::process::exit(0);
    }

    let init_key = state_key(&mc_core::serde_json::to_value(StagingTransaction::new()).unwrap());
    if !matches!(run_history(&acc, &[]), Outcome::State(_)) {
        ctx.note("the oracle fails on the empty staged transaction");
    }
    let wide = wide_alphabet();
    let deep = deep_alphabet();
    let (wide_depth, deep_depth) = if ctx.thorough { (4, 9) } else { (3, 6) };
    let cfg = |d| bfs::Config { max_depth: d, max_states: 40_000_000, parallel: true };
    let s_wide = bfs::explore(init_key.clone(), |_h: &[Ev]| wide.clone(), |h: &[Ev]| run_history(&acc, h), &cfg(wide_depth));
    let s_deep = bfs::explore(init_key, |_h: &[Ev]| deep.clone(), |h: &[Ev]| run_history(&acc, h), &cfg(deep_depth));

    // ---- hand the minimal witness of each defect to the report
    let viols = std::mem::take(&mut *acc.violations.lock().unwrap());
    let mut order: Vec<(&String, &Best)> = viols.iter().collect();
    order.sort_by_key(|(fp, b)| (hist_rank(&b.hist), (*fp).clone()));
    for (fp, b) in order {
        let mut extra = b.extra.clone();
        extra["shortest_histories_with_this_fingerprint"] = json!(b.shortest.iter().map(|x| x.1.clone()).collect::<Vec<_>>());
        extra["witnesses_at_order_dependent_states_not_counted"] = json!(b.count_order_dependent);
        ctx.violation(fp.clone(), format!("{} (shortest history: {} calls)", b.what, b.hist.len()), extra);
        for _ in 1..b.count.max(1) {
            ctx.violation(fp.clone(), "", Value::Null);
        }
    }

    let build_ok = acc.build_ok.load(Ordering::Relaxed);
    let errs = acc.build_err.lock().unwrap().clone();
    let ptr = acc.redeemer_pointer_checks.load(Ordering::Relaxed);
    let reordered = acc.reordered_pointer_checks.load(Ordering::Relaxed);
    let same_bytes = acc.same_bytes_multi_language_builds_ok.load(Ordering::Relaxed);
    let removals = acc.script_removals_by_reference_hash_builds_ok.load(Ordering::Relaxed);
    if same_bytes == 0 || removals == 0 {
        mc_core::report::machinery_failure(&format!("vacuous exploration: builds with one byte string staged under two languages={same_bytes}, builds after an effective remove_script_by_hash={removals}"));
    }
    if build_ok == 0 || errs.len() < 3 || ptr == 0 || reordered == 0 {
        mc_core::report::machinery_failure(&format!(
            "vacuous exploration: builds ok={build_ok}, distinct build errors={}, redeemer pointer checks={ptr}, of which on reordered targets={reordered}",
            errs.len()
        ));
    }
    let fold = |m: &Mutex<BTreeMap<String, (u64, Vec<String>)>>| -> Vec<Value> { m.lock().unwrap().iter().map(|(k, (n, h))| json!({"what": k, "count": n, "shortest_history": h})).collect() };
    let mut samples: Vec<String> = s_wide.samples.iter().chain(s_deep.samples.iter()).cloned().collect();
    samples.truncate(10);
    let cov = cov! {
        "states" => s_wide.states + s_deep.states,
        "transitions" => s_wide.transitions + s_deep.transitions,
        "traces_validated_against_impl" => acc.evaluations.load(Ordering::Relaxed),
        "samples" => samples,
        "max_depth" => s_wide.max_depth.max(s_deep.max_depth),
        "fixpoint" => s_wide.fixpoint && s_deep.fixpoint,
        "explorations" => json!([
            {"alphabet": "wide: every StagingTransaction method over the tiny domains", "events": wide.len(), "depth": s_wide.max_depth, "states": s_wide.states, "transitions": s_wide.transitions,
             "per_depth_new_states": s_wide.per_depth_new_states, "fixpoint": s_wide.fixpoint, "capped": s_wide.capped, "pruned_at_violation": s_wide.pruned},
            {"alphabet": "deep: 3 inputs (duplicates allowed) / remove, spend+mint redeemers, mint accumulate/cancel/remove over 2 policies", "events": deep.len(), "depth": s_deep.max_depth, "states": s_deep.states, "transitions": s_deep.transitions,
             "per_depth_new_states": s_deep.per_depth_new_states, "fixpoint": s_deep.fixpoint, "capped": s_deep.capped, "pruned_at_violation": s_deep.pruned},
        ]),
        "builds_ok_oracle_evaluated" => build_ok,
        "builds_err_by_kind" => json!(errs),
        "builds_panicked" => acc.build_panic.load(Ordering::Relaxed),
        "states_with_iteration_order_dependent_build_outcome" => acc.order_dependent_states.load(Ordering::Relaxed),
        "builds_ok_with_a_mint_amount_cancelled_to_zero" => acc.cancelled_mint_builds_ok.load(Ordering::Relaxed),
        "builds_ok_with_one_byte_string_staged_under_two_languages" => same_bytes,
        "builds_ok_right_after_remove_script_by_hash_that_removed" => removals,
        "tx_hash_checks" => acc.hash_checks.load(Ordering::Relaxed),
        "redeemer_pointer_checks" => ptr,
        "redeemer_pointer_checks_with_reordered_targets" => reordered,
        "distinct_outcomes" => errs.len() + 1 + viols.len(),
        "staging_calls_not_enabled" => fold(&acc.staging_skips),
        "diagnostic_model_vs_staged_struct_divergences" => fold(&acc.divergences),
        "diagnostic_redeemer_data_or_exunits_differ" => acc.diag_redeemer_payload_differs.load(Ordering::Relaxed),
        "diagnostic_fee_differs" => acc.diag_fee_differs.load(Ordering::Relaxed),
        "exhaustive" => true,
        "rule" => "state = canonical serde_json form of the real StagingTransaction reached by a history (hashed); transition = one staging call replayed (with its whole history) on a fresh real object; the oracle (build_conway_raw + decode + refcbor body span + reference Blake2b-256 + pointer positions) is evaluated after every transition; a state at which the oracle fails is not expanded",
    };
    ctx.finish(
        Level::ModelChecking,
        cov,
        &[
            "staged content = the public fields of the StagingTransaction (cross-checked against a bookkeeping model of the calls; divergences are diagnostics), where the bookkeeping model of the calls is the reference for every compared field except the witness datums (there the staged struct is; remove_datum_by_hash is modelled coarsely); for scripts the bookkeeping model is the reference (every (language, bytes) staged and not removed through its reference hash Blake2b-224(tag || bytes) must sit under its own witness-set key, each once, nothing else)",
            "a staged mint amount that accumulated to 0 stands for 'nothing minted': zero amounts, then empty policies, are dropped from the staged side of the mint comparison; redeemer positions are taken in the sorted set of inputs / sorted policy ids of the built transaction",
            "sets (inputs, collateral, reference inputs, signers, datums, scripts) are compared as sets; datums, native scripts and auxiliary data up to CBOR spelling (definite/indefinite, head width)",
            "fee, script_data_hash, redeemer data and ex-units are not in the property's list and are diagnostics only",
            "panics inside staging calls (remove_output out of range) are outside 'building' and reported as diagnostics",
            "build_conway_raw stops at the first failing redeemer in HashMap iteration order; evaluations of states holding two redeemers that fail for different reasons are evaluated but not pruned and not counted by outcome (counts stay reproducible)",
            "values outside the tiny domains are not covered",
        ],
    )
}
